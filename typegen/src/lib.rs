//! see Cargo.toml
