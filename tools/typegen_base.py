#!/usr/bin/env python3
"""Builds /verif/typegen (ohkami with the openapi feature, serde, serde_json from /repo's working tree) and
records the rlib paths the C16 check passes to rustc."""
import json, os, subprocess, sys
here = os.path.dirname(os.path.dirname(os.path.abspath(__file__)))
tgt = os.path.join(here, "target", "typegen-base")
p = subprocess.run(["cargo", "build", "--target-dir", tgt, "--message-format=json"], cwd=os.path.join(here, "typegen"), capture_output=True, text=True, env=dict(os.environ, CARGO_NET_OFFLINE="true"))
ext = {}
for l in p.stdout.splitlines():
    try:
        m = json.loads(l)
    except Exception:
        continue
    if m.get("reason") == "compiler-artifact" and m["target"]["name"] in ("ohkami", "serde", "serde_json"):
        for f in m["filenames"]:
            if f.endswith(".rlib"):
                ext[m["target"]["name"]] = f
if p.returncode != 0 or len(ext) != 3:
    sys.stderr.write(p.stderr[-3000:])
    sys.exit(2)
ext["deps"] = os.path.join(tgt, "debug", "deps")
json.dump(ext, open(os.path.join(tgt, "externs.json"), "w"))
