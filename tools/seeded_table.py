#!/usr/bin/env python3
"""Renders the seeded-change table of DESIGN.md §9 from seeded/*/meta.json (between the SEEDED-TABLE markers)."""
import json, glob, os, re
V = os.path.dirname(os.path.dirname(os.path.abspath(__file__)))
rows = []
for m in sorted(glob.glob(f"{V}/seeded/*/meta.json"), key=lambda p: (p.split('/')[-2].split('-')[0], int(p.split('/')[-2].split('-')[1]))):
    name = m.split('/')[-2]
    d = json.load(open(m))
    ver = d.get("verified", {})
    checks = d.get("checks", {})
    caught = [f"{c} ({', '.join('`'+k[:60]+'`' for k in r.get('keys', [])[:2]) or 'exit 1'}; {r.get('wall_s','?')} s)" for c, r in checks.items() if r.get("detected")]
    missed = [c for c, r in checks.items() if not r.get("detected")]
    status = "verified" if ver.get("ok") else "NOT verified: " + json.dumps({k: v for k, v in ver.items() if k != 'ok'})[:80]
    note = d.get("note", "")
    rows.append(f"| {name} | {d.get('summary','')[:160].replace('|','/')} | {d.get('needs','')[:140].replace('|','/')} | {status} | {'; '.join(caught) or '—'} | {', '.join(missed) or ''} {note} |")
table = "| seeded change | what was changed | needs, to manifest | seeding checks | caught by (quick tier; first keys; wall) | missed by / note |\n|---|---|---|---|---|---|\n" + "\n".join(rows)
n = len(rows); c = sum(1 for r in rows if "| — |" not in r)
table += f"\n\n{n} seeded changes kept, {c} caught by at least one quick check.\n"
p = f"{V}/DESIGN.md"
s = open(p).read()
s = re.sub(r"<!-- SEEDED-TABLE-BEGIN -->.*<!-- SEEDED-TABLE-END -->", "<!-- SEEDED-TABLE-BEGIN -->\n" + table.replace("\\", "\\\\") + "<!-- SEEDED-TABLE-END -->", s, flags=re.S)
open(p, "w").write(s)
print(f"{n} rows, {c} caught")
