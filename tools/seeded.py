#!/usr/bin/env python3
"""Seeded-change bookkeeping.

  tools/seeded.py collect <ID>            copy /tmp/mut_<ID>/MUTATION*/ to /verif/seeded/<ID>-<k>/
  tools/seeded.py verify <ID>-<k>         in the seeding worktree: patch applies, 43 tests pass with it, demo fails with / passes without
  tools/seeded.py run <ID>-<k> [IDs...]   apply the patch to /repo, run ./check <ID> quick (default: its own property), undo; record the outcome
"""
import json, os, re, shutil, subprocess, sys, time

V = "/verif"
def sh(cmd, cwd=None, env=None, timeout=3600):
    e = dict(os.environ); e.update(env or {})
    p = subprocess.run(cmd, shell=True, cwd=cwd, env=e, capture_output=True, text=True, timeout=timeout)
    return p.returncode, p.stdout + p.stderr

ROUND = int(os.environ.get("SEED_ROUND", "1"))   # round r works in /tmp/mut<r>_<ID> (round 1: /tmp/mut_<ID>); names continue: k + 3*(r-1)
def wt_of(pid, k=None):
    r = ROUND if k is None else (int(k) - 1) // 3 + 1
    return f"/tmp/mut_{pid}" if r == 1 else f"/tmp/mut{r}_{pid}"

def collect(pid):
    src = wt_of(pid)
    n = 0
    for d in sorted(os.listdir(src)):
        m = re.fullmatch(r"MUTATION(\d+)", d)
        if not m: continue
        dst = f"{V}/seeded/{pid}-{int(m.group(1)) + 3 * (ROUND - 1)}"
        if os.path.exists(dst): shutil.rmtree(dst)
        shutil.copytree(os.path.join(src, d), dst, ignore=shutil.ignore_patterns("target", "target-*", "*.lock.bak"))
        n += 1
    print(f"collected {n} from {src}")

def verify(name):
    pid, k = name.split("-")
    wt = wt_of(pid, k); mdir = f"{wt}/MUTATION{(int(k) - 1) % 3 + 1}"
    meta = json.load(open(f"{V}/seeded/{name}/meta.json"))
    res = {}
    rc, out = sh("git status --porcelain --untracked-files=no", cwd=wt)
    if out.strip():
        sh("git checkout -- .", cwd=wt)
    rc, out = sh(f"git apply --check {mdir}/patch.diff", cwd=wt); res["applies"] = rc == 0
    if rc != 0:
        res["error"] = out[-500:]
    else:
        sh(f"git apply {mdir}/patch.diff", cwd=wt)
        try:
            rc, out = sh("cargo test --workspace --lib --no-fail-fast --offline", cwd=wt)
            passed = sum(int(x) for x in re.findall(r"test result: \w+\. (\d+) passed", out))
            failed = sum(int(x) for x in re.findall(r"(\d+) failed;", out))
            if failed == 1 and "test_now" in out:  # racy test of the baseline itself
                rc, out = sh("cargo test --workspace --lib --no-fail-fast --offline", cwd=wt)
                passed = sum(int(x) for x in re.findall(r"test result: \w+\. (\d+) passed", out)); failed = sum(int(x) for x in re.findall(r"(\d+) failed;", out))
            res["tests_with_patch"] = {"passed": passed, "failed": failed}
            rc, out = sh("cargo build -p ohkami --features rt_tokio,sse,openapi --offline", cwd=wt); res["builds_with_features"] = rc == 0
            demo_env = {"CARGO_TARGET_DIR": f"{wt}/target-demo"}
            rc, out = sh(meta.get("demo_cmd", "cd demo && cargo run --offline"), cwd=mdir, env=demo_env, timeout=900); res["demo_with_patch_exit"] = rc
        finally:
            sh(f"git apply -R {mdir}/patch.diff", cwd=wt)
        rc, out = sh(meta.get("demo_cmd", "cd demo && cargo run --offline"), cwd=mdir, env={"CARGO_TARGET_DIR": f"{wt}/target-demo"}, timeout=900); res["demo_clean_exit"] = rc
    res["ok"] = bool(res.get("applies") and res.get("tests_with_patch", {}).get("failed") == 0 and res.get("tests_with_patch", {}).get("passed") == 43 and res.get("builds_with_features") and res.get("demo_with_patch_exit", 0) != 0 and res.get("demo_clean_exit") == 0)
    meta["verified"] = res
    meta["what_i_ran"] = "in the seeding worktree: git apply; cargo test --workspace --lib --no-fail-fast --offline; cargo build -p ohkami --features rt_tokio,sse,openapi --offline; demo (must fail); git apply -R; demo (must pass)"
    json.dump(meta, open(f"{V}/seeded/{name}/meta.json", "w"), indent=1)
    print(name, "OK" if res["ok"] else "NOT-OK", res)

def run(name, ids):
    pid = name.split("-")[0]
    ids = ids or [pid]
    meta = json.load(open(f"{V}/seeded/{name}/meta.json"))
    import fcntl
    lk = open("/tmp/engine.lock", "w"); fcntl.flock(lk, fcntl.LOCK_EX)   # /repo and the engine binary are mine until I exit
    rc, out = sh("git status --porcelain --untracked-files=no", cwd="/repo")
    if out.strip():
        print("refusing: /repo has uncommitted changes"); sys.exit(2)
    rc, out = sh(f"git apply {V}/seeded/{name}/patch.diff", cwd="/repo")
    if rc != 0:
        rc, out = sh(f"git apply -3 {V}/seeded/{name}/patch.diff", cwd="/repo")
        if rc != 0:
            print("patch does not apply to /repo:", out[-400:]); sh("git checkout -- .", cwd="/repo"); sh("git reset -q", cwd="/repo"); sys.exit(2)
    results = meta.setdefault("checks", {})
    try:
        for cid in ids:
            t0 = time.time()
            rc, out = sh(f"./check {cid} quick", cwd=V, timeout=3600)
            os.makedirs("/tmp/seeded_out", exist_ok=True)
            open(f"/tmp/seeded_out/{name}-{cid}.log", "w").write(out[-20000:])
            keys = re.findall(r"^\s+key: (.*)$", out, re.M)
            results[cid] = {"tier": "quick", "exit": rc, "detected": rc == 1, "keys": keys[:8], "wall_s": round(time.time() - t0, 1)}
            print(name, cid, "exit", rc, keys[:4])
    finally:
        sh("git checkout -- .", cwd="/repo"); sh("git reset -q", cwd="/repo")
        shutil.rmtree(f"{V}/replays", ignore_errors=True)
    json.dump(meta, open(f"{V}/seeded/{name}/meta.json", "w"), indent=1)

if __name__ == "__main__":
    cmd = sys.argv[1]
    if cmd == "collect": collect(sys.argv[2])
    elif cmd == "verify": verify(sys.argv[2])
    elif cmd == "run": run(sys.argv[2], sys.argv[3:])
