#!/usr/bin/env python3
"""JSON-Schema sidecar for C15/C16 (python3-vt: tooling venv with jsonschema).

Line protocol on stdin/stdout, one JSON object per line:
  {"op":"meta", "schemas":[...]}                      -> {"errors":[[index, message], ...]}   each schema against the 2020-12 meta-schema
  {"op":"validate", "schema":S, "instances":[...], "components":{...}} -> {"errors":[[index, message], ...]}
     instances validated against S; "$ref": "#/components/schemas/X" resolved against "components"
"""
import sys, json
from jsonschema import Draft202012Validator
from jsonschema.exceptions import SchemaError

def openapi_to_jsonschema(s):
    """OpenAPI 3.0 style `nullable: true` → JSON Schema: allow null (applied recursively)."""
    if isinstance(s, dict):
        out = {k: openapi_to_jsonschema(v) for k, v in s.items() if k != "nullable"}
        if s.get("nullable") is True:
            out = {"anyOf": [out, {"type": "null"}]}
        return out
    if isinstance(s, list):
        return [openapi_to_jsonschema(x) for x in s]
    return s

def main():
    for line in sys.stdin:
        line = line.strip()
        if not line:
            continue
        try:
            req = json.loads(line)
            errors = []
            if req["op"] == "meta":
                for i, s in enumerate(req["schemas"]):
                    try:
                        Draft202012Validator.check_schema(s)
                    except SchemaError as e:
                        errors.append([i, (e.message or str(e))[:300] + " @ " + "/".join(str(p) for p in e.absolute_path)])
            elif req["op"] == "validate":
                root = {"components": {"schemas": openapi_to_jsonschema(req.get("components", {}))}}
                schema = dict(openapi_to_jsonschema(req["schema"]))
                schema["components"] = root["components"]
                try:
                    v = Draft202012Validator(schema)
                    for i, inst in enumerate(req["instances"]):
                        errs = sorted(v.iter_errors(inst), key=lambda e: list(e.absolute_path))
                        if errs:
                            e = errs[0]
                            errors.append([i, (e.message or "")[:300] + " @ " + "/".join(str(p) for p in e.absolute_path)])
                except Exception as e:  # unresolvable $ref etc.
                    errors.append([-1, f"{type(e).__name__}: {str(e)[:300]}"])
            sys.stdout.write(json.dumps({"errors": errors}) + "\n")
        except Exception as e:
            sys.stdout.write(json.dumps({"fatal": f"{type(e).__name__}: {e}"}) + "\n")
        sys.stdout.flush()

if __name__ == "__main__":
    main()
