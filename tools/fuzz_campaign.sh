#!/bin/bash
# tools/fuzz_campaign.sh <ID> <target> <runs>
# One libFuzzer+ASan campaign (cargo-fuzz) on a fresh copy of the committed corpus. The property's oracle runs
# inside the target (engine::fuzzing): a deviation writes a replay file, prints the VIOLATION line and aborts.
# Pinned only approximately by -seed/-runs; the saved input / replay file is the reproducible unit.
# Exit: 0 nothing found; 1 VIOLATION; 2 inconclusive (build problem, crash that is not attributed).
set -u
cd "$(dirname "$(readlink -f "$0")")/.."
export VERIF_DIR="$PWD" CARGO_NET_OFFLINE=true
ID="$1"; T="$2"; RUNS="$3"; SEED="${VERIF_SEED:-1}"
WORK="target/fuzz-work/$T-$$"; LOG="target/fuzz-$T.log"
# (building an Ohkami leaks by design — Box::leak of nodes and procs —, so leak detection is off and the memory limit
# is generous: a campaign of 50 000 router-building executions grows to ≈ 13 GB)
export ASAN_OPTIONS="detect_leaks=0:${ASAN_OPTIONS:-}"
rm -rf "$WORK"; mkdir -p "$WORK"
[ -d "corpus/$T" ] && cp "corpus/$T"/* "$WORK"/ 2>/dev/null
# the pt_* targets take the bytes as the seed of a case: start from a handful of distinct seeds
if [ -z "$(ls -A "$WORK")" ]; then
  for i in $(seq 1 32); do printf 'seed-%s-%s' "$SEED" "$i" > "$WORK/seed-$i"; done
fi
RUSTFLAGS="--cfg ohkami_verif" cargo +nightly fuzz run --fuzz-dir fuzz "$T" "$WORK" -- \
    -runs="$RUNS" -max_total_time="${VERIF_FUZZ_SECONDS:-1200}" -timeout=120 -seed="$SEED" -max_len=4096 -len_control=0 -detect_leaks=0 -rss_limit_mb=30000 -artifact_prefix="$WORK/" >"$LOG" 2>&1
rc=$?
execs=$(grep -oE "Done [0-9]+ runs" "$LOG" | grep -oE "[0-9]+" | tail -1)
# (ended by -runs or by the wall-clock cap, whichever came first: a cap hit only means fewer executions)
if grep -q "^VIOLATION property=" "$LOG"; then
  grep -E "^VIOLATION property=|^  key:" "$LOG" | head -4
  echo "fuzz $T: violation after ${execs:-?} executions (log: $LOG)"
  rm -rf "$WORK"; exit 1
fi
if [ $rc -ne 0 ]; then
  if grep -q "ERROR: AddressSanitizer" "$LOG"; then
    art=$(ls "$WORK"/crash-* 2>/dev/null | head -1)
    mkdir -p "replays/$ID"; keep="replays/$ID/asan-$(basename "${art:-unknown}")"
    [ -n "$art" ] && cp "$art" "$keep"
    echo "VIOLATION property=$ID replay=$VERIF_DIR/$keep"
    echo "  key: asan:$(grep -m1 -oE 'AddressSanitizer: [a-z-]+' "$LOG")"
    rm -rf "$WORK"; exit 1
  fi
  echo "INFRASTRUCTURE: fuzz target $T ended with status $rc without an attributed violation (see $LOG)"
  tail -5 "$LOG"
  rm -rf "$WORK"; exit 2
fi
echo "fuzz $T: ${execs:-?} executions, corpus $(ls "$WORK" | wc -l) files, nothing found"
rm -rf "$WORK"; exit 0
