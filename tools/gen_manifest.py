#!/usr/bin/env python3
"""Regenerates /verif/MANIFEST.json from the table below (python3 tools/gen_manifest.py)."""
import json, os, subprocess

HERE = os.path.dirname(os.path.dirname(os.path.abspath(__file__)))

# id -> (technique, level text, level note, design ref)
CHECKS = {
 "C01": ("proptest-generated application trees and requests; differential against a reference segment matcher over the flattened route table (four readings of the preference rule), plus metamorphic order-independence (same tree built in shuffled registration order)",
         "Exploration: tens of thousands of generated route trees (colliding static names, params, mounts, split method sets) each probed by up to 25 adversarial requests, built twice in different registration orders through the real public API and dispatched through the real parser, router and serializer. Right level: the property quantifies over configurations × inputs with a cheap exact oracle.",
         "the reference matcher and its four readings of 'preferred at each position'; refusals at build time are not applications; only rt_tokio; ≤2 params per route (documented limit)", "DESIGN.md §7 C01"),
 "C02": ("proptest-generated well-formed requests and single-mutation malformed variants, offered as the first read to the real Request::read; differential against an independent strict HTTP/1.1 request parser (second opinion: httparse), plus a totality monitor (no panic, no accessor panic, no read after a complete request)",
         "Exploration of inputs: 150 000 (quick) byte strings per run, half well-formed over the full header/case/body space, half one mutation away. Right level: the parser is a pure function of bytes with a cheap independent oracle; the defects are corner cases of the grammar.",
         "the reference parser's classification into must-accept / must-refuse / either (soft) classes as documented in DESIGN.md §7 C02; heads beyond the 1 KiB buffer may be refused", "DESIGN.md §7 C02"),
 "C03": ("proptest-generated histories of public Response operations (stateful: op vector + interpreter) executed in a real handler; model-based oracle (history → expected header map/body) + independent HTTP response parser + capacity monitor (hook H3, declared-size accessor)",
         "Exploration of operation histories (0–40 operations, 10 % of 250–400) × all statuses × GET/HEAD through the real router and serializer. Right level: the defects of this property live in histories (remove→set, >255 sets) that examples do not reach; a model of the header map is cheap and exact.",
         "values without CR/LF/NUL; framing headers never set by hand; 1xx/304 only self-consistency; frozen clock via hook H4; H3 turns the silent overrun into a panic (with hooks off it is undefined behaviour)", "DESIGN.md §7 C03"),
 "C04": ("proptest-generated application trees with tracing fangs (real tuple Fangs impls: Fang wrappers, FangActions, mixes, early-answering) and requests; oracle = onion trace computed from the configuration tree, compared as an exact event sequence",
         "Exploration of configurations × requests: tens of thousands of nested applications with 0–8 fangs each and local fangs, each probed by up to 20 requests (hits, misses inside/outside mounts, mount paths, all methods, early markers). Right level: order/scope failures depend on tree shapes (compression, method trees) that only generated configurations reach.",
         "mount prefixes exclusive as the quantifier says (by construction); which handler is hit comes from C01's reference matcher; requests touching a node that the router's single-child compression merged across a mount point are attributed to the recorded known finding (classified from the configuration only)", "DESIGN.md §7 C04"),
 "C05": ("proptest-generated request sequences on one connection against an echo application; metamorphic oracle: k-th response = response of the same request alone on a fresh connection (frozen clock), through the re-stated session loop over a scripted reader and, for a share of cases, the real Session::manage over a socketpair",
         "Exploration of histories (1–6 requests, bodies around the buffer size, NUL bytes, context-setting fang, Connection: close). Right level: leakage between requests needs sequences whose earlier elements leave state behind; the metamorphic oracle is exact because the echo handlers reflect everything observable.",
         "heads below 1 KiB; socketpair instead of the kernel's TCP stack; the in-memory loop re-states the six-line session loop (the real one is exercised on a quarter of the cases over a socketpair); refused requests (400/505) and other Connection options occur inside the sequences", "DESIGN.md §7 C05"),
 "C06": ("proptest-generated request sequences × segmentations of their concatenated bytes; metamorphic oracle: response stream = that of the canonical segmentation; scripted AsyncRead and FIONREAD-paced socketpair through the real Session::manage",
         "Exploration of schedules of the byte stream (cut points biased to grammar borders and buffer borders, coalesced request borders). Right level: the variable the property quantifies over is the segmentation, which the harness owns completely.",
         "heads below 1 KiB; deviations are classified by the segmentation alone (by simulating the reads: coalesced = a buffer-filling read reaches beyond its request; head-split; body-or-border); coalesced requests are a recorded known finding that excuses only the responses after the over-reading request", "DESIGN.md §7 C06"),
 "C07": ("proptest-generated requests against a compiled catalogue of 61 typed handler signatures (incl. a derive(FromRequest) extractor and handlers that take fewer params than the route captures); oracle = Rust FromStr over the canonical integer grammar after independent percent-decoding, value equality against reference encoders (serde_json, own urlencoded/multipart encoders), run/not-run accounting",
         "Exploration of inputs × handler signatures: 1.6 M (quick) requests over a segment grammar built around integer boundaries and encodings, and body/Content-Type combinations. Right level: the extractors are pure functions of the request with exact oracles.",
         "`+5` either; media type matching as documented (prefix); C09/C10 check the codecs themselves in depth", "DESIGN.md §7 C07"),
 "C08": ("proptest-generated byte strings (uniform, valid encodings from independent grammar generators, and their mutations with a punctuation/escape dictionary) × 8 decoders × a family of 139 target types incl. hand-written borrowing probes; totality monitor as oracle (Ok or Err; no unwinding panic; aborts/stack overflows seen by the supervisor; every yielded string re-validated as UTF-8; every borrowed slice inside the input)",
         "Exploration of inputs × target types: 1.2 M (quick) executions per run in isolated, recycled worker processes. Right level: 'total on arbitrary bytes' is the classic fuzzing property; the type family makes every serde entry point of each decoder reachable.",
         "memory safety beyond what debug precondition checks and pointer-range probes see is out of reach of this engine (the libFuzzer+ASan targets in /verif/fuzz add that); a self-describing top-level target recursing for ever is a recorded known finding and steered around", "DESIGN.md §7 C08"),
 "C09": ("proptest-generated values of a compiled catalogue of struct types (round-trip oracle) and independently encoded `k=v&…` texts (own encoder choosing escapes, order, unknown pairs; differential oracle), also through the real request query iterator",
         "Exploration of inputs: 1.2 M (quick) values/encodings per run over every supported field type with one failure key per field-type class. Right level: pure functions with exact inverse / independent encoder oracles.",
         "`Some(x)` with x encoding to the empty string is excluded (the format's stated convention: empty = None); [\"\"] vs [] is the same text", "DESIGN.md §7 C09"),
 "C10": ("proptest-generated forms encoded by an independent RFC 7578 encoder (boundary choice, optional part headers, header-name case) into a catalogue of target types (fits and deliberate misfits); field-by-field equality oracle",
         "Exploration of inputs: 300 000 (quick) forms per run with binary contents built around CR/LF/`--`/boundary prefixes. Right level: the decoder is a pure function of the body; the encoder is an exact inverse to test against.",
         "conventions for absent/empty inputs as the crate's own tests fix them; contents never contain the delimiter; names/filenames without quote, backslash, CR, LF", "DESIGN.md §7 C10"),
 "C11": ("proptest-generated cookie jars encoded by an independent RFC 6265 encoder (plain / quoted / percent-encoded) decoded into typed structs and through the request's cookie iterator; proptest-generated Set-Cookie directive combinations built through the public response API and checked by an independent grammar checker + parser + the crate's own parser",
         "Exploration of inputs: 1.2 M (quick) jars / directive combinations per run. Right level: both directions are pure functions with independent codecs as oracles.",
         "Option fields never hold Some(\"\"); directive values follow the RFC grammar", "DESIGN.md §7 C11"),
 "C12": ("proptest-generated secrets × algorithms × payloads (time claims around a frozen clock) × token recipes (issued, reference-issued with header variations, single-character substitutions in each part, re-signed with other key/algorithm, alg:none, part-count and signature-length variations, arbitrary strings); reference HS256/384/512 verifier (RustCrypto hmac/sha2 + own base64url) as oracle, run/not-run accounting",
         "Exploration of inputs × configurations: 600 000 (quick) cases, each sending a control and mutated tokens through the real fang and router; plus a dense sampling of unix_timestamp() against the wall clock with the freeze lifted. Right level: 'exactly the valid tokens' needs near-miss tokens generated from valid ones, which a generator derives mechanically.",
         "typ/cty mismatches, Bearer letter case, non-canonical base64url of header/payload parts signed as written are accept-either (a non-canonical signature part is refused); OPTIONS bypass as documented; RustCrypto primitives are the trusted base", "DESIGN.md §7 C12"),
 "C13": ("proptest-generated credential lists × Authorization values (correct, mixed pairs, extended/shortened/replaced text, other schemes, invalid base64, non-UTF-8 payloads with the invalid byte first/middle/last, missing header); reference Basic verifier with an independent base64 encoder as oracle",
         "Exploration of inputs × configurations: 1 M (quick) cases through the real fang and router. Right level: exact oracle, cheap executions.",
         "usernames without colon (RFC 7617); optional whitespace around the field value is accept-either; the scheme word in another letter case is refused, as the statement spells it", "DESIGN.md §7 C13"),
 "C14": ("proptest-generated CORS policies × application trees × simple/preflight requests; oracle = reference CORS model derived from the statement, fed with the policy and the flattened route table",
         "Exploration of policies × configurations × requests through the real CORS fang, automatic OPTIONS handlers, router and serializer. Right level: the property fails through interactions of registration shape (methods split over items/mounts) with preflights, which need generated configurations.",
         "policy on the root application; HEAD/OPTIONS as requested method accept either outcome; Vary unchecked", "DESIGN.md §7 C14"),
 "C15": ("proptest-generated applications assembled from a compiled handler catalogue (mounts, param prefixes, tags, JWT/BasicAuth fangs at any level); oracle = JSON parse + JSON Schema 2020-12 meta-validation of every embedded schema (Python jsonschema sidecar) + $ref resolution + set equality with the flattened route table + per-operation expectations from the handler signature + one real request per documented operation",
         "Exploration of configurations: 6 000 (quick) generated applications, each document checked completely in both directions (documented ⇔ registered). Right level: the document is a pure function of the configuration; its defects depend on signature/route combinations.",
         "mounts get a first segment of their own; tags and operationId uniqueness unchecked; python3-vt + jsonschema available", "DESIGN.md §7 C15"),
 "C16": ("proptest-generated *programs* (batches of 24 type definitions over the serde/openapi attribute grammar) → written out, compiled with rustc against ohkami/serde built from /repo, run; differential oracle against serde_json's behaviour of the same types (keys written, requiredness probes by deleting keys, instance validation through the Python jsonschema sidecar)",
         "Exploration of programs: 168 (quick) batches ≈ 4 000 generated type definitions per run, each judged on 10 generated values. Right level: the quantifier ranges over type definitions; compile-and-run is the only way to observe a proc-macro, and generation reaches attribute/name combinations no example lists.",
         "the crate's nullability convention `nullable: true` is read as `or null`; definitions the derive refuses at compile time (kebab-case renames, names with dashes, flatten) have no derived schema and are counted, not judged; grammar without serde(with)/generics", "DESIGN.md §7 C16"),
 "C17": ("proptest-generated message sequences × producer schedules (scripted Pending polls on the harness's own executor) through the real handler/stream/serializer; oracle chain: independent response parser → strict chunk decoder (cross-checked with chunked_transfer) → independent WHATWG event-stream parser",
         "Exploration of inputs × schedules: 60 000 (quick) sequences of up to 12 adversarial messages under scripted paces for two producer kinds. Right level: the property is about what a conforming client decodes; an independent decoder chain is the direct oracle, and the schedule is owned by the harness.",
         "a self-waking Pending models any pace of the producer; messages without NUL", "DESIGN.md §7 C17"),
 "C18": ("exhaustive enumeration of handler/accept-loop interleavings under a step controller (real closure on ctrlc's thread after a real raise(SIGINT), real UntilInterrupt::poll; hook H5) + proptest-generated longer schedules + generated child-process scenarios (real howl, blocked in-flight sessions, real SIGINT, generated release orders); oracle = wake-up accounting invariant and causal event order",
         "Exploration; the space of interleavings of the 4 handler steps with three polls of the accept loop (715 schedules) is enumerated completely each run, longer schedules and end-to-end session scenarios are sampled. Right level: the lost wake-up needs one specific interleaving, which only a harness that owns the schedule reaches deterministically.",
         "SeqCst interleavings at hook-point granularity; tokio only; part 2 uses 10–12 s limits only to decide 'never'", "DESIGN.md §7 C18"),
 "C19": ("proptest-generated directory trees on a scratch file system × Dir settings × request paths; model-based oracle (route → bytes/MIME map computed from the tree; collisions must be refused)",
         "Exploration of configurations (trees, mount routes, omit settings) × inputs (paths incl. traversal/encoding/near-miss variants) through the real Dir registration, router and serializer. Right level: 'exactly its files and nothing else' needs both directions checked over many trees.",
         "documented restrictions of Dir (supported extensions, UTF-8 text, valid segment names) are generator invariants; scratch trees live under /verif/target/tmp", "DESIGN.md §7 C19"),
 "C20": ("exhaustive enumeration of days/seconds/small integers + proptest-generated timestamps and 64-bit integers against an independent civil-from-days / std formatting oracle",
         "Exploration; the sub-space 'first second of every day up to 9999-12-31, every second of day on ~35 days, every n < 10^6' is enumerated completely, the remaining inputs are sampled. Right level: the functions are pure, cheap, and have a trivially independent oracle, so near-total input coverage is affordable.",
         "std formatting and the oracle's civil-from-days (cross-checked against chrono and httpdate each run) are trusted", "DESIGN.md §7 C20"),
}

NOT_YET = {}

def main():
    props = [json.loads(l) for l in open(os.path.join(HERE, "properties.jsonl"))]
    try:
        commits = subprocess.check_output(["git", "-C", "/repo", "log", "--format=%H %s", "8ac15b2..HEAD"], text=True).strip().splitlines()
    except Exception:
        commits = []
    hook_commits = [c.split()[0] for c in commits if "verif hook" in c]
    checks, na = [], []
    for p in props:
        pid = p["id"]
        if pid in CHECKS:
            tech, text, note, ref = CHECKS[pid]
            checks.append({
                "property_id": pid,
                "quick_cmd": f"./check {pid} quick",
                "thorough_cmd": f"./check {pid} thorough",
                "evidence_file": f"evidence/{pid}.json",
                "replay_cmd_template": f"./check {pid} --replay {{path}}",
                "engine": "ohv",
                "level_claimed": {"category": "exploration", "text": text, "design_ref": ref},
                "level_note": note,
                "technique": tech,
            })
        else:
            na.append({"property_id": pid, "reason": NOT_YET.get(pid, "check not built yet in this session (the technique applies; see DESIGN.md §7); not claimed until its command exists and is quiet on the unchanged tree")})
    m = {
        "version": 1,
        "setup_cmd": "cd /verif/engine && CARGO_NET_OFFLINE=true cargo build --profile verif -q 2>/dev/null; test -x /verif/target/verif/ohv",
        "hooks": {
            "guard": "--cfg ohkami_verif (rustc cfg, set through /verif/.cargo/config.toml build.rustflags)",
            "enable": "engine and fuzz targets are built from /verif, whose .cargo/config.toml passes --cfg ohkami_verif to every crate including the path dependencies /repo/ohkami and /repo/ohkami_lib",
            "baseline_off_cmd": "cd /repo && cargo test --workspace --lib --no-fail-fast --offline",
            "source_commits": hook_commits,
            "add_only": True,
        },
        "engines": [
            {"name": "ohv", "path": "engine", "serves_properties": sorted(CHECKS), "kind_free_text": "Rust binary: supervisor + recycled worker processes; proptest strategies driven per case from VERIF_SEED; explicit oracles; shrinking by signature; JSON replay files"},
        ],
        "checks": checks,
        "not_applicable": na,
        "notes": "Every check: ./check <ID> <quick|thorough>; VERIF_SEED selects the generated stream (default 1). Exit 2 = infrastructure problem or inconclusive (never a violation). known_findings.json lists genuine defects that are recorded rather than repaired, and the ones repaired by fix: commits.",
    }
    # (all twenty properties are claimed: the list stays, empty)
    json.dump(m, open(os.path.join(HERE, "MANIFEST.json"), "w"), indent=1)
    print(f"MANIFEST.json: {len(checks)} checks, {len(na)} not claimed")

if __name__ == "__main__":
    main()
