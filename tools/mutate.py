#!/usr/bin/env python3
"""Mechanical mutants of the files a property is anchored in (properties.jsonl → anchors.files), run in a lane
(tools/lane.py). A blunt complement to the hand-made seeded changes: it says which *lines* of the anchored code no
check is sensitive to. A surviving mutant is a question (equivalent? outside the property? blind spot?), not a verdict.

Operators (token level, one site per mutant, code lines only — comments, tests, debug/cfg(test) blocks are skipped):
  relational   <  <=  >  >=  ==  !=         → neighbour
  arithmetic   + 1 / - 1 / +/-              → other sign / dropped
  logical      && ↔ ||,  `!x` → `x`
  constants    integer literal n             → n+1 / n-1 / 0
  control      `return X;`/`continue`/`break` in an `if` arm dropped is too invasive; instead `if cond {` → `if false {` / `if true {`
  calls        .saturating_sub/.min/.max/checked_ → swapped partner; `.rev()` dropped; `trim_start`↔`trim_end` etc.
"""
import json, os, random, re, subprocess, sys, time, hashlib

V = "/verif"
PROPS = {json.loads(l)["id"]: json.loads(l) for l in open(f"{V}/properties.jsonl")}

SKIP_FILE = re.compile(r"(_test|/tests?/|/testing/|x_worker|x_lambda|/ws/|tls)")
OPS = [
    (re.compile(r"(?<![<>=!\-+*/&|])<=(?![=>])"), ["<"]),
    (re.compile(r"(?<![<>=!\-+*/&|])>=(?![=>])"), [">"]),
    (re.compile(r"(?<![<>=!\-+*/&|:])\s<\s(?![=<])"), [" <= "]),
    (re.compile(r"(?<![<>=!\-+*/&|\-])\s>\s(?![=>])"), [" >= "]),
    (re.compile(r"(?<![<>=!])==(?!=)"), ["!="]),
    (re.compile(r"!=(?!=)"), ["=="]),
    (re.compile(r"&&"), ["||"]),
    (re.compile(r"\|\|(?!\s*\{)"), ["&&"]),
    (re.compile(r"\s\+\s1\b"), [" - 1", ""]),
    (re.compile(r"\s-\s1\b"), [" + 1", ""]),
    (re.compile(r"\s\+\s2\b"), [" + 1", " + 3"]),
    (re.compile(r"\s-\s2\b"), [" - 1", " - 3"]),
    (re.compile(r"\+= 1\b"), ["+= 2", "+= 0"]),
    (re.compile(r"-= 1\b"), ["-= 2", "-= 0"]),
    (re.compile(r"\[(\w+)\.\.\]"), [r"[\1 + 1..]"]),
    (re.compile(r"\[\.\.(\w+)\]"), [r"[..\1 - 1]"]),
    (re.compile(r"\bif (?!let\b)([^{};]{3,80}) \{"), ["if false {", "if true {"]),
    (re.compile(r"\bwhile (?!let\b)([^{};]{3,80}) \{"), ["while false {"]),
    (re.compile(r"\.rev\(\)"), [""]),
    (re.compile(r"\.saturating_sub\("), [".wrapping_sub("]),
    (re.compile(r"\.min\("), [".max("]),
    (re.compile(r"\.max\("), [".min("]),
    (re.compile(r"\.trim_start"), [".trim_end"]),
    (re.compile(r"\.trim_end"), [".trim_start"]),
    (re.compile(r"\.starts_with\("), [".ends_with("]),
    (re.compile(r"\.ends_with\("), [".starts_with("]),
    (re.compile(r"\.is_some\(\)"), [".is_none()"]),
    (re.compile(r"\.is_none\(\)"), [".is_some()"]),
    (re.compile(r"\.is_empty\(\)"), [".len() == 1"]),
    (re.compile(r"\beq_ignore_ascii_case\b"), ["eq"]),
    (re.compile(r"\bto_ascii_lowercase\b"), ["to_ascii_uppercase"]),
    (re.compile(r"\.first\(\)"), [".last()"]),
    (re.compile(r"\.last\(\)"), [".first()"]),
    (re.compile(r"\.push\(([^;]{1,60})\);"), [";"]),
    (re.compile(r"\.clear\(\);"), [";"]),
    (re.compile(r"\b(\d{1,4})\b(?![\.\w])"), ["__INC__", "__DEC__"]),
    (re.compile(r"\.split_once\("), [".rsplit_once("]),
    (re.compile(r"\.rsplit_once\("), [".split_once("]),
    (re.compile(r"\.strip_prefix\("), [".strip_suffix("]),
    (re.compile(r"\.strip_suffix\("), [".strip_prefix("]),
    (re.compile(r"\.find\("), [".rfind("]),
    (re.compile(r"\.position\("), [".rposition("]),
    (re.compile(r"\.any\("), [".all("]),
    (re.compile(r"\.all\("), [".any("]),
    (re.compile(r"\.take\("), [".skip("]),
    (re.compile(r"\.skip\("), [".take("]),
    (re.compile(r"(?<=[\w\)\]])\s\+\s(?=[\w\(])"), [" - "]),
    (re.compile(r"(?<=[\w\)\]])\s-\s(?=[\w\(])"), [" + "]),
    (re.compile(r"(?<=[\w\)\]])\s\*\s(?=[\w\(])"), [" / "]),
    (re.compile(r"<<"), [">>"]),
    (re.compile(r"(?<=[\w\)\]])\s\|\s(?=[\w\(])"), [" & "]),
    (re.compile(r"(?<=[\w\)\]])\s&\s(?=[\w\(])"), [" | "]),
    (re.compile(r"\btrue\b"), ["false"]),
    (re.compile(r"\bfalse\b"), ["true"]),
    (re.compile(r"b'(.)'"), ["__BYTE__"]),
]

def code_lines(src):
    """indices of lines that are code outside test modules / comments / attributes / debug macros"""
    lines = src.split("\n"); ok = []
    depth_skip = None; depth = 0; pending_skip = False
    for i, l in enumerate(lines):
        s = l.strip()
        opens = l.count("{"); closes = l.count("}")
        if depth_skip is None and (re.match(r"#\[cfg\((test|all\(test|debug_assertions)", s) or re.match(r"#\[cfg\(.*(rt_worker|rt_lambda|rt_glommio|tls).*\)\]", s) and "not(" not in s):
            pending_skip = True
        if pending_skip and depth_skip is None and opens > 0:
            depth_skip = depth; pending_skip = False
        elif pending_skip and s.endswith(";") and not s.startswith("#"):
            pending_skip = False; depth += opens - closes; continue
        in_skip = depth_skip is not None
        depth += opens - closes
        if in_skip:
            if depth <= depth_skip: depth_skip = None
            continue
        if pending_skip: continue
        if not s or s.startswith("//") or s.startswith("#[") or s.startswith("#!["): continue
        if re.search(r"\b(DEBUG!|WARNING!|debug_assert|crate::DEBUG|crate::WARNING|assert!|assert_eq!|panic!|unreachable!|expect\(|#\[cfg\(ohkami_verif\)\])", s): continue
        if s.startswith("use ") or s.startswith("pub use ") or s.startswith("const _") : continue
        ok.append(i)
    return lines, ok

def strip_strings(l):
    # blank out string literals and trailing comments so operators don't fire inside them
    out = []; i = 0; n = len(l); in_s = False
    while i < n:
        c = l[i]
        if not in_s and l.startswith("//", i): out.append(" " * (n - i)); break
        if c == '"' and (i == 0 or l[i-1] != "\\" ) and not (i > 0 and l[i-1] == "'" ):
            in_s = not in_s; out.append(c)
        else:
            out.append(" " if in_s else c)
        i += 1
    return "".join(out)

def sites(path):
    src = open(path).read(); lines, ok = code_lines(src); res = []
    for i in ok:
        masked = strip_strings(lines[i])
        for oi, (rx, reps) in enumerate(OPS):
            for m in rx.finditer(masked):
                for rep in reps:
                    seg = lines[i][m.start():m.end()]
                    if rep == "__INC__": new = str(int(m.group(1)) + 1)
                    elif rep == "__DEC__":
                        if int(m.group(1)) == 0: continue
                        new = str(int(m.group(1)) - 1)
                    elif rep == "__BYTE__":
                        ch = m.group(1); alt = {"/": "?", "?": "/", "&": "=", "=": "&", ":": ";", " ": "_", "%": "+", "+": "%", "\\": "/", ",": ";", ";": ",", "-": "_", ".": ",", "\"": "'"}.get(ch)
                        if not alt: continue
                        new = f"b'{alt}'"
                    else:
                        new = m.expand(rep) if "\\1" in rep else rep
                    if new == seg: continue
                    res.append((i, m.start(), m.end(), new, oi))
    # string literals (masked out above): drop the last character of a short literal
    for i in ok:
        if "#[" in lines[i] or "feature" in lines[i] or "cfg" in lines[i] or "include" in lines[i]: continue
        for m in re.finditer(r'(?<![br\w])b?"((?:[^"\\\n]|\\.){1,24})"', lines[i]):
            inner = m.group(1)
            if inner.endswith("\\") or len(inner) < 1 or "{" in inner: continue
            cut = inner[:-1]
            if cut.endswith("\\"): continue
            new = lines[i][m.start():m.end()].replace(inner, cut, 1)
            res.append((i, m.start(), m.end(), new, 999))
    return lines, res

def files_of(pid, repo):
    fs = []
    for f in PROPS[pid]["anchors"]["files"]:
        p = os.path.join(repo, f)
        if os.path.isfile(p) and f.endswith(".rs") and not SKIP_FILE.search(f): fs.append(f)
    return fs

def campaign(n, pid, count, seed=1):
    sys.path.insert(0, f"{V}/tools"); import lane
    lanedir = lane.L(n); repo = f"{lanedir}/repo"
    rng = random.Random(f"{pid}-{seed}")
    allsites = []
    for f in files_of(pid, repo):
        lines, ss = sites(os.path.join(repo, f))
        # sample lines first (so that operator-rich lines don't dominate), one mutant per line
        byline = {}
        for s in ss: byline.setdefault(s[0], []).append(s)
        for ln, lst in byline.items(): allsites.append((f, rng.choice(lst)))
    rng.shuffle(allsites)
    outp = f"{lanedir}/results/mutants-{pid}-{seed}.jsonl"
    done = 0; related = [q for q in PROPS if q != pid]
    for f, (ln, a, b, new, oi) in allsites:
        if done >= count: break
        path = os.path.join(repo, f)
        src = open(path).read(); lines = src.split("\n"); old = lines[ln]
        lines[ln] = old[:a] + new + old[b:]
        open(path, "w").write("\n".join(lines))
        rec = {"property": pid, "file": f, "line": ln + 1, "old": old.strip()[:200], "new": lines[ln].strip()[:200]}
        try:
            rc, out = lane.build(n)
            if rc != 0:
                rec["outcome"] = "does-not-compile"
            else:
                ids = [pid] + [q for q in related if f in PROPS[q]["anchors"]["files"]][:2]
                res = lane.run_checks(n, ids, env={"VERIF_NO_SHRINK": "1"}, timeout=900)
                rec["checks"] = {k: {"exit": v["exit"], "keys": v["keys"][:3], "wall_s": v["wall_s"]} for k, v in res.items()}
                if any(v["exit"] == 1 for v in res.values()): rec["outcome"] = "caught"
                elif any(v["exit"] not in (0, 1) for v in res.values()): rec["outcome"] = "inconclusive"; rec["tail"] = [v["tail"][-400:] for v in res.values() if v["exit"] not in (0, 1)]
                else:
                    # would the maintainers' 43 tests have caught it?
                    rc, out = lane.sh("cargo test --workspace --lib --no-fail-fast --offline 2>&1 | grep -E '^test result|FAILED|failed' | head -20", cwd=repo, env={"CARGO_TARGET_DIR": f"{lanedir}/target-tests"}, timeout=1200)
                    failed = sum(int(x) for x in re.findall(r"(\d+) failed;", out))
                    rec["outcome"] = "survived" if failed == 0 else "survived-but-baseline-tests-fail"
                done += 1
        finally:
            open(path, "w").write(src)
            import shutil; shutil.rmtree(f"{lanedir}/verif/replays", ignore_errors=True)
        open(outp, "a").write(json.dumps(rec) + "\n")
        print(pid, f"{f}:{ln+1}", rec["outcome"], rec.get("checks", ""), "|", rec["old"][:80], "=>", rec["new"][:80], flush=True)

if __name__ == "__main__":
    # list the sites of a property: tools/mutate.py sites <ID>
    if sys.argv[1] == "sites":
        tot = 0
        for f in files_of(sys.argv[2], "/repo"):
            lines, ss = sites(os.path.join("/repo", f)); print(f, len(ss), "sites on", len({s[0] for s in ss}), "lines"); tot += len({s[0] for s in ss})
        print("lines with a site:", tot)
