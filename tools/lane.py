#!/usr/bin/env python3
"""Lanes: scratch copies of (/repo, /verif) in which the checks are run against *changed* sources, in parallel,
without touching /repo. Used for sensitivity work only (seeded changes, mechanical mutants); registered checks and
committed evidence always come from /verif against /repo itself.

  tools/lane.py init <n>                       /tmp/lane<n>/repo (git worktree of /repo HEAD), /tmp/lane<n>/verif (copy of the
                                               working tree of /verif with /repo paths rewritten), engine built
  tools/lane.py sync <n>                       refresh the lane's copy of /verif (after engine edits) and rebuild
  tools/lane.py seeded <n> <name> [IDs...]     apply seeded/<name>/patch.diff in the lane, run the quick checks, undo;
                                               result -> /tmp/lane<n>/results/seeded-<name>.json
  tools/lane.py merge                          fold /tmp/lane*/results/seeded-*.json into seeded/<name>/meta.json
  tools/lane.py mutants <n> <ID> <count> [seed]  mechanical mutants of the property's anchored files (see mutate.py)
  tools/lane.py drop <n>                       remove the lane (worktree, copy, build output)
"""
import json, os, re, shutil, subprocess, sys, time, glob

V = "/verif"
def sh(cmd, cwd=None, env=None, timeout=3600):
    e = dict(os.environ); e.update(env or {})
    try:
        p = subprocess.run(cmd, shell=True, cwd=cwd, env=e, capture_output=True, text=True, timeout=timeout)
        return p.returncode, p.stdout + p.stderr
    except subprocess.TimeoutExpired as x:
        return 124, f"TIMEOUT after {timeout}s"

def L(n): return f"/tmp/lane{n}"

def copy_verif(n):
    lane = L(n)
    os.makedirs(f"{lane}/verif", exist_ok=True)
    rc, out = sh(f"rsync -a --delete --exclude /target --exclude /.git --exclude /seeded --exclude /replays --exclude /evidence "
                 f"--exclude /fuzz --exclude /corpus {V}/ {lane}/verif/")
    assert rc == 0, out
    os.makedirs(f"{lane}/verif/evidence", exist_ok=True)
    for f in ["engine/Cargo.toml", "typegen/Cargo.toml", "engine/src/core/panic.rs", ".cargo/config.toml", "tools/typegen_base.py"]:
        p = f"{lane}/verif/{f}"
        s = open(p).read()
        s = s.replace('"/repo/', f'"{lane}/repo/')
        if f != "engine/src/core/panic.rs":
            s = s.replace('"/verif/', f'"{lane}/verif/')
        open(p, "w").write(s)

def build(n):
    lane = L(n)
    rc, out = sh("cargo build --profile verif -q", cwd=f"{lane}/verif/engine", timeout=1800)
    return rc, out

def init(n):
    lane = L(n)
    os.makedirs(lane, exist_ok=True)
    if not os.path.exists(f"{lane}/repo"):
        rc, out = sh(f"git -C /repo worktree add --detach {lane}/repo HEAD"); assert rc == 0, out
    copy_verif(n)
    os.makedirs(f"{lane}/results", exist_ok=True)
    rc, out = build(n)
    print("lane", n, "build rc", rc, out[-600:] if rc else "")

def sync(n):
    copy_verif(n); rc, out = build(n); print("lane", n, "sync build rc", rc, out[-600:] if rc else "")

def run_checks(n, ids, env=None, timeout=1500):
    lane = L(n); res = {}
    for cid in ids:
        t0 = time.time()
        e = {"VERIF_DIR": f"{lane}/verif"}; e.update(env or {})
        rc, out = sh(f"./check {cid} quick", cwd=f"{lane}/verif", env=e, timeout=timeout)
        keys = re.findall(r"^\s+key: (.*)$", out, re.M)
        res[cid] = {"tier": "quick", "exit": rc, "detected": rc == 1, "keys": keys[:8], "wall_s": round(time.time() - t0, 1), "tail": out[-1500:] if rc not in (0, 1) else ""}
        if rc == 1: break
    return res

def seeded(n, name, ids):
    lane = L(n); pid = name.split("-")[0]; ids = ids or [pid]
    repo = f"{lane}/repo"
    sh("git checkout -- . && git reset -q", cwd=repo)
    rc, out = sh(f"git apply {V}/seeded/{name}/patch.diff", cwd=repo)
    if rc != 0:
        rc, out = sh(f"git apply -3 {V}/seeded/{name}/patch.diff", cwd=repo)
        if rc != 0:
            print(name, "patch does not apply:", out[-300:]); sh("git checkout -- . && git reset -q", cwd=repo); return
    try:
        res = run_checks(n, ids)
    finally:
        sh("git checkout -- . && git reset -q", cwd=repo)
        shutil.rmtree(f"{lane}/verif/replays", ignore_errors=True)
    json.dump({"name": name, "lane": n, "checks": res}, open(f"{lane}/results/seeded-{name}.json", "w"), indent=1)
    for cid, r in res.items(): print(name, cid, "exit", r["exit"], r["keys"][:3], r["wall_s"], flush=True)

def merge():
    for f in sorted(glob.glob("/tmp/lane*/results/seeded-*.json")):
        r = json.load(open(f)); mp = f"{V}/seeded/{r['name']}/meta.json"
        if not os.path.exists(mp): continue
        meta = json.load(open(mp)); c = meta.setdefault("checks", {})
        for cid, x in r["checks"].items():
            x = dict(x); x.pop("tail", None); x["where"] = "scratch copy of /repo and /verif (tools/lane.py)"
            if cid not in c or x["detected"] or not c[cid].get("detected"): c[cid] = x
        json.dump(meta, open(mp, "w"), indent=1)
    print("merged")

def drop(n):
    lane = L(n)
    sh(f"git -C /repo worktree remove --force {lane}/repo"); shutil.rmtree(lane, ignore_errors=True); sh("git -C /repo worktree prune")

if __name__ == "__main__":
    cmd = sys.argv[1]
    if cmd == "init": init(int(sys.argv[2]))
    elif cmd == "sync": sync(int(sys.argv[2]))
    elif cmd == "seeded": seeded(int(sys.argv[2]), sys.argv[3], sys.argv[4:])
    elif cmd == "merge": merge()
    elif cmd == "drop": drop(int(sys.argv[2]))
    elif cmd == "mutants":
        sys.path.insert(0, f"{V}/tools"); import mutate
        mutate.campaign(int(sys.argv[2]), sys.argv[3], int(sys.argv[4]), int(sys.argv[5]) if len(sys.argv) > 5 else 1)
