//! Glue for coverage-guided fuzzing (libFuzzer via cargo-fuzz): every property can be driven by fuzz bytes,
//! either directly (byte-string cases) or through proptest's pass-through RNG (the bytes *are* the random
//! stream the strategy consumes, so libFuzzer's mutations become structured mutations of the case).

use crate::core::*;
use proptest::strategy::{Strategy, ValueTree};
use proptest::test_runner::{Config, RngAlgorithm, TestRng, TestRunner};

pub struct Fuzzer<P: Property> {
    p: P,
    strategy: proptest::strategy::BoxedStrategy<P::Case>,
    known: Vec<findings::Finding>,
}

impl<P: Property> Fuzzer<P> {
    pub fn new() -> Self {
        panic::install_hook();
        let p = P::new(Tier::Thorough);
        let strategy = p.strategy(Tier::Thorough);
        Fuzzer { p, strategy, known: findings::for_property(P::ID) }
    }

    /// the bytes are the random stream of the property's own strategy
    pub fn run_passthrough(&self, data: &[u8]) {
        if data.len() < 8 {
            return;
        }
        let config = Config { failure_persistence: None, cases: 1, ..Config::default() };
        let mut runner = TestRunner::new_with_rng(config, TestRng::from_seed(RngAlgorithm::PassThrough, data));
        let Ok(tree) = self.strategy.new_tree(&mut runner) else { return };
        let case = tree.current();
        self.judge(&case);
    }

    /// the case is built by the target itself
    pub fn run_case(&self, case: &P::Case) {
        if self.p.in_domain(case) {
            self.judge(case)
        }
    }

    fn judge(&self, case: &P::Case) {
        let obs = run_case(&self.p, case);
        for f in obs.failures {
            if f.key.starts_with("HARNESS-BUG") {
                continue;
            }
            if self.known.iter().any(|k| k.status == "known" && findings::matches(&k.key, &f.key)) {
                continue;
            }
            // write the replay file, announce it, and crash so that libFuzzer saves the input
            let rf = ReplayFile { property: P::ID.into(), key: f.key.clone(), detail: f.detail.clone(), seed: 0, index: -2, case: serde_json::to_value(case).unwrap() };
            let dir = verif_dir().join("replays").join(P::ID);
            let _ = std::fs::create_dir_all(&dir);
            let path = dir.join(format!("fuzz-{:016x}.json", fnv(format!("{}{}", rf.key, rf.case).as_bytes())));
            let _ = std::fs::write(&path, serde_json::to_vec_pretty(&rf).unwrap());
            eprintln!("VIOLATION property={} replay={}", P::ID, path.display());
            eprintln!("  key: {}\n  {}", f.key, f.detail.chars().take(600).collect::<String>());
            std::process::abort();
        }
    }
}

