//! Glue for coverage-guided fuzzing (libFuzzer via cargo-fuzz): every property can be driven by fuzz bytes,
//! either directly (byte-string cases: c02_bytes, c08_bytes) or as the seed of the property's own proptest strategy
//! (the `pt_*` targets; see `run_passthrough` for why the bytes are a seed and not the random stream itself).

use crate::core::*;
use proptest::strategy::{Strategy, ValueTree};
use proptest::test_runner::{Config, RngAlgorithm, TestRng, TestRunner};

pub struct Fuzzer<P: Property> {
    p: P,
    strategy: proptest::strategy::BoxedStrategy<P::Case>,
    known: Vec<findings::Finding>,
}

impl<P: Property> Fuzzer<P> {
    pub fn new() -> Self {
        panic::install_hook();
        let p = P::new(Tier::Thorough);
        let strategy = p.strategy(Tier::Thorough);
        Fuzzer { p, strategy, known: findings::for_property(P::ID) }
    }

    /// the bytes select a case of the property's own strategy
    pub fn run_passthrough(&self, data: &[u8]) {
        if data.len() < 8 {
            return;
        }
        let config = Config { failure_persistence: None, cases: 1, ..Config::default() };
        // The plan was proptest's pass-through RNG (the bytes *are* the random stream). It cannot drive these strategies:
        // every `prop_oneof!` / lazy sub-tree forks the RNG, a fork of a pass-through RNG takes *half of the remaining
        // bytes*, so a few dozen unions exhaust any input; an exhausted stream yields zeros, and rand's unbiased range
        // sampling (Lemire) rejects 0 for every range that is not a power of two — for ever (observed: one execution
        // did not end in 20 minutes). So the bytes select the case as a seed: a ChaCha stream keyed by a hash of the
        // input. libFuzzer's corpus then remembers the inputs whose cases reached new code under ASan; a mutated
        // input is a fresh case, not a neighbouring one.
        let mut seed = [0u8; 32];
        let mut x = fnv(data) | 1;
        for chunk in seed.chunks_mut(8) {
            x ^= x << 13;
            x ^= x >> 7;
            x ^= x << 17;
            chunk.copy_from_slice(&x.to_le_bytes());
        }
        let mut runner = TestRunner::new_with_rng(config, TestRng::from_seed(RngAlgorithm::ChaCha, &seed));
        let Ok(tree) = self.strategy.new_tree(&mut runner) else { return };
        let case = tree.current();
        self.judge(&case);
    }

    /// the case is built by the target itself
    pub fn run_case(&self, case: &P::Case) {
        if self.p.in_domain(case) {
            self.judge(case)
        }
    }

    fn judge(&self, case: &P::Case) {
        let obs = run_case(&self.p, case);
        for f in obs.failures {
            if f.key.starts_with("HARNESS-BUG") {
                continue;
            }
            if self.known.iter().any(|k| k.status == "known" && findings::matches(&k.key, &f.key)) {
                continue;
            }
            // write the replay file, announce it, and crash so that libFuzzer saves the input
            let rf = ReplayFile { property: P::ID.into(), key: f.key.clone(), detail: f.detail.clone(), seed: 0, index: -2, case: serde_json::to_value(case).unwrap() };
            let dir = verif_dir().join("replays").join(P::ID);
            let _ = std::fs::create_dir_all(&dir);
            let path = dir.join(format!("fuzz-{:016x}.json", fnv(format!("{}{}", rf.key, rf.case).as_bytes())));
            let _ = std::fs::write(&path, serde_json::to_vec_pretty(&rf).unwrap());
            eprintln!("VIOLATION property={} replay={}", P::ID, path.display());
            eprintln!("  key: {}\n  {}", f.key, f.detail.chars().take(600).collect::<String>());
            std::process::abort();
        }
    }
}

