//! C20 — date and number formatters used on the wire.

use crate::core::*;
use crate::oracle::date;
use proptest::prelude::*;
use serde::{Deserialize, Serialize};

pub struct C20;

#[derive(Debug, Clone, Serialize, Deserialize)]
pub enum Case {
    Date(u64),
    Itoa(u64),
    Hex(u64),
    /// a call history on one thread: the first timestamp, then signed steps — the result of a call must not depend on
    /// the calls before it (a cached date part, a reused buffer)
    DateSeq(u64, Vec<i64>),
}

pub const END_OF_9999: u64 = 253402300799;

fn check_date(ts: u64, obs: &mut Obs) {
    let got = ohkami_lib::imf_fixdate(ts);
    let want = date::imf_fixdate(ts);
    if got != want {
        obs.fail("date:mismatch", format!("imf_fixdate({ts}) = {got:?}, expected {want:?}"));
    }
}
fn check_itoa(n: u64, obs: &mut Obs) {
    let got = ohkami_lib::num::itoa(n as usize);
    let want = (n as usize).to_string();
    if got != want {
        obs.fail("itoa:mismatch", format!("itoa({n}) = {got:?}, expected {want:?}"));
    }
}
fn check_hex(n: u64, obs: &mut Obs) {
    let got = ohkami_lib::num::hexized(n as usize);
    let want = format!("{:016x}", n as usize);
    if got != want {
        obs.fail("hex:mismatch", format!("hexized({n}) = {got:?}, expected {want:?}"));
    }
    let b = ohkami_lib::num::hexized_bytes(n as usize);
    if &b[..] != want.as_bytes() {
        obs.fail("hex:bytes-mismatch", format!("hexized_bytes({n}) = {:?}, expected {want:?}", String::from_utf8_lossy(&b)));
    }
}

fn interesting_ints() -> Vec<u64> {
    let mut v = vec![0u64, 1, u64::MAX, u64::MAX - 1, u32::MAX as u64, u32::MAX as u64 + 1];
    let mut p: u128 = 1;
    while p <= u64::MAX as u128 {
        for d in [-1i128, 0, 1] {
            let x = p as i128 + d;
            if x >= 0 && x <= u64::MAX as i128 {
                v.push(x as u64)
            }
        }
        p *= 10;
    }
    let mut p: u128 = 1;
    while p <= u64::MAX as u128 {
        for d in [-1i128, 0, 1] {
            let x = p as i128 + d;
            if x >= 0 && x <= u64::MAX as i128 {
                v.push(x as u64)
            }
        }
        p *= 16;
    }
    // every digit count with all-nines / leading digit variants
    for digits in 1..=19u32 {
        for lead in 1..=9u64 {
            let base = 10u64.pow(digits - 1);
            v.push(lead * base);
            v.push(lead * base + (base - 1));
        }
    }
    v.sort();
    v.dedup();
    v
}

impl Property for C20 {
    type Case = Case;
    const ID: &'static str = "C20";
    const RULE: &'static str = "enumerated: first second of every day 0..=2932896, every second of day on 40 days (leap days, century borders), itoa/hexized for all n<10^6 and 10^k±1, 16^k±1, d·10^k, d·10^k+(10^k−1); generated: uniform and digit-length-biased timestamps in [0, 253402300799] and 64-bit integers; call histories on one thread (a timestamp, then 1–11 signed steps of seconds, hours, a day ± 1 s, months, anything: a result must not depend on the calls before it). Oracle: own civil-from-days + (days+4) mod 7, cross-checked against chrono and httpdate; std formatting. Non-trivial = every case (each is a distinct input whose rendering is compared character by character); distinctness by input value.";
    const ASSUMPTIONS: &'static [&'static str] = &[
        "std integer formatting (to_string, {:016x}) is correct",
        "the oracle's civil-from-days is correct (cross-checked with chrono and httpdate on a sample every run)",
    ];

    fn new(_: Tier) -> Self {
        C20
    }
    fn n_cases(&self, tier: Tier) -> u64 {
        tier.pick(1_500_000, 40_000_000)
    }
    fn chunk(&self, tier: Tier) -> u64 {
        tier.pick(50_000, 1_000_000)
    }
    fn strategy(&self, _tier: Tier) -> BoxedStrategy<Case> {
        let biased_u64 = (0u32..=64, any::<u64>()).prop_map(|(bits, x)| if bits == 64 { x } else { x & ((1u64 << bits) - 1) });
        prop_oneof![
            3 => (0..=END_OF_9999).prop_map(Case::Date),
            1 => (0u64..=2932896, 0u64..86400).prop_map(|(d, s)| Case::Date(d * 86400 + s)),
            2 => biased_u64.clone().prop_map(Case::Itoa),
            2 => biased_u64.prop_map(Case::Hex),
            2 => ((0u64..=2932896, prop_oneof![Just(0u64), Just(1), Just(86399), 0u64..86400]), proptest::collection::vec(prop_oneof![
                    3 => prop_oneof![Just(1i64), Just(-1), Just(59), Just(-60), Just(3600), Just(-3600)],
                    4 => prop_oneof![Just(86399i64), Just(-86399), Just(86400), Just(-86400), Just(86401), Just(-86401), Just(43200), Just(-43200)],
                    2 => -200_000i64..200_000,
                    1 => -40_000_000i64..40_000_000,
                    1 => any::<i64>().prop_map(|x| x % (END_OF_9999 as i64)),
                ], 1..12))
                .prop_map(|((d, sec), steps)| Case::DateSeq(d * 86400 + sec, steps)),
        ]
        .boxed()
    }
    fn check(&self, case: &Case, obs: &mut Obs) {
        obs.nontrivial = true;
        match case {
            Case::Date(ts) => {
                obs.label("date");
                check_date(*ts, obs)
            }
            Case::Itoa(n) => {
                obs.label("itoa");
                check_itoa(*n, obs)
            }
            Case::Hex(n) => {
                obs.label("hex");
                check_hex(*n, obs)
            }
            Case::DateSeq(first, steps) => {
                obs.label("date-history");
                let mut ts = (*first).min(END_OF_9999);
                check_date(ts, obs);
                for d in steps {
                    ts = (ts as i128 + *d as i128).clamp(0, END_OF_9999 as i128) as u64;
                    obs.evals += 1;
                    check_date(ts, obs);
                    // and the numbers the same code base renders next to dates on the wire
                    check_itoa(ts, obs);
                }
            }
        }
    }

    fn enumerate(&self, tier: Tier, obs: &mut Obs) -> Option<EnumReport> {
        let mut n = 0u64;
        // the oracle itself against chrono/httpdate on a sample (oracle self-check; a disagreement is a harness problem)
        for k in 0..20000u64 {
            let ts = (k * 12_670_115_039 + k * k * 7) % (END_OF_9999 + 1);
            let mine = date::imf_fixdate(ts);
            let hd = httpdate::fmt_http_date(std::time::UNIX_EPOCH + std::time::Duration::from_secs(ts));
            if mine != hd {
                obs.fail("HARNESS-BUG oracle-date-vs-httpdate", format!("{ts}: {mine} vs {hd}"));
                break;
            }
            let ch = chrono::DateTime::<chrono::Utc>::from_timestamp(ts as i64, 0).map(|d| d.format("%a, %d %b %Y %H:%M:%S GMT").to_string());
            if ch.as_deref() != Some(mine.as_str()) {
                obs.fail("HARNESS-BUG oracle-date-vs-chrono", format!("{ts}: {mine} vs {ch:?}"));
                break;
            }
        }
        // every day
        for day in 0..=2932896u64 {
            check_date(day * 86400, obs);
            n += 1;
        }
        // last second of every day (thorough) — month/year roll-overs seen from the other side
        if tier == Tier::Thorough {
            for day in 0..=2932896u64 {
                check_date(day * 86400 + 86399, obs);
                n += 1;
            }
        }
        // every second of day on 40 days
        let special_days: Vec<u64> = {
            let mut v = vec![0u64, 1, 58, 59, 60, 364, 365, 366, 789, 790, 11016, 11017, 11016 + 366, 19782, 19783, 47540, 47541, 2932896, 2932895, 2932531];
            // Feb 28/29, Mar 1 around 2000, 2100, 2400; Dec 31 / Jan 1
            for y in [2000i64, 2024, 2100, 2400, 9996] {
                let base = days_from_civil(y, 2, 28);
                v.extend([base as u64, base as u64 + 1, base as u64 + 2]);
                v.push(days_from_civil(y, 12, 31) as u64);
            }
            v.sort();
            v.dedup();
            v.truncate(40);
            v
        };
        for d in &special_days {
            for s in 0..86400u64 {
                check_date(d * 86400 + s, obs);
                n += 1;
            }
        }
        let lim = tier.pick(1_000_000u64, 20_000_000);
        for k in 0..lim {
            check_itoa(k, obs);
            n += 1;
        }
        for k in 0..lim {
            check_hex(k, obs);
            n += 1;
        }
        for k in interesting_ints() {
            check_itoa(k, obs);
            check_hex(k, obs);
            n += 2;
        }
        Some(EnumReport {
            evaluations: n,
            distinct_nontrivial: n,
            exhaustive: true,
            note: format!("every day number 0..=2932896 (first second), every second of {} days, itoa and hexized for all n < {lim}: enumerated completely", special_days.len()),
            samples: vec![serde_json::json!({"Date": 951782400u64, "rendered": ohkami_lib::imf_fixdate(951782400)}), serde_json::json!({"Itoa": 999999}), serde_json::json!({"Hex": 1048575})],
        })
    }
}

fn days_from_civil(y: i64, m: i64, d: i64) -> i64 {
    let y = if m <= 2 { y - 1 } else { y };
    let era = if y >= 0 { y } else { y - 399 } / 400;
    let yoe = y - era * 400;
    let doy = (153 * (if m > 2 { m - 3 } else { m + 9 }) + 2) / 5 + d - 1;
    let doe = yoe * 365 + yoe / 4 - yoe / 100 + doy;
    era * 146097 + doe - 719468
}
