//! C01 — routing dispatches each request to the handler of the matching route.

use crate::core::*;
use crate::harness::app::*;
use crate::harness::drive::{self, Observed};
use crate::harness::gen_app::{self, GenCfg, Req};
use crate::oracle::routes::{self, Expect};
use ohkami::__verif__::VerifRouter;
use proptest::collection::vec;
use proptest::prelude::*;
use serde::{Deserialize, Serialize};

pub struct C01;

#[derive(Debug, Clone, Serialize, Deserialize)]
pub struct Case {
    pub app: AppDesc,
    pub order_seed: u64,
    pub requests: Vec<Req>,
    /// one route of the root application is registered a second time for one of its methods, with another handler: a
    /// configuration whose outcome could only depend on the registration order — it has to be refused
    #[serde(default)]
    pub dup: Option<u16>,
}

pub enum Built {
    Ok(VerifRouter),
    Refused(String),
    Panicked(Failure),
}

pub fn build_router(app: &AppDesc, order: Option<u64>) -> Built {
    match panic::catch(std::panic::AssertUnwindSafe(|| VerifRouter::new(build(app, order)))) {
        Ok(r) => Built::Ok(r),
        Err(pi) if is_refusal(&pi.msg) => Built::Refused(pi.msg),
        Err(pi) => Built::Panicked(Failure::new(format!("construction-{}", pi.key()), pi.describe())),
    }
}

fn pct_decode(raw: &[u8]) -> Option<String> {
    String::from_utf8(crate::oracle::http::pct_decode_lenient(raw)).ok()
}

/// does the observation agree with this expectation?
fn agrees(flat: &Flat, e: &Expect, method: M, o: &Observed) -> Result<(), String> {
    agrees_path(flat, e, method, o, true)
}
fn agrees_path(flat: &Flat, e: &Expect, method: M, o: &Observed, path_is_utf8: bool) -> Result<(), String> {
    if !path_is_utf8 {
        // a path that is not UTF-8 after decoding denotes no resource: any error, no handler
        if !o.handlers().is_empty() || o.status() < 400 {
            return Err(format!("the path is not UTF-8 after percent-decoding: expected an error response and no handler; observed {}", o.summary()));
        }
        return Ok(());
    }
    match e {
        Expect::Miss => {
            if !o.handlers().is_empty() {
                return Err(format!("expected no handler, 404; observed {}", o.summary()));
            }
            if o.status() != 404 {
                return Err(format!("expected 404; observed {}", o.summary()));
            }
            Ok(())
        }
        Expect::Hit(i, caps) => {
            let r = &flat.routes[*i];
            let want: Option<Vec<String>> = caps.iter().take(r.handler.arity as usize).map(|c| pct_decode(c)).collect();
            let Some(want) = want else {
                // undecodable parameter: the handler must not run and an error is returned (C07's clause)
                if !o.handlers().is_empty() || o.status() < 400 {
                    return Err(format!("parameter is not UTF-8 after decoding: expected an error without running the handler; observed {}", o.summary()));
                }
                return Ok(());
            };
            let want_ev = Ev::Handler(r.handler.id, want.clone());
            let hs = o.handlers();
            if hs.len() != 1 || *hs[0] != want_ev {
                return Err(format!("expected exactly {:?} on route {}; observed {}", want_ev, lit(&r.segs), o.summary()));
            }
            if o.status() != 200 {
                return Err(format!("expected 200 from {:?}; observed {}", want_ev, o.summary()));
            }
            let body = handler_body(r.handler.id, &want);
            let res = o.res.as_ref().unwrap();
            if method == M::HEAD {
                if !res.body.is_empty() || o.wire.len() != res.consumed {
                    return Err(format!("HEAD must not carry a body; observed {}", o.summary()));
                }
                if res.get("Content-Length").map(|v| v.to_string()) != Some(body.len().to_string()) {
                    return Err(format!("HEAD should keep GET's Content-Length {}; observed {:?}", body.len(), res.get("Content-Length")));
                }
            } else if res.body != body.as_bytes() {
                return Err(format!("expected body {body:?}; observed {}", o.summary()));
            }
            Ok(())
        }
    }
}

fn seg_ok(p: &Seg, s: &[u8]) -> bool {
    match p {
        Seg::S(l) => l.as_bytes() == s,
        Seg::P(_) => !s.is_empty(),
    }
}

/// Shape tags computed from the configuration and the request (never from prose):
/// * `dup-param-at-mount-boundary` — the request passes a mount node under which both the mounted
///   application and somebody outside it continue with a `:param` segment (the tree then holds two
///   param children of which only one is reachable);
/// * `byte-prefix-sibling` — a static pattern segment is a proper byte prefix of the request's segment.
pub fn classify(flat: &Flat, path: &[u8]) -> &'static str {
    let Some(req) = routes::split_path(path) else { return "plain" };
    for a in flat.apps.iter().filter(|a| a.parent.is_some()) {
        let f = &a.prefix;
        if f.len() >= req.len() || !f.iter().zip(&req).all(|(p, s)| seg_ok(p, s)) {
            continue;
        }
        let k = f.len();
        let in_subtree = |apps: &[usize]| apps.contains(&a.index);
        let app_chain = |idx: usize| -> Vec<usize> {
            let mut v = vec![idx];
            let mut cur = idx;
            while let Some(p) = flat.apps[cur].parent {
                v.push(p);
                cur = p;
            }
            v
        };
        let param_at_k = |p: &[Seg]| p.len() > k && unify_prefix(f, p) && p[k].is_param();
        let mut inside = false;
        let mut outside = false;
        for r in &flat.routes {
            if param_at_k(&r.segs) {
                if in_subtree(&r.apps) {
                    inside = true
                } else {
                    outside = true
                }
            }
        }
        for b in &flat.apps {
            if b.index != a.index && param_at_k(&b.prefix) {
                if app_chain(b.index).contains(&a.index) {
                    inside = true
                } else {
                    outside = true
                }
            }
        }
        if inside && outside {
            return "dup-param-at-mount-boundary";
        }
    }
    let pats = flat.routes.iter().map(|r| r.segs.as_slice()).chain(flat.apps.iter().map(|a| a.prefix.as_slice()));
    for p in pats {
        for i in 0..p.len().min(req.len()) {
            if !p[..i].iter().zip(&req[..i]).all(|(p, s)| seg_ok(p, s)) {
                break;
            }
            if let Seg::S(l) = &p[i] {
                if req[i].len() > l.len() && req[i].starts_with(l.as_bytes()) {
                    return "byte-prefix-sibling";
                }
            }
        }
    }
    "plain"
}

fn nontrivial(flat: &Flat, path: &[u8]) -> bool {
    let Some(req) = routes::split_path(path) else { return false };
    let pats: Vec<&[Seg]> = flat.routes.iter().map(|r| r.segs.as_slice()).chain(flat.apps.iter().filter(|a| a.parent.is_some()).map(|a| a.prefix.as_slice())).collect();
    let mut node = pats.clone();
    for (i, s) in req.iter().enumerate() {
        let alts: Vec<&Seg> = {
            let mut v: Vec<&Seg> = Vec::new();
            for p in &node {
                if p.len() > i && !v.iter().any(|x| x.unify_eq(&p[i])) {
                    v.push(&p[i]);
                }
            }
            v
        };
        if alts.len() >= 2 {
            return true;
        }
        node.retain(|p| {
            p.len() > i
                && match &p[i] {
                    Seg::S(l) => l.as_bytes() == *s,
                    Seg::P(_) => !s.is_empty(),
                }
        });
        if node.is_empty() {
            break;
        }
    }
    // crosses a mount boundary
    if flat.apps.iter().any(|a| a.parent.is_some() && a.prefix.len() <= req.len() && a.prefix.iter().zip(&req).all(|(p, s)| match p {
        Seg::S(l) => l.as_bytes() == *s,
        Seg::P(_) => !s.is_empty(),
    })) {
        return true;
    }
    classify(flat, path) != "plain"
}

impl Property for C01 {
    type Case = Case;
    const ID: &'static str = "C01";
    const RULE: &'static str = "generated: application trees (depth ≤ 2 quick / 3 thorough; routes of 0–4 segments over a small colliding alphabet of statics and 3 param names; method subsets; mounts with 0–3-segment prefixes; a route's methods optionally split over two items) built through the public API in the generated order and in a shuffled order, × 25 requests each (instantiated routes with param fills that collide with static siblings, trailing/double slashes, extra/missing segments, near-miss statics, percent-escapes, all 7 methods, free paths). Oracle: reference segment matcher over the flattened route table under four readings (A/B × best/greedy); decided when all agree. Non-trivial request = meets ≥ 2 alternatives at some position, or crosses a mount boundary, or shares a byte prefix with a static sibling; distinct by (route table, method, target).";
    const ASSUMPTIONS: &'static [&'static str] = &[
        "at most two :param segments along every full route (documented limit of the framework)",
        "configurations the framework refuses at build time are not applications (counted as rejected_configs)",
        "requests where the four readings of 'preferred at each position' disagree accept any of the four outcomes (ambiguous_accept_either)",
        "percent-encoded bytes in a segment are compared bytewise with static patterns (either outcome accepted is not needed: the model compares raw bytes too)",
    ];

    fn new(_: Tier) -> Self {
        C01
    }
    fn n_cases(&self, tier: Tier) -> u64 {
        tier.pick(150_000, 2_000_000)
    }
    fn chunk(&self, _tier: Tier) -> u64 {
        250
    }
    fn in_domain(&self, case: &Case) -> bool {
        case.requests.iter().all(|r| r.target.starts_with('/') && r.target.is_ascii() && !r.target.contains(' '))
    }
    fn strategy(&self, tier: Tier) -> BoxedStrategy<Case> {
        let cfg = GenCfg::routing(tier);
        (gen_app::app_strategy(cfg), any::<u64>(), vec(gen_app::recipe(), 1..=25), prop::option::weighted(0.03, any::<u16>()))
            .prop_map(|(app, order_seed, recipes, dup)| {
                let flat = flatten(&app);
                let requests = recipes.iter().map(|r| gen_app::concretize(&flat, r)).collect();
                Case { app, order_seed, requests, dup }
            })
            .boxed()
    }

    fn check(&self, case: &Case, obs: &mut Obs) {
        if let Some(k) = case.dup {
            use crate::harness::app::{HandlerDesc, Item, RouteItem};
            let routes: Vec<&RouteItem> = case.app.items.iter().filter_map(|it| if let Item::Route(r) = it { Some(r) } else { None }).filter(|r| !r.handlers.is_empty()).collect();
            if !routes.is_empty() {
                let r = routes[k as usize % routes.len()];
                let (m, h) = &r.handlers[(k as usize / 7) % r.handlers.len()];
                let twin = Item::Route(RouteItem { segs: r.segs.clone(), handlers: vec![(*m, HandlerDesc { id: 9_999_999, arity: h.arity, locals: vec![], local_pat: 0 })] });
                let mut app = case.app.clone();
                app.items.push(twin);
                obs.evals += 1;
                obs.nontrivial = true;
                for order in [None, Some(case.order_seed)] {
                    match build_router(&app, order) {
                        Built::Refused(_) => {}
                        Built::Ok(_) => {
                            obs.fail("conflicting-registration-accepted", format!("{} {:?} is registered twice with different handlers (registration order {:?}) and the application was built: which handler runs can only depend on the order", m.as_str(), r.segs, order));
                            return;
                        }
                        Built::Panicked(f) => {
                            obs.failures.push(f);
                            return;
                        }
                    }
                }
                obs.label("duplicate-registration-refused");
                obs.rejected_config = true;
                return;
            }
        }
        let flat = flatten(&case.app);
        let a = build_router(&case.app, None);
        let b = build_router(&case.app, Some(case.order_seed));
        let (ra, rb) = match (a, b) {
            (Built::Ok(a), Built::Ok(b)) => (a, b),
            (Built::Panicked(f), _) | (_, Built::Panicked(f)) => {
                obs.failures.push(f);
                return;
            }
            (Built::Refused(m), _) | (_, Built::Refused(m)) if !m.contains("Can't merge Ohkamis") => {
                // the generator keeps (route, method) pairs apart: the only refusals it provokes are of mounts that meet
                // on a node ("Can't merge Ohkamis"). Any other refusal turns away a configuration that is an application
                obs.fail(format!("valid-configuration-refused:{}", crate::core::panic::stem(&m).chars().take(50).collect::<String>()), format!("the application was refused at build time: {m}"));
                return;
            }
            (Built::Refused(m), Built::Refused(_)) => {
                obs.rejected_config = true;
                obs.label("refused");
                obs.label_dyn(&format!("refusal:{}", crate::core::panic::stem(&m).chars().take(60).collect::<String>()));
                return;
            }
            (Built::Refused(m), _) | (_, Built::Refused(m)) => {
                obs.rejected_config = true;
                obs.label("refused-in-one-order-only");
                obs.label_dyn(&format!("refusal-one-order:{}", crate::core::panic::stem(&m).chars().take(60).collect::<String>()));
                return;
            }
        };
        let shape = fnv(format!("{:?}", flat.routes.iter().map(|r| (lit(&r.segs), r.method)).collect::<Vec<_>>()).as_bytes());
        if flat.apps.len() > 1 {
            obs.label("has-mount")
        }
        for rq in &case.requests {
            obs.evals += 1;
            let path = rq.target.split('?').next().unwrap().as_bytes();
            let headers = vec![("Host".to_string(), "t".to_string())];
            let oa = match drive::request(&ra, rq.method.as_str(), &rq.target, &headers, None) {
                Ok(o) => o,
                Err(e) => {
                    obs.fail("malformed-response", format!("{} {}: {e}", rq.method.as_str(), rq.target));
                    continue;
                }
            };
            let ob = match drive::request(&rb, rq.method.as_str(), &rq.target, &headers, None) {
                Ok(o) => o,
                Err(e) => {
                    obs.fail("malformed-response", format!("{} {} (shuffled order): {e}", rq.method.as_str(), rq.target));
                    continue;
                }
            };
            // order independence, unconditionally
            if oa.status() != ob.status() || oa.log != ob.log || oa.res.as_ref().map(|r| &r.body) != ob.res.as_ref().map(|r| &r.body) {
                obs.fail(
                    format!("{}:order-dependence", classify(&flat, path)),
                    format!("{} {}: generated order → {}; shuffled order (seed {}) → {}", rq.method.as_str(), rq.target, oa.summary(), case.order_seed, ob.summary()),
                );
            }
            let m = if rq.method == M::HEAD { M::GET } else { rq.method };
            let readings = routes::expect(&flat, m, path);
            let path_utf8 = true; // routing is bytewise; only captured params are decoded (checked per param in `agrees`)
            if nontrivial(&flat, path) {
                obs.nontrivial_sub(fnv(format!("{shape}:{}:{}", rq.method.as_str(), rq.target).as_bytes()));
            }
            match readings.decided() {
                Some(e) => {
                    obs.label(if matches!(e, Expect::Hit(..)) { "decided-hit" } else { "decided-miss" });
                    if let Err(why) = agrees_path(&flat, e, rq.method, &oa, path_utf8) {
                        let dev = match (e, oa.handlers().is_empty()) {
                            (Expect::Miss, false) => "false-hit",
                            (Expect::Miss, true) => "miss-but-not-404",
                            (Expect::Hit(..), true) => "false-miss",
                            (Expect::Hit(..), false) => "wrong-handler-or-params",
                        };
                        obs.fail(format!("{}:{dev}", classify(&flat, path)), format!("{} {}: {why}", rq.method.as_str(), rq.target));
                    }
                }
                None => {
                    obs.ambiguous += 1;
                    obs.label("undecided");
                    if !readings.all().iter().any(|e| agrees_path(&flat, e, rq.method, &oa, path_utf8).is_ok()) {
                        obs.fail(
                            format!("{}:none-of-four-readings", classify(&flat, path)),
                            format!("{} {}: readings {:?} / {:?} / {:?} / {:?}; observed {}", rq.method.as_str(), rq.target, readings.a_best, readings.a_greedy, readings.b_best, readings.b_greedy, oa.summary()),
                        );
                    }
                }
            }
        }
    }
}
