//! C15 — the generated OpenAPI document is valid and describes exactly the application.

use crate::core::*;
use crate::harness::app::{leak, lit, n_params, unify_eq, Seg, M, REG_METHODS};
use crate::harness::drive;
use crate::harness::sidecar::Sidecar;
use crate::props::c07::{Mp, J, Q, U};
use ohkami::__verif__::{HandlerSet, Routing, VerifRouter};
use ohkami::fang::handler::IntoHandler;
use ohkami::fang::{BasicAuth, JWT};
use ohkami::format::{Multipart, Query, URLEncoded, JSON};
use ohkami::openapi;
use ohkami::prelude::*;
use ohkami::typed::status::{Created, NoContent};
use proptest::collection::vec;
use proptest::prelude::*;
use serde::{Deserialize, Serialize};
use std::cell::RefCell;
use std::collections::{BTreeMap, BTreeSet};

pub struct C15 {
    sidecar: RefCell<Option<Sidecar>>,
}

#[derive(Debug, Clone, Copy, PartialEq)]
enum Inb {
    None,
    Query,
    /// `Query<Q2>`: several required fields, declared in an order that is not the alphabetical one
    Query2,
    /// `Query<Q3>`: field names that also occur as path parameter names (`id`, `p`)
    Query3,
    Json,
    Form,
    Multipart,
}
struct HMeta {
    params: &'static [&'static str],
    inbound: Inb,
    responses: &'static [(u16, Option<&'static str>)],
}
const CATALOGUE: [HMeta; 22] = [
    HMeta { params: &[], inbound: Inb::None, responses: &[(200, Some("text/plain"))] },
    HMeta { params: &[], inbound: Inb::None, responses: &[(200, Some("application/json"))] },
    HMeta { params: &["string"], inbound: Inb::None, responses: &[(200, Some("text/plain"))] },
    HMeta { params: &["integer"], inbound: Inb::None, responses: &[(200, Some("text/plain"))] },
    HMeta { params: &["string", "integer"], inbound: Inb::None, responses: &[(200, Some("text/plain"))] },
    HMeta { params: &[], inbound: Inb::Query, responses: &[(200, Some("text/plain"))] },
    HMeta { params: &[], inbound: Inb::Json, responses: &[(200, Some("application/json"))] },
    HMeta { params: &[], inbound: Inb::Form, responses: &[(201, Some("application/json"))] },
    HMeta { params: &[], inbound: Inb::Multipart, responses: &[(200, Some("text/plain"))] },
    HMeta { params: &["integer"], inbound: Inb::Json, responses: &[(200, Some("application/json"))] },
    HMeta { params: &[], inbound: Inb::None, responses: &[(200, Some("application/json")), (500, Some("text/plain"))] },
    HMeta { params: &["string"], inbound: Inb::Query, responses: &[(200, Some("text/plain"))] },
    HMeta { params: &[], inbound: Inb::None, responses: &[(204, None)] },
    HMeta { params: &["integer", "string"], inbound: Inb::Form, responses: &[(200, Some("text/plain"))] },
    HMeta { params: &[], inbound: Inb::Json, responses: &[(200, Some("application/json"))] },
    HMeta { params: &[], inbound: Inb::None, responses: &[(200, Some("application/json"))] },
    HMeta { params: &[], inbound: Inb::None, responses: &[(200, Some("application/json"))] },
    HMeta { params: &[], inbound: Inb::Query2, responses: &[(200, Some("text/plain"))] },
    // `Option<Query<Q>>`: still parses the query string (the fields of Q decide what is required)
    HMeta { params: &[], inbound: Inb::Query, responses: &[(200, Some("text/plain"))] },
    // `Option<JSON<J>>`
    HMeta { params: &[], inbound: Inb::Json, responses: &[(200, Some("text/plain"))] },
    // a path parameter next to a query struct with fields of the same names
    HMeta { params: &["string"], inbound: Inb::Query3, responses: &[(200, Some("text/plain"))] },
    HMeta { params: &[], inbound: Inb::Query3, responses: &[(200, Some("text/plain"))] },
];

/// a hand-written schema (as a user would write for a type the derive does not cover), using `openapi::bool()`
#[derive(Debug, Clone, Serialize, Deserialize)]
pub struct Flags {
    pub on: bool,
    pub name: String,
    pub level: Option<u8>,
}
impl openapi::Schema for Flags {
    fn schema() -> impl Into<openapi::schema::SchemaRef> {
        openapi::component("Flags", openapi::object().property("on", openapi::bool()).property("name", openapi::string()).optional("level", openapi::integer()))
    }
}
async fn h_flags(JSON(f): JSON<Flags>) -> JSON<Flags> {
    JSON(f)
}

/// components that occur only as (or below) the element type of an array
#[derive(Debug, Clone, Serialize, Deserialize)]
pub struct Tg {
    pub label: String,
}
impl openapi::Schema for Tg {
    fn schema() -> impl Into<openapi::schema::SchemaRef> {
        openapi::component("Tg", openapi::object().property("label", openapi::string()))
    }
}
#[derive(Debug, Clone, Serialize, Deserialize)]
pub struct Line {
    pub qty: u32,
}
impl openapi::Schema for Line {
    fn schema() -> impl Into<openapi::schema::SchemaRef> {
        openapi::component("Line", openapi::object().property("qty", openapi::integer()))
    }
}
#[derive(Debug, Clone, Serialize, Deserialize)]
pub struct Order {
    pub lines: Vec<Line>,
}
impl openapi::Schema for Order {
    fn schema() -> impl Into<openapi::schema::SchemaRef> {
        openapi::component("Order", openapi::object().property("lines", openapi::array(Line::schema())))
    }
}
#[derive(Debug, Clone, Serialize, Deserialize, ohkami::openapi::Schema)]
pub struct Q2 {
    pub zone: String,
    pub name: String,
    pub after: u32,
    pub limit: Option<u32>,
}
async fn h_query2(_q: Query<Q2>) -> &'static str {
    "ok"
}
#[derive(Debug, Clone, Serialize, Deserialize, ohkami::openapi::Schema)]
pub struct Q3 {
    pub id: u32,
    pub p: Option<String>,
}
async fn h_opt_query(_q: Option<Query<Q>>) -> &'static str {
    "ok"
}
async fn h_opt_json(_j: Option<JSON<J>>) -> &'static str {
    "ok"
}
async fn h_p1_query3(_p: String, _q: Query<Q3>) -> &'static str {
    "ok"
}
async fn h_query3(_q: Query<Q3>) -> &'static str {
    "ok"
}
async fn h_vec_component() -> JSON<Vec<Tg>> {
    JSON(vec![Tg { label: "a".into() }])
}
async fn h_nested_vec_component() -> JSON<Order> {
    JSON(Order { lines: vec![Line { qty: 1 }] })
}

fn sample_j() -> J {
    J { s: "s".into(), n: 1, b: 2, o: None, v: vec![] }
}
async fn h_text0() -> &'static str {
    "ok"
}
async fn h_json_out() -> JSON<J> {
    JSON(sample_j())
}
async fn h_p1s(_p: String) -> &'static str {
    "ok"
}
async fn h_p1i(_p: u32) -> &'static str {
    "ok"
}
async fn h_p2(_p: (String, u64)) -> &'static str {
    "ok"
}
async fn h_query(_q: Query<Q>) -> &'static str {
    "ok"
}
async fn h_json_in(JSON(j): JSON<J>) -> JSON<J> {
    JSON(j)
}
async fn h_form_created(_u: URLEncoded<U>) -> Created<JSON<J>> {
    Created(JSON(sample_j()))
}
async fn h_multipart(_m: Multipart<Mp>) -> &'static str {
    "ok"
}
async fn h_p1_json(_id: u32, JSON(j): JSON<J>) -> JSON<J> {
    JSON(j)
}
async fn h_result() -> Result<JSON<J>, ohkami::util::ErrorMessage> {
    Ok(JSON(sample_j()))
}
async fn h_p1_query(_p: String, _q: Query<Q>) -> &'static str {
    "ok"
}
async fn h_nocontent() -> NoContent {
    NoContent
}
async fn h_p2_form(_p: (u32, String), _u: URLEncoded<U>) -> &'static str {
    "ok"
}

#[derive(Debug, Clone, Serialize, Deserialize, PartialEq)]
pub struct OOp {
    pub method: M,
    pub handler: u8,
    /// 0 none, 1 JWT, 2 BasicAuth as a handler-local fang
    pub local_auth: u8,
}
#[derive(Debug, Clone, Serialize, Deserialize, PartialEq)]
pub enum OItem {
    Route { segs: Vec<Seg>, ops: Vec<OOp> },
    Mount { prefix: Vec<Seg>, app: OApp },
}
#[derive(Debug, Clone, Serialize, Deserialize, PartialEq, Default)]
pub struct OApp {
    pub tag: Option<u8>,
    /// 0 none, 1 JWT, 2 BasicAuth as a fang of the application
    pub auth: u8,
    pub items: Vec<OItem>,
}
#[derive(Debug, Clone, Serialize, Deserialize)]
pub struct Case {
    pub app: OApp,
}

#[derive(Serialize, Deserialize, Clone)]
struct Claims {
    sub: String,
}
const TAGS: [&str; 3] = ["users", "admin", "v1"];

fn jwt() -> JWT<Claims> {
    JWT::default("secret")
}
fn basic() -> BasicAuth<&'static str> {
    BasicAuth { username: "u", password: "p" }
}

fn reg<T>(acc: Option<HandlerSet>, path: &'static str, m: M, h: impl IntoHandler<T>) -> HandlerSet {
    match (acc, m) {
        (None, M::GET) => path.GET(h),
        (None, M::PUT) => path.PUT(h),
        (None, M::POST) => path.POST(h),
        (None, M::PATCH) => path.PATCH(h),
        (None, M::DELETE) => path.DELETE(h),
        (Some(s), M::GET) => s.GET(h),
        (Some(s), M::PUT) => s.PUT(h),
        (Some(s), M::POST) => s.POST(h),
        (Some(s), M::PATCH) => s.PATCH(h),
        (Some(s), M::DELETE) => s.DELETE(h),
        _ => panic!("harness: HEAD/OPTIONS cannot be registered"),
    }
}
fn reg_auth<T, H: IntoHandler<T>>(acc: Option<HandlerSet>, path: &'static str, m: M, auth: u8, h: H) -> HandlerSet {
    match auth % 3 {
        0 => reg(acc, path, m, h),
        1 => reg(acc, path, m, (jwt(), h)),
        _ => reg(acc, path, m, (basic(), h)),
    }
}
fn reg_op(acc: Option<HandlerSet>, path: &'static str, op: &OOp) -> HandlerSet {
    let (m, a) = (op.method, op.local_auth);
    match op.handler as usize % CATALOGUE.len() {
        0 => reg_auth(acc, path, m, a, h_text0),
        1 => reg_auth(acc, path, m, a, h_json_out),
        2 => reg_auth(acc, path, m, a, h_p1s),
        3 => reg_auth(acc, path, m, a, h_p1i),
        4 => reg_auth(acc, path, m, a, h_p2),
        5 => reg_auth(acc, path, m, a, h_query),
        6 => reg_auth(acc, path, m, a, h_json_in),
        7 => reg_auth(acc, path, m, a, h_form_created),
        8 => reg_auth(acc, path, m, a, h_multipart),
        9 => reg_auth(acc, path, m, a, h_p1_json),
        10 => reg_auth(acc, path, m, a, h_result),
        11 => reg_auth(acc, path, m, a, h_p1_query),
        12 => reg_auth(acc, path, m, a, h_nocontent),
        13 => reg_auth(acc, path, m, a, h_p2_form),
        14 => reg_auth(acc, path, m, a, h_flags),
        15 => reg_auth(acc, path, m, a, h_vec_component),
        16 => reg_auth(acc, path, m, a, h_nested_vec_component),
        17 => reg_auth(acc, path, m, a, h_query2),
        18 => reg_auth(acc, path, m, a, h_opt_query),
        19 => reg_auth(acc, path, m, a, h_opt_json),
        20 => reg_auth(acc, path, m, a, h_p1_query3),
        _ => reg_auth(acc, path, m, a, h_query3),
    }
}

fn new_app(tag: Option<u8>, auth: u8) -> Ohkami {
    let t = tag.map(|t| openapi::Tag(TAGS[t as usize % 3]));
    match (t, auth % 3) {
        (None, 0) => Ohkami::new(()),
        (None, 1) => Ohkami::with(jwt(), ()),
        (None, _) => Ohkami::with(basic(), ()),
        (Some(t), 0) => Ohkami::with(t, ()),
        (Some(t), 1) => Ohkami::with((t, jwt()), ()),
        (Some(t), _) => Ohkami::with((t, basic()), ()),
    }
}

fn build(app: &OApp) -> Ohkami {
    let mut o = new_app(app.tag, app.auth);
    for it in &app.items {
        match it {
            OItem::Route { segs, ops } => {
                let path = leak(lit(segs));
                let mut acc = None;
                for op in ops {
                    acc = Some(reg_op(acc, path, op));
                }
                if let Some(hs) = acc {
                    Routing::<()>::apply(hs, &mut o);
                }
            }
            OItem::Mount { prefix, app: sub } => {
                let by = leak(lit(prefix)).By(build(sub));
                Routing::<()>::apply(by, &mut o);
            }
        }
    }
    o
}

#[derive(Debug, Clone)]
struct FlatOp {
    segs: Vec<Seg>,
    method: M,
    handler: usize,
    secured: bool,
    /// length of the mount prefix of the application that registers the operation
    own_prefix_len: usize,
}
fn flatten(app: &OApp, prefix: &[Seg], secured: bool, out: &mut Vec<FlatOp>) {
    let secured = secured || app.auth % 3 != 0;
    for it in &app.items {
        match it {
            OItem::Route { segs, ops } => {
                let mut full = prefix.to_vec();
                full.extend(segs.iter().cloned());
                for op in ops {
                    out.push(FlatOp { segs: full.clone(), method: op.method, handler: op.handler as usize % CATALOGUE.len(), secured: secured || op.local_auth % 3 != 0, own_prefix_len: prefix.len() });
                }
            }
            OItem::Mount { prefix: p, app: sub } => {
                let mut full = prefix.to_vec();
                full.extend(p.iter().cloned());
                flatten(sub, &full, secured, out);
            }
        }
    }
}

/// segment and parameter names as the generator writes them (the structural reducer may cut them to "")
fn names_ok(app: &OApp) -> bool {
    let ok = |v: &[Seg]| v.iter().all(|s| matches!(s, Seg::S(n) | Seg::P(n) if !n.is_empty() && n.bytes().all(|b| b.is_ascii_alphanumeric())));
    app.items.iter().all(|it| match it {
        OItem::Route { segs, .. } => ok(segs),
        OItem::Mount { prefix, app } => ok(prefix) && names_ok(app),
    })
}

fn has_root_mount(app: &OApp) -> bool {
    app.items.iter().any(|it| matches!(it, OItem::Mount { prefix, app } if prefix.is_empty() || has_root_mount(app)))
}

/// full prefixes of all mounts, at any depth
fn mount_prefixes(app: &OApp, prefix: &[Seg], out: &mut Vec<Vec<Seg>>) {
    for it in &app.items {
        if let OItem::Mount { prefix: p, app: sub } = it {
            let mut full = prefix.to_vec();
            full.extend(p.iter().cloned());
            out.push(full.clone());
            mount_prefixes(sub, &full, out);
        }
    }
}

fn template(segs: &[Seg]) -> String {
    if segs.is_empty() {
        return "/".into();
    }
    segs.iter()
        .map(|s| match s {
            Seg::S(l) => format!("/{l}"),
            Seg::P(p) => format!("/{{{p}}}"),
        })
        .collect()
}

/// keep the description inside what the framework accepts: unique (route, method) pairs, arity ≤ params,
/// ≤ 2 params per full route, distinct param names within a route (duplicate names are a separate, recorded shape)
fn normalize(app: &mut OApp, prefix: &[Seg], taken: &mut Vec<(Vec<Seg>, M)>, depth: u32) {
    let budget = 2usize.saturating_sub(n_params(prefix));
    let mut kept = Vec::new();
    let mut local: Vec<Vec<Seg>> = Vec::new();
    let mut mounts: Vec<Vec<Seg>> = Vec::new();
    let mut static_mounts: Vec<Seg> = Vec::new();
    let mut root_mounted = false;
    for it in std::mem::take(&mut app.items) {
        match it {
            OItem::Route { mut segs, mut ops } => {
                let mut seen = 0;
                for s in segs.iter_mut() {
                    if let Seg::P(n) = s {
                        seen += 1;
                        if seen > budget {
                            *s = Seg::S(n.clone())
                        }
                    }
                }
                if local.iter().any(|l| unify_eq(l, &segs)) {
                    continue;
                }
                let mut full = prefix.to_vec();
                full.extend(segs.iter().cloned());
                let total = n_params(&full);
                ops.retain(|op| !taken.iter().any(|(p, m)| *m == op.method && unify_eq(p, &full)));
                let mut methods = BTreeSet::new();
                ops.retain(|op| methods.insert(op.method));
                for op in ops.iter_mut() {
                    // pick a handler whose arity fits (monotone search downwards)
                    let mut h = op.handler as usize % CATALOGUE.len();
                    while CATALOGUE[h].params.len() > total {
                        h = (h + CATALOGUE.len() - 1) % CATALOGUE.len();
                    }
                    op.handler = h as u8;
                }
                if ops.is_empty() {
                    continue;
                }
                for op in &ops {
                    taken.push((full.clone(), op.method));
                }
                local.push(segs.clone());
                kept.push(OItem::Route { segs, ops });
            }
            OItem::Mount { prefix: mut p, app: mut sub } => {
                if depth >= 2 {
                    continue;
                }
                if p.is_empty() {
                    // `"/".By(child)`: the child's routes live in the parent's own name space. Kept when the child is
                    // all static (no parameter node can meet one of the parent's: C01's recorded finding) and at most
                    // one such mount per application
                    if has_params(&sub) || root_mounted {
                        continue;
                    }
                    root_mounted = true;
                    normalize(&mut sub, prefix, taken, depth + 1);
                    kept.push(OItem::Mount { prefix: p, app: sub });
                    continue;
                }
                let mut seen = 0;
                for s in p.iter_mut() {
                    if let Seg::P(n) = s {
                        seen += 1;
                        if seen > budget {
                            *s = Seg::S(n.clone())
                        }
                    }
                }
                // a first segment of its own: mounts do not share nodes with local routes (C01's recorded finding is
                // about parameter nodes at a mount boundary) — unless everything involved is static: then one and the
                // same route may get its methods from a direct registration and from a mounted application
                let all_static = |v: &[Seg]| v.iter().all(|s| matches!(s, Seg::S(_)));
                let static_mount = all_static(&p) && !has_params(&sub);
                if mounts.iter().any(|q| q[0].unify_eq(&p[0])) || local.iter().any(|l| l.first().map_or(false, |f| f.unify_eq(&p[0])) && !(static_mount && all_static(l))) {
                    continue;
                }
                if static_mount {
                    static_mounts.push(p[0].clone())
                }
                let mut full = prefix.to_vec();
                full.extend(p.iter().cloned());
                mounts.push(p.clone());
                normalize(&mut sub, &full, taken, depth + 1);
                kept.push(OItem::Mount { prefix: p, app: sub });
            }
        }
    }
    // local routes must not start with a mount's first segment either
    kept.retain(|it| match it {
        OItem::Route { segs, .. } => !mounts.iter().any(|q| segs.first().map_or(false, |f| f.unify_eq(&q[0])) && !(static_mounts.contains(&q[0]) && segs.iter().all(|s| matches!(s, Seg::S(_))))),
        _ => true,
    });
    app.items = kept;
}

fn has_params(app: &OApp) -> bool {
    app.items.iter().any(|it| match it {
        OItem::Route { segs, .. } => segs.iter().any(|s| matches!(s, Seg::P(_))),
        OItem::Mount { prefix, app } => prefix.iter().any(|s| matches!(s, Seg::P(_))) || has_params(app),
    })
}

fn oapp_strategy(depth: u32) -> BoxedStrategy<OApp> {
    let seg = prop_oneof![
        3 => prop_oneof![Just("users"), Just("items"), Just("a"), Just("v1"), Just("me")].prop_map(|s| Seg::S(s.to_string())),
        2 => prop_oneof![Just("id"), Just("name"), Just("p")].prop_map(|s| Seg::P(s.to_string())),
    ];
    let op = (0usize..5, 0u8..22, prop_oneof![4 => Just(0u8), 1 => Just(1u8), 1 => Just(2u8)]).prop_map(|(m, handler, local_auth)| OOp { method: REG_METHODS[m], handler, local_auth });
    let route = (vec(seg.clone(), 0..=3), vec(op, 1..=3)).prop_map(|(segs, ops)| OItem::Route { segs, ops });
    let tag = prop::option::weighted(0.3, 0u8..3);
    let auth = prop_oneof![4 => Just(0u8), 1 => Just(1u8), 1 => Just(2u8)];
    if depth >= 2 {
        (tag, auth, vec(route, 0..=4)).prop_map(|(tag, auth, items)| OApp { tag, auth, items }).boxed()
    } else {
        let mount = (prop_oneof![7 => vec(seg, 1..=2), 1 => Just(vec![])], oapp_strategy(depth + 1)).prop_map(|(prefix, app)| OItem::Mount { prefix, app });
        (tag, auth, vec(route, 0..=4), vec(mount, 0..=2), prop::bool::weighted(0.3))
            .prop_map(|(tag, auth, mut items, mounts, mounts_first)| {
                if mounts_first {
                    items.splice(0..0, mounts);
                } else {
                    items.extend(mounts);
                }
                OApp { tag, auth, items }
            })
            .boxed()
    }
}

fn pointer<'a>(doc: &'a serde_json::Value, r: &str) -> Option<&'a serde_json::Value> {
    doc.pointer(r.strip_prefix('#')?)
}

fn collect_refs(v: &serde_json::Value, out: &mut Vec<String>) {
    match v {
        serde_json::Value::Object(o) => {
            for (k, x) in o {
                if k == "$ref" {
                    if let Some(s) = x.as_str() {
                        out.push(s.to_string())
                    }
                }
                collect_refs(x, out);
            }
        }
        serde_json::Value::Array(a) => a.iter().for_each(|x| collect_refs(x, out)),
        _ => {}
    }
}

impl Property for C15 {
    type Case = Case;
    const ID: &'static str = "C15";
    const RULE: &'static str = "generated: applications assembled (hook H1) from a compiled catalogue of 22 handler signatures (0–2 path params of string/integer type, Query/JSON/URLEncoded/Multipart extractors over derived schemas, Option<Query<_>> and Option<JSON<_>>, a query struct whose field names coincide with path parameter names, text/JSON/typed-status/Result returns, components used only below array items), nested mounts with param prefixes or at the root (`\"/\".By(child)`), openapi::Tag, JWT/BasicAuth fangs on any application or locally, handlers with fewer params than the route captures. Oracle: the bytes of the generated document parse as JSON; every embedded schema validates against the JSON Schema 2020-12 meta-schema (Python jsonschema sidecar); every $ref resolves; path/method pairs = flattened route table with :p → {p}; every {p} is a declared required path parameter and the operation's path parameters are the route's params in order; request body media type, query parameters and response statuses as the signature says; security present iff an auth fang is in the operation's chain, and iff the running application answers 401 to the operation's request sent without credentials; one request per documented operation is not 404. Non-trivial = an application with a mount, a path param and at least one extractor; distinct by case.";
    const ASSUMPTIONS: &'static [&'static str] = &[
        "mounts get a first segment of their own (nodes shared between a mount and outside routes are C01's recorded finding)",
        "operationId uniqueness and tags are not checked (the statement does not list them)",
        "python3-vt with jsonschema is available (otherwise the run is inconclusive, exit 2)",
    ];

    fn new(_: Tier) -> Self {
        C15 { sidecar: RefCell::new(None) }
    }
    fn n_cases(&self, tier: Tier) -> u64 {
        tier.pick(6000, 150_000)
    }
    fn chunk(&self, _tier: Tier) -> u64 {
        250
    }
    fn strategy(&self, _tier: Tier) -> BoxedStrategy<Case> {
        oapp_strategy(0)
            .prop_map(|mut app| {
                normalize(&mut app, &[], &mut Vec::new(), 0);
                Case { app }
            })
            .boxed()
    }
    fn in_domain(&self, case: &Case) -> bool {
        let mut a = case.app.clone();
        normalize(&mut a, &[], &mut Vec::new(), 0);
        a == case.app && names_ok(&case.app)
    }

    fn check(&self, case: &Case, obs: &mut Obs) {
        if !self.in_domain(case) {
            obs.label("out-of-domain");
            return;
        }
        let mut flat = Vec::new();
        flatten(&case.app, &[], false, &mut flat);
        // Operations that share a node or a path prefix with a mount of *another* application (possible for static
        // routes only, see `normalize`): whether the mounted application's fangs guard them is decided by the
        // router's node sharing and compression (C04 records a finding there), not by the configuration tree. For
        // them the model makes no claim; the comparison of the document with the running server below still applies.
        let mut mounts: Vec<Vec<Seg>> = Vec::new();
        mount_prefixes(&case.app, &[], &mut mounts);
        // (an application mounted at "/" shares its parent's whole name space)
        let any_root_mount = has_root_mount(&case.app);
        let shared = |op: &FlatOp| any_root_mount || mounts.iter().any(|q| q.iter().zip(&op.segs).take_while(|(a, b)| a.unify_eq(b)).count() > op.own_prefix_len);
        let has_mount = case.app.items.iter().any(|i| matches!(i, OItem::Mount { .. }));
        obs.nontrivial = has_mount && flat.iter().any(|o| n_params(&o.segs) > 0) && flat.iter().any(|o| CATALOGUE[o.handler].inbound != Inb::None);
        let built = panic::catch(std::panic::AssertUnwindSafe(|| {
            let o = build(&case.app);
            let bytes = o.__openapi_document_bytes__(openapi::OpenAPI { title: "t", version: "0", servers: &[] });
            (bytes, VerifRouter::new(o))
        }));
        let (bytes, router) = match built {
            Ok(x) => x,
            Err(pi) if crate::harness::app::is_refusal(&pi.msg) && !pi.msg.contains("Can't merge Ohkamis") => {
                obs.fail(format!("valid-configuration-refused:{}", crate::core::panic::stem(&pi.msg).chars().take(50).collect::<String>()), format!("the application was refused at build time: {}", pi.msg));
                return;
            }
            Err(pi) if crate::harness::app::is_refusal(&pi.msg) => {
                obs.label_dyn(&format!("refusal:{}", crate::core::panic::stem(&pi.msg).chars().take(60).collect::<String>()));
                obs.rejected_config = true;
                return;
            }
            Err(pi) => {
                obs.fail(format!("generation-{}", pi.key()), pi.describe());
                return;
            }
        };
        let doc: serde_json::Value = match serde_json::from_slice(&bytes) {
            Ok(d) => d,
            Err(e) => {
                obs.fail("document-not-json", e.to_string());
                return;
            }
        };
        // $refs
        let mut refs = Vec::new();
        collect_refs(&doc, &mut refs);
        for r in &refs {
            if pointer(&doc, r).is_none() {
                obs.fail("unresolvable-ref", format!("$ref {r:?} does not resolve inside the document"));
            }
        }
        // schemas → meta-validation
        let mut schemas: Vec<(String, serde_json::Value)> = Vec::new();
        if let Some(cs) = doc.pointer("/components/schemas").and_then(|v| v.as_object()) {
            for (k, v) in cs {
                schemas.push((format!("components.schemas.{k}"), v.clone()));
            }
        }
        // paths
        let empty = serde_json::Map::new();
        let paths = doc.get("paths").and_then(|p| p.as_object()).unwrap_or(&empty);
        let mut documented: BTreeMap<(String, String), &serde_json::Value> = BTreeMap::new();
        for (p, ops) in paths {
            if let Some(o) = ops.as_object() {
                for (m, op) in o {
                    documented.insert((p.clone(), m.to_ascii_uppercase()), op);
                }
            }
        }
        let want: BTreeMap<(String, String), &FlatOp> = flat.iter().map(|o| ((template(&o.segs), o.method.as_str().to_string()), o)).collect();
        for k in want.keys() {
            if !documented.contains_key(k) {
                obs.fail("registered-operation-undocumented", format!("{} {} is registered but not in the document (documented: {:?})", k.1, k.0, documented.keys().collect::<Vec<_>>()));
            }
        }
        for k in documented.keys() {
            if !want.contains_key(k) {
                obs.fail("documented-operation-unregistered", format!("{} {} is documented but not registered", k.1, k.0));
            }
        }
        for (k, op) in &documented {
            let Some(fo) = want.get(k) else { continue };
            let meta = &CATALOGUE[fo.handler];
            let ctx = format!("{} {} (handler #{})", k.1, k.0, fo.handler);
            let params: Vec<&serde_json::Value> = op.get("parameters").and_then(|p| p.as_array()).map(|a| a.iter().collect()).unwrap_or_default();
            for p in &params {
                if let Some(s) = p.get("schema") {
                    schemas.push((format!("{ctx} parameter {}", p["name"]), s.clone()));
                }
            }
            // path parameters
            let route_params: Vec<&str> = fo.segs.iter().filter_map(|s| if let Seg::P(n) = s { Some(n.as_str()) } else { None }).collect();
            let doc_path_params: Vec<(&str, bool, Option<&str>)> = params.iter().filter(|p| p["in"] == "path").map(|p| (p["name"].as_str().unwrap_or(""), p["required"] == true, p.pointer("/schema/type").and_then(|t| t.as_str()))).collect();
            let fewer = meta.params.len() < route_params.len();
            let dup_names = route_params.len() == 2 && route_params[0] == route_params[1];
            let tag = if dup_names {
                "duplicate-param-names"
            } else if fewer {
                "handler-takes-fewer-params-than-route-captures"
            } else {
                "plain"
            };
            for rp in &route_params {
                if !doc_path_params.iter().any(|(n, req, _)| n == rp && *req) {
                    obs.fail(format!("path-param-undeclared:{tag}"), format!("{ctx}: template parameter {{{rp}}} is not declared as a required path parameter (declared: {doc_path_params:?})"));
                }
            }
            let names: Vec<&str> = doc_path_params.iter().map(|p| p.0).collect();
            if !dup_names && names != route_params && !(fewer && names == route_params[..meta.params.len().min(route_params.len())]) {
                obs.fail(format!("path-params-order-or-names:{tag}"), format!("{ctx}: path parameters {names:?}, the route's are {route_params:?}"));
            }
            for (i, (_, _, ty)) in doc_path_params.iter().enumerate() {
                if let (Some(want_ty), Some(got)) = (meta.params.get(i), ty) {
                    if want_ty != got {
                        obs.fail("path-param-type", format!("{ctx}: parameter #{i} documented as {got}, the handler takes {want_ty}"));
                    }
                }
            }
            // query parameters
            let q: Vec<(&str, bool)> = params.iter().filter(|p| p["in"] == "query").map(|p| (p["name"].as_str().unwrap_or(""), p["required"] == true)).collect();
            let want_q: Vec<(&str, bool)> = match meta.inbound {
                Inb::Query => vec![("a", true), ("n", false)],
                Inb::Query2 => vec![("zone", true), ("name", true), ("after", true), ("limit", false)],
                Inb::Query3 => vec![("id", true), ("p", false)],
                _ => vec![],
            };
            // (the order of query parameters carries no meaning)
            let (mut q, mut want_q) = (q, want_q);
            q.sort();
            want_q.sort();
            if q != want_q {
                obs.fail("query-parameters", format!("{ctx}: query parameters {q:?}, expected {want_q:?}"));
            }
            // request body
            let body_types: Vec<String> = op.pointer("/requestBody/content").and_then(|c| c.as_object()).map(|o| o.keys().cloned().collect()).unwrap_or_default();
            if let Some(c) = op.pointer("/requestBody/content").and_then(|c| c.as_object()) {
                for (mt, v) in c {
                    if let Some(s) = v.get("schema") {
                        schemas.push((format!("{ctx} requestBody {mt}"), s.clone()));
                    }
                }
            }
            let want_body: Vec<String> = match meta.inbound {
                Inb::Json => vec!["application/json".into()],
                Inb::Form => vec!["application/x-www-form-urlencoded".into()],
                Inb::Multipart => vec!["multipart/form-data".into()],
                _ => vec![],
            };
            if body_types != want_body {
                obs.fail("request-body", format!("{ctx}: requestBody content types {body_types:?}, expected {want_body:?}"));
            }
            // responses
            let resp = op.get("responses").and_then(|r| r.as_object()).cloned().unwrap_or_default();
            let got_status: BTreeSet<String> = resp.keys().cloned().collect();
            let want_status: BTreeSet<String> = meta.responses.iter().map(|r| r.0.to_string()).collect();
            if got_status != want_status {
                obs.fail("response-statuses", format!("{ctx}: responses {got_status:?}, the return type says {want_status:?}"));
            }
            for (st, r) in &resp {
                let mts: Vec<String> = r.get("content").and_then(|c| c.as_object()).map(|o| o.keys().cloned().collect()).unwrap_or_default();
                if let Some(c) = r.get("content").and_then(|c| c.as_object()) {
                    for (mt, v) in c {
                        if let Some(s) = v.get("schema") {
                            schemas.push((format!("{ctx} response {st} {mt}"), s.clone()));
                        }
                    }
                }
                if let Some((_, want_mt)) = meta.responses.iter().find(|x| x.0.to_string() == *st) {
                    let w: Vec<String> = want_mt.iter().map(|s| s.to_string()).collect();
                    // `text/plain; charset=UTF-8` may be written with or without its parameter
                    let norm: Vec<String> = mts.iter().map(|m| m.split(';').next().unwrap().trim().to_string()).collect();
                    if norm != w {
                        obs.fail("response-media-type", format!("{ctx}: response {st} content {mts:?}, expected {w:?}"));
                    }
                }
            }
            // security
            let has_sec = op.get("security").and_then(|s| s.as_array()).map_or(false, |a| !a.is_empty());
            let in_shared_territory = shared(fo);
            if in_shared_territory {
                obs.ambiguous += 1;
                obs.label("operation-shares-nodes-with-a-foreign-mount");
            }
            if !in_shared_territory && has_sec != fo.secured {
                obs.fail(if fo.secured { "security-missing" } else { "security-unexpected" }, format!("{ctx}: security requirement {}present, an authentication fang {} the operation", if has_sec { "" } else { "not " }, if fo.secured { "guards" } else { "does not guard" }));
            }
            if has_sec {
                for req in op["security"].as_array().unwrap() {
                    for name in req.as_object().map(|o| o.keys().cloned().collect::<Vec<_>>()).unwrap_or_default() {
                        if doc.pointer(&format!("/components/securitySchemes/{name}")).is_none() {
                            obs.fail("security-scheme-undeclared", format!("{ctx}: security scheme {name:?} is not declared under components.securitySchemes"));
                        }
                    }
                }
            }
            // a request built from the operation reaches a handler (is not 404)
            let target: String = {
                let t: String = fo
                    .segs
                    .iter()
                    .map(|s| match s {
                        Seg::S(l) => format!("/{l}"),
                        Seg::P(_) => "/1".to_string(),
                    })
                    .collect();
                if t.is_empty() {
                    "/".into()
                } else {
                    t
                }
            };
            match drive::request(&router, &k.1, &target, &[("Host".into(), "t".into())], None) {
                Ok(o) => {
                    if o.status() == 404 {
                        obs.fail("documented-operation-not-reachable", format!("{ctx}: {} {target} is 404", k.1));
                    }
                    // the document against the running application: the request carries no credentials, and only the
                    // authentication fangs answer 401 (no catalogue handler does)
                    let enforced = o.status() == 401;
                    if enforced != has_sec {
                        obs.fail(
                            if has_sec { "security-documented-but-not-enforced" } else { "security-enforced-but-not-documented" },
                            format!("{ctx}: {} {target} without credentials is answered {}, the document {} a security requirement", k.1, o.status(), if has_sec { "states" } else { "does not state" }),
                        );
                    }
                }
                Err(e) => obs.fail("malformed-response", format!("{ctx}: {e}")),
            }
            obs.evals += 1;
        }
        // meta-validation through the sidecar
        if !schemas.is_empty() {
            let mut sc = self.sidecar.borrow_mut();
            if sc.is_none() {
                match Sidecar::spawn() {
                    Ok(s) => *sc = Some(s),
                    Err(e) => {
                        obs.fail("HARNESS-BUG sidecar", e);
                        return;
                    }
                }
            }
            let list: Vec<&serde_json::Value> = schemas.iter().map(|s| &s.1).collect();
            match sc.as_mut().unwrap().call(&serde_json::json!({"op": "meta", "schemas": list})) {
                Ok(errs) => {
                    for (i, msg) in errs {
                        let (whereabouts, schema) = &schemas[i.max(0) as usize];
                        let key = if msg.contains("'bool'") { "schema-invalid:type-bool".to_string() } else { format!("schema-invalid:{}", crate::core::panic::stem(&msg.split('@').next().unwrap_or("").replace(|c: char| c == '\'' || c == '"', ""))) };
                        obs.fail(key, format!("{whereabouts}: {msg}; schema {schema}"));
                    }
                }
                Err(e) => obs.fail("HARNESS-BUG sidecar", e),
            }
        }
    }
}
