//! C19 — a mounted directory serves exactly its files, byte-identical, and nothing else.

use crate::core::*;
use crate::harness::app::leak;
use crate::harness::drive;
use ohkami::__verif__::{Dir, Routing, VerifRouter};
use ohkami::prelude::*;
use proptest::collection::vec;
use proptest::prelude::*;
use serde::{Deserialize, Serialize};
use std::collections::BTreeMap;

pub struct C19;

/// extension → MIME, written down from the IANA registry / the statement ("Content-Type of its extension")
pub const EXTS: [(&str, &str); 16] = [
    ("txt", "text/plain"),
    ("html", "text/html"),
    ("css", "text/css"),
    ("js", "text/javascript"),
    ("xml", "text/xml"),
    ("csv", "text/csv"),
    ("tsv", "text/tab-separated-values"),
    ("vcard", "text/vcard"),
    ("jpeg", "image/jpeg"),
    ("gif", "image/gif"),
    ("png", "image/png"),
    ("svg", "image/svg+xml"),
    ("woff", "font/woff"),
    ("woff2", "font/woff2"),
    ("json", "application/json"),
    ("pdf", "application/pdf"),
];
const OMITTABLE: [&str; 3] = ["html", "txt", "json"];
const DOTTED: [&str; 3] = [".html", ".txt", ".json"];
const NAMES: [&str; 17] = ["a", "ab", "index", "data", "x.y", "a-b", "a_b", "0", "A", "users", "page.html", "a.txt", "index.html", "x.json", "reindex", "x_index", "a-index"];
const DIRS: [&str; 5] = ["d", "sub", "assets", "a", "x-1"];

#[derive(Debug, Clone, Serialize, Deserialize, PartialEq)]
pub enum Content {
    Empty,
    Text(String),
    Binary(Vec<u8>),
}
#[derive(Debug, Clone, Serialize, Deserialize, PartialEq)]
pub struct FileDesc {
    pub dirs: Vec<String>,
    pub stem: String,
    pub ext: u8,
    pub content: Content,
}
#[derive(Debug, Clone, Serialize, Deserialize)]
pub struct Case {
    pub mount: Vec<String>,
    pub omit: Vec<u8>,
    pub files: Vec<FileDesc>,
    /// a file next to (not under) the served directory
    pub outside: bool,
    /// the extensions are passed in the dotted spelling (`".html"`), documented as equivalent
    #[serde(default)]
    pub dotted: bool,
    /// the directory is named through a symbolic link whose target lies at another depth
    #[serde(default)]
    pub via_symlink: bool,
    /// after the application was built, file `i % n` is overwritten in place (what is served are the files as they were at start-up)
    #[serde(default)]
    pub rewrite_after_build: Option<u16>,
    /// the sink accepts at most this many bytes per `write` call
    #[serde(default)]
    pub short_write: Option<u16>,
    /// the tree also holds a symbolic link whose target does not exist (`zz-stale.<ext>`, in the directory of file
    /// `i % (n+1)`, the last index meaning the top): not a file, so nothing is served for it and the rest is unaffected
    #[serde(default)]
    pub dangling: Option<u8>,
    pub requests: Vec<(String, String)>,
}

/// where the dangling link of the case lies (directory below the served one, name)
fn dangling_place(case: &Case) -> Option<(Vec<String>, String)> {
    let k = case.dangling?;
    let n = case.files.len();
    let dirs = if (k as usize) % (n + 1) == n { vec![] } else { case.files[(k as usize) % (n + 1)].dirs.clone() };
    Some((dirs, format!("zz-stale.{}", EXTS[(k as usize / 16) % EXTS.len()].0)))
}

impl FileDesc {
    fn ext(&self) -> &'static str {
        EXTS[self.ext as usize % EXTS.len()].0
    }
    fn mime(&self) -> &'static str {
        EXTS[self.ext as usize % EXTS.len()].1
    }
    fn filename(&self) -> String {
        format!("{}.{}", self.stem, self.ext())
    }
    fn bytes(&self) -> Vec<u8> {
        match &self.content {
            Content::Empty => vec![],
            Content::Text(s) => s.as_bytes().to_vec(),
            Content::Binary(b) => {
                if self.mime().starts_with("text/") {
                    // text files must be UTF-8 (documented); keep the domain by hex-rendering
                    b.iter().map(|x| format!("{x:02x}")).collect::<String>().into_bytes()
                } else {
                    b.clone()
                }
            }
        }
    }
}

fn mount_lit(m: &[String]) -> String {
    if m.is_empty() {
        "/".into()
    } else {
        m.iter().map(|s| format!("/{s}")).collect()
    }
}

/// The model: route → (bytes, MIME); `Err` when two files map to one route (the framework must refuse).
fn model(case: &Case) -> Result<BTreeMap<String, (Vec<u8>, &'static str)>, String> {
    let omit: Vec<&str> = case.omit.iter().map(|i| OMITTABLE[*i as usize % 3]).collect();
    let base: String = case.mount.iter().map(|s| format!("/{s}")).collect();
    let mut map: BTreeMap<String, (Vec<u8>, &'static str)> = BTreeMap::new();
    let mut put = |route: String, f: &FileDesc| -> Result<(), String> {
        let route = if route.is_empty() { "/".to_string() } else { route };
        if map.insert(route.clone(), (f.bytes(), f.mime())).is_some() {
            return Err(route);
        }
        Ok(())
    };
    for f in &case.files {
        let dir: String = f.dirs.iter().map(|d| format!("/{d}")).collect();
        let name = f.filename();
        if name == "index.html" {
            if !omit.contains(&"html") {
                put(format!("{base}{dir}/index.html"), f)?;
            }
            put(format!("{base}{dir}"), f)?;
        } else if omit.contains(&f.ext()) {
            put(format!("{base}{dir}/{}", f.stem), f)?;
        } else {
            put(format!("{base}{dir}/{name}"), f)?;
        }
    }
    Ok(map)
}

fn valid_name(s: &str) -> bool {
    let ok_edge = |c: char| c.is_ascii_alphanumeric();
    let ok = |c: char| c.is_ascii_alphanumeric() || c == '.' || c == '-' || c == '_';
    !s.is_empty() && s.chars().all(ok) && ok_edge(s.chars().next().unwrap()) && ok_edge(s.chars().last().unwrap())
}

fn in_domain_case(case: &Case) -> bool {
    // distinct file paths; a name is not both a directory and a file; names valid as route segments
    let mut seen = std::collections::BTreeSet::new();
    for f in &case.files {
        if !valid_name(&f.stem) || f.dirs.iter().any(|d| !valid_name(d) || d.contains('.')) || f.dirs.len() > 3 {
            return false;
        }
        let mut p = f.dirs.clone();
        p.push(f.filename());
        if !seen.insert(p.join("/")) {
            return false;
        }
    }
    for f in &case.files {
        let mut p = f.dirs.clone();
        p.push(f.filename());
        let me = p.join("/");
        if case.files.iter().any(|g| g.dirs.join("/").starts_with(&format!("{me}/")) || g.dirs.join("/") == me) {
            return false;
        }
    }
    case.mount.iter().all(|m| valid_name(m)) && case.mount.len() <= 2 && case.omit.len() <= 3 && case.requests.iter().all(|(m, t)| t.starts_with('/') && t.is_ascii() && !t.contains(' ') && !m.is_empty())
}

fn make_dir(route: &'static str, path: &'static str, omit: &[&'static str]) -> Dir {
    let d = route.Dir(path);
    match omit.len() {
        0 => d,
        1 => d.omit_extensions([omit[0]]),
        2 => d.omit_extensions([omit[0], omit[1]]),
        _ => d.omit_extensions([omit[0], omit[1], omit[2]]),
    }
}

#[derive(Debug, Clone)]
struct ReqRecipe {
    kind: u8,
    pick: usize,
    variant: u8,
    method: u8,
}

fn concretize(case: &Case, r: &ReqRecipe) -> (String, String) {
    let base: String = case.mount.iter().map(|s| format!("/{s}")).collect();
    let method = match r.method {
        0..=5 => "GET",
        6 => "HEAD",
        7 => "POST",
        _ => "DELETE",
    };
    if case.files.is_empty() {
        return (method.into(), format!("{base}/nothing.txt"));
    }
    let f = &case.files[(r.pick * case.files.len()) >> 16];
    let dir: String = f.dirs.iter().map(|d| format!("/{d}")).collect();
    let full = format!("{base}{dir}/{}", f.filename());
    let t = match r.kind % 12 {
        0 | 1 => full,
        2 => format!("{base}{dir}/{}", f.stem),
        3 => {
            let d = format!("{base}{dir}");
            if d.is_empty() {
                "/".into()
            } else {
                d
            }
        }
        4 => format!("{base}{dir}/"),
        5 => match r.variant % 4 {
            0 => format!("{full}//"),
            1 => format!("{base}{dir}//"),
            _ => format!("{full}/"),
        },
        6 => match r.variant % 4 {
            0 => format!("{base}{dir}/../{}", f.filename()),
            1 => format!("{base}{dir}/%2e%2e/{}", f.filename()),
            2 => format!("{base}/../outside.txt"),
            _ => format!("{base}{dir}/..%2Foutside.txt"),
        },
        7 => match r.variant % 3 {
            0 => format!("{base}{dir}//{}", f.filename()),
            1 => format!("{base}{dir}%2F{}", f.filename()),
            _ => format!("/{}", full),
        },
        8 => match r.variant % 4 {
            0 => format!("{full}2"),
            1 => format!("{base}{dir}/{}x.{}", f.stem, f.ext()),
            2 => format!("{base}{dir}/{}", &f.filename()[..f.filename().len() - 1]),
            _ => format!("{base}{dir}/{}.{}", f.stem, EXTS[(f.ext as usize + 1) % EXTS.len()].0),
        },
        9 => format!("{base}/outside.txt"),
        10 => {
            // an unreserved character spelt as an escape
            let name = f.filename();
            let c = name.as_bytes()[0];
            format!("{base}{dir}/%{:02x}{}", c, &name[1..])
        }
        _ => format!("{full}?v=1"),
    };
    (method.into(), t)
}

static CASE_NO: std::sync::atomic::AtomicU64 = std::sync::atomic::AtomicU64::new(0);

impl Property for C19 {
    type Case = Case;
    const ID: &'static str = "C19";
    const RULE: &'static str = "generated: directory trees on a scratch file system (depth ≤ 3, ≤ 12 files, names over the route alphabet, all 16 supported extensions, empty/text/binary contents, index.html at any level), mount route of depth 0–2, the directory named directly or through a symbolic link of another depth, one file overwritten after the application was built (20 %), a sink that takes 1–700 bytes per write (20 %), omit_extensions ⊆ {html, txt, json} in the plain or the dotted spelling, file names that themselves end in an extension (`page.html.html`, `index.html.txt`) or end in `index` (`reindex.html`), × up to 30 requests (each file, each directory with and without trailing slash, two trailing slashes, the omitted extension put back or left out, .. / %2e%2e / %2F / // variants, near-miss names, a file outside the directory, other methods). Oracle: model map route → (bytes, MIME) computed from the tree; trees in which two files map to one route must be refused at start-up. Non-trivial tree = has a sub-directory and an index.html or an omitted extension; distinct by (tree, settings, request).";
    const ASSUMPTIONS: &'static [&'static str] = &[
        "entries are regular files with a supported extension, text files are UTF-8, names are valid route segments, directory names carry no dot (documented restrictions of Dir)",
        "with html omitted, `<dir>/index` may or may not answer (the statement names only the directory path)",
        "an unreserved character of an existing path spelt as a percent-escape may be 200 or 404 (RFC 3986 equivalence vs bytewise routing)",
    ];

    fn new(_: Tier) -> Self {
        C19
    }
    fn n_cases(&self, tier: Tier) -> u64 {
        tier.pick(15_000, 300_000)
    }
    fn chunk(&self, _tier: Tier) -> u64 {
        150
    }
    fn in_domain(&self, case: &Case) -> bool {
        in_domain_case(case)
    }
    fn strategy(&self, _tier: Tier) -> BoxedStrategy<Case> {
        let name = prop_oneof![6 => (0usize..NAMES.len()).prop_map(|i| NAMES[i].to_string()), 1 => "[a-z][a-z0-9]{0,4}"];
        let dirs = vec((0usize..DIRS.len()).prop_map(|i| DIRS[i].to_string()), 0..=3);
        let content = prop_oneof![
            1 => Just(Content::Empty),
            3 => "\\PC{0,200}".prop_map(Content::Text),
            1 => "(.|\\n){0,2000}".prop_map(Content::Text),
            2 => vec(any::<u8>(), 0..600).prop_map(Content::Binary),
        ];
        let ext = prop_oneof![3 => Just(1u8), 2 => Just(0u8), 2 => Just(14u8), 4 => 0u8..16];
        let file = (dirs, name, ext, content).prop_map(|(dirs, stem, ext, content)| FileDesc { dirs, stem, ext, content });
        let mount = vec(prop_oneof![Just("static".to_string()), Just("a".to_string()), Just("pub".to_string())], 0..=2);
        let omit = prop_oneof![3 => Just(vec![]), 2 => Just(vec![0u8]), 1 => Just(vec![0u8, 1]), 1 => Just(vec![2u8, 0, 1]), 1 => Just(vec![1u8])];
        let recipe = (0u8..12, any::<prop::sample::Index>(), 0u8..8, 0u8..9).prop_map(|(kind, pick, variant, method)| ReqRecipe { kind, pick: pick.index(1 << 16), variant, method });
        let extras = (prop::bool::weighted(0.15), prop::option::weighted(0.2, any::<u16>()), prop::option::weighted(0.2, prop_oneof![1u16..=32, 33u16..=700]), prop::option::weighted(0.12, any::<u8>()));
        (mount, omit, vec(file, 0..=12), any::<bool>(), vec(recipe, 1..=30), prop::bool::weighted(0.3), extras)
            .prop_map(|(mount, omit, files, outside, recipes, dotted, (via_symlink, rewrite_after_build, short_write, dangling))| {
                // keep the case inside the domain by construction: drop files that clash as paths
                let mut kept: Vec<FileDesc> = Vec::new();
                for f in files {
                    let mut c = Case { mount: mount.clone(), omit: omit.clone(), files: kept.clone(), outside, dotted, via_symlink, rewrite_after_build, short_write, dangling, requests: vec![] };
                    c.files.push(f.clone());
                    if in_domain_case(&c) {
                        kept.push(f);
                    }
                }
                let mut case = Case { mount, omit, files: kept, outside, dotted, via_symlink, rewrite_after_build, short_write, dangling, requests: vec![] };
                case.requests = recipes.iter().map(|r| concretize(&case, r)).collect();
                if let Some((dirs, name)) = dangling_place(&case) {
                    let mut segs: Vec<String> = case.mount.clone();
                    segs.extend(dirs);
                    segs.push(name);
                    case.requests.push(("GET".to_string(), format!("/{}", segs.join("/"))));
                }
                case
            })
            .boxed()
    }

    fn check(&self, case: &Case, obs: &mut Obs) {
        if !in_domain_case(case) {
            obs.label("out-of-domain");
            return;
        }
        let no = CASE_NO.fetch_add(1, std::sync::atomic::Ordering::SeqCst);
        let root = verif_dir().join("target").join("tmp").join("c19").join(format!("p{}", std::process::id())).join(format!("c{no}"));
        let served = if case.via_symlink { root.join("real").join("deep").join("served") } else { root.join("served") };
        let _ = std::fs::remove_dir_all(&root);
        std::fs::create_dir_all(&served).expect("scratch dir");
        if case.via_symlink {
            obs.label("via-symlink");
            std::os::unix::fs::symlink(std::path::Path::new("real").join("deep").join("served"), root.join("public")).expect("symlink");
        }
        for f in &case.files {
            let mut d = served.clone();
            for x in &f.dirs {
                d.push(x);
            }
            std::fs::create_dir_all(&d).expect("mkdir");
            std::fs::write(d.join(f.filename()), f.bytes()).expect("write file");
        }
        if case.outside {
            std::fs::write(root.join("outside.txt"), b"secret").expect("write outside");
        }
        if let Some((dirs, name)) = dangling_place(case) {
            obs.label("dangling-symlink-in-tree");
            let mut d = served.clone();
            for x in &dirs {
                d.push(x);
            }
            std::fs::create_dir_all(&d).expect("mkdir");
            std::os::unix::fs::symlink("no-such-target", d.join(name)).expect("dangling symlink");
        }
        let omit: Vec<&'static str> = case.omit.iter().map(|i| OMITTABLE[*i as usize % 3]).collect();
        let route = leak(mount_lit(&case.mount));
        let path = leak(if case.via_symlink { root.join("public") } else { served.clone() }.to_string_lossy().to_string());
        let expected = model(case);
        let built = panic::catch(std::panic::AssertUnwindSafe(|| {
            let mut o = Ohkami::new(());
            let spelt: Vec<&'static str> = case.omit.iter().map(|i| if case.dotted { DOTTED[*i as usize % 3] } else { OMITTABLE[*i as usize % 3] }).collect();
            Routing::<()>::apply(make_dir(route, path, &spelt), &mut o);
            VerifRouter::new(o)
        }));
        let cleanup = || {
            let _ = std::fs::remove_dir_all(&root);
        };
        let has_sub = case.files.iter().any(|f| !f.dirs.is_empty());
        let has_index = case.files.iter().any(|f| f.filename() == "index.html");
        let tree_nontrivial = has_sub && (has_index || !case.omit.is_empty());
        let router = match (built, &expected) {
            (Ok(r), Ok(_)) => r,
            (Ok(_), Err(route)) => {
                obs.fail("collision-not-refused", format!("two files map to route {route:?} but the directory was accepted"));
                cleanup();
                return;
            }
            (Err(pi), Err(_)) if crate::harness::app::is_refusal(&pi.msg) => {
                obs.label("collision-refused");
                obs.rejected_config = true;
                cleanup();
                return;
            }
            (Err(pi), _) => {
                obs.fail(format!("construction-{}", pi.key()), format!("tree {:?}: {}", case.files.iter().map(|f| format!("{}/{}", f.dirs.join("/"), f.filename())).collect::<Vec<_>>(), pi.describe()));
                cleanup();
                return;
            }
        };
        let map = expected.unwrap();
        // the files change after start-up: what was there at start-up is what is served
        if let (Some(i), false) = (case.rewrite_after_build, case.files.is_empty()) {
            obs.label("file-rewritten-after-start-up");
            let f = &case.files[i as usize % case.files.len()];
            let mut d = served.clone();
            for x in &f.dirs {
                d.push(x);
            }
            let _ = std::fs::write(d.join(f.filename()), b"rewritten after the application was built; not what was there at start-up");
        }
        if case.short_write.is_some() {
            obs.label("short-writes")
        }
        let limit_before = drive::set_write_limit(case.short_write.map(|n| n as usize));
        let shape = fnv(format!("{:?}{:?}{:?}", case.mount, case.omit, case.files.iter().map(|f| (f.dirs.clone(), f.filename())).collect::<Vec<_>>()).as_bytes());
        let html_omitted = omit.contains(&"html");
        for (method, target) in &case.requests {
            obs.evals += 1;
            let o = match drive::request(&router, method, target, &[("Host".into(), "t".into())], None) {
                Ok(o) => o,
                Err(e) => {
                    obs.fail("malformed-response", format!("{method} {target}: {e}"));
                    continue;
                }
            };
            if tree_nontrivial {
                obs.nontrivial_sub(fnv(format!("{shape}:{method}:{target}").as_bytes()));
            }
            let path = target.split('?').next().unwrap();
            let norm = if path.len() > 1 && path.ends_with('/') { &path[..path.len() - 1] } else { path };
            // one trailing slash is the framework's documented normalisation; what is left must not end in another one
            // (`//` is not `/`: a doubled separator)
            let doubled = path.len() > 1 && norm.ends_with('/');
            let want = if (method == "GET" || method == "HEAD") && !doubled { map.get(norm) } else { None };
            // don't-care regions
            if want.is_none() {
                if html_omitted && norm.ends_with("/index") && map.contains_key(norm.trim_end_matches("/index")).max(norm == "/index" && map.contains_key("/")) {
                    obs.ambiguous += 1;
                    continue;
                }
                if path.contains('%') {
                    // escape of an unreserved character: either; escapes of separators and dots must be 404
                    let lower = path.to_ascii_lowercase();
                    if !lower.contains("%2f") && !lower.contains("%2e") && !lower.contains("%5c") {
                        obs.ambiguous += 1;
                        if o.status() != 404 && o.status() != 200 {
                            obs.fail("escaped-unreserved:unexpected-status", format!("{method} {target}: status {}", o.status()));
                        }
                        continue;
                    }
                }
            }
            let Some(res) = &o.res else {
                obs.fail("no-response", format!("{method} {target}"));
                continue;
            };
            match want {
                None => {
                    if res.status != 404 {
                        obs.fail("served-something-else", format!("{method} {target}: expected 404, got {} with {} bytes (Content-Type {:?})", res.status, res.body.len(), res.get("Content-Type")));
                    }
                }
                Some((bytes, mime)) => {
                    if res.status != 200 {
                        obs.fail("file-not-served", format!("{method} {target}: expected 200 with {} bytes, got {}", bytes.len(), res.status));
                        continue;
                    }
                    if method == "GET" && &res.body != bytes {
                        obs.fail("bytes-differ", format!("{method} {target}: {} bytes served, {} on disk", res.body.len(), bytes.len()));
                    }
                    if res.get("Content-Type") != Some(*mime) {
                        obs.fail("content-type", format!("{method} {target}: Content-Type {:?}, expected {mime:?}", res.get("Content-Type")));
                    }
                    if res.get("Content-Length").map(|s| s.to_string()) != Some(bytes.len().to_string()) {
                        obs.fail("content-length", format!("{method} {target}: Content-Length {:?}, expected {}", res.get("Content-Length"), bytes.len()));
                    }
                }
            }
        }
        drive::set_write_limit(limit_before);
        cleanup();
    }
}
