//! C03 — responses on the wire are well-formed and never overrun their buffer.

use crate::core::*;
use crate::harness::drive;
use ohkami::__verif__::{Routing, VerifRouter};
use ohkami::header::append;
use ohkami::prelude::*;
use proptest::collection::vec;
use proptest::prelude::*;
use serde::{Deserialize, Serialize};
use std::borrow::Cow;
use std::cell::RefCell;
use std::collections::BTreeMap;

pub struct C03 {
    router: VerifRouter,
}

/// canonical names, written down independently of the crate's table (RFC 9110 / fetch spelling)
/// (the last five are typed only in histories that have no by-name operation: `N_TYPED_ALWAYS` names are free for every history)
pub const N_TYPED_ALWAYS: usize = 38;
pub const STD: [&str; 43] = [
    "Cache-Control",
    "Content-Encoding",
    "Content-Language",
    "ETag",
    "Location",
    "Server",
    "Vary",
    "Via",
    "X-Frame-Options",
    "Link",
    "Access-Control-Allow-Origin",
    "WWW-Authenticate",
    "Content-Type",
    // (appended later: every other standard response header that is neither framing nor set by the server itself nor
    // reserved for the by-name entry point below — a misspelt name in the crate's table shows only on the header it is in)
    "Accept-Ranges",
    "Access-Control-Allow-Credentials",
    "Access-Control-Allow-Headers",
    "Access-Control-Allow-Methods",
    "Access-Control-Expose-Headers",
    "Access-Control-Max-Age",
    "Alt-Svc",
    "Cache-Status",
    "CDN-Cache-Control",
    "Content-Disposition",
    "Content-Location",
    "Content-Range",
    "Content-Security-Policy",
    "Content-Security-Policy-Report-Only",
    "Cross-Origin-Embedder-Policy",
    "Cross-Origin-Resource-Policy",
    "Proxy-Authenticate",
    "Referrer-Policy",
    "Refresh",
    "Retry-After",
    "Sec-WebSocket-Accept",
    "Sec-WebSocket-Protocol",
    "Sec-WebSocket-Version",
    "Strict-Transport-Security",
    "X-Content-Type-Options",
    "Age",
    "Expires",
    "Allow",
    "Trailer",
    "Upgrade",
];
/// names used through the by-name entry point `.x()`: custom ones, and standard ones that no typed operation of this
/// check touches (so that the two entry points never meet on one header)
pub const CUSTOM: [&str; 7] = ["X-A", "X-Request-Id", "x-lower", "Strict-Custom", "Age", "Expires", "Allow"];
pub const COOKIE_NAMES: [&str; 3] = ["sid", "theme", "a"];
pub const CTS: [&str; 3] = ["application/octet-stream", "image/png", "text/csv"];

#[derive(Debug, Clone, Serialize, Deserialize, PartialEq)]
pub enum Op {
    Set(u8, String),
    Append(u8, String),
    Remove(u8),
    SetX(u8, String),
    AppendX(u8, String),
    RemoveX(u8),
    Cookie(u8, String, u8),
    Text(String),
    Html(String),
    Json(String),
    Payload(u8, Vec<u8>),
    DropContent,
    /// `set_stream` of these messages (single-line texts: the framing of messages is C17's subject)
    Stream(Vec<String>),
    /// `set_json_lit` of the JSON text of this string (the literal entry point beside `set_json`)
    JsonLit(String),
    /// `res.status = …` (a public field): the status the response is sent with is the last one assigned
    Status(u8),
}

#[derive(Debug, Clone, Serialize, Deserialize)]
pub struct Case {
    pub status: u16,
    pub head: bool,
    pub ops: Vec<Op>,
    /// the sink accepts at most this many bytes per `write` call (None: everything at once)
    #[serde(default)]
    pub short_write: Option<u16>,
    /// at the start of this `write` call of the response's send, another (small) response is sent completely on the
    /// same thread — what happens when two connections share a runtime thread and the first send is suspended
    #[serde(default)]
    pub interleave: Option<u8>,
}

/// the status the response goes out with
fn final_status(case: &Case) -> u16 {
    case.ops.iter().rev().find_map(|op| if let Op::Status(i) = op { Some(STATUSES[*i as usize % STATUSES.len()]) } else { None }).unwrap_or(case.status)
}

pub const STATUSES: [u16; 64] = [
    100, 101, 102, 103, 200, 201, 202, 203, 204, 205, 206, 207, 208, 226, 300, 301, 302, 303, 304, 307, 308, 400, 401, 403, 404, 405, 406, 407, 408, 409, 410, 411, 412, 413, 414, 415, 416, 417, 418, 421, 422, 423, 424, 426, 428, 429, 431,
    451, 500, 501, 502, 503, 504, 505, 506, 507, 508, 510, 511, 200, 200, 200, 404, 204,
];

thread_local! {
    static CURRENT: RefCell<Option<Case>> = const { RefCell::new(None) };
}

fn set_std(res: &mut Response, h: u8, action: Action) {
    macro_rules! go {
        ($name:ident) => {{
            match action {
                Action::Set(v) => {
                    res.headers.set().$name(v);
                }
                Action::Append(v) => {
                    res.headers.set().$name(append(v));
                }
                Action::Remove => {
                    res.headers.set().$name(None::<Cow<'static, str>>);
                }
            }
        }};
    }
    match h as usize % STD.len() {
        0 => go!(CacheControl),
        1 => go!(ContentEncoding),
        2 => go!(ContentLanguage),
        3 => go!(ETag),
        4 => go!(Location),
        5 => go!(Server),
        6 => go!(Vary),
        7 => go!(Via),
        8 => go!(XFrameOptions),
        9 => go!(Link),
        10 => go!(AccessControlAllowOrigin),
        11 => go!(WWWAuthenticate),
        12 => go!(ContentType),
        13 => go!(AcceptRanges),
        14 => go!(AccessControlAllowCredentials),
        15 => go!(AccessControlAllowHeaders),
        16 => go!(AccessControlAllowMethods),
        17 => go!(AccessControlExposeHeaders),
        18 => go!(AccessControlMaxAge),
        19 => go!(AltSvc),
        20 => go!(CacheStatus),
        21 => go!(CDNCacheControl),
        22 => go!(ContentDisposition),
        23 => go!(ContentLocation),
        24 => go!(ContentRange),
        25 => go!(ContentSecurityPolicy),
        26 => go!(ContentSecurityPolicyReportOnly),
        27 => go!(CrossOriginEmbedderPolicy),
        28 => go!(CrossOriginResourcePolicy),
        29 => go!(ProxyAuthenticate),
        30 => go!(ReferrerPolicy),
        31 => go!(Refresh),
        32 => go!(RetryAfter),
        33 => go!(SecWebSocketAccept),
        34 => go!(SecWebSocketProtocol),
        35 => go!(SecWebSocketVersion),
        36 => go!(StrictTransportSecurity),
        37 => go!(XContentTypeOptions),
        38 => go!(Age),
        39 => go!(Expires),
        40 => go!(Allow),
        41 => go!(Trailer),
        42 => go!(Upgrade),
        _ => unreachable!(),
    }
}
enum Action {
    Set(String),
    Append(String),
    Remove,
}

struct VecStream(std::vec::IntoIter<String>);
impl ohkami::util::Stream for VecStream {
    type Item = String;
    fn poll_next(mut self: std::pin::Pin<&mut Self>, _: &mut std::task::Context<'_>) -> std::task::Poll<Option<String>> {
        std::task::Poll::Ready(self.0.next())
    }
}

fn apply(res: &mut Response, op: &Op) {
    match op {
        Op::Set(h, v) => set_std(res, *h, Action::Set(v.clone())),
        Op::Append(h, v) => set_std(res, *h, Action::Append(v.clone())),
        Op::Remove(h) => set_std(res, *h, Action::Remove),
        Op::Status(i) => res.status = Status::from(STATUSES[*i as usize % STATUSES.len()]),
        Op::SetX(n, v) => {
            res.headers.set().x(CUSTOM[*n as usize % CUSTOM.len()], v.clone());
        }
        Op::AppendX(n, v) => {
            res.headers.set().x(CUSTOM[*n as usize % CUSTOM.len()], append(v.clone()));
        }
        Op::RemoveX(n) => {
            res.headers.set().x(CUSTOM[*n as usize % CUSTOM.len()], None::<Cow<'static, str>>);
        }
        Op::Cookie(n, v, d) => {
            let d = *d;
            res.headers.set().SetCookie(COOKIE_NAMES[*n as usize % 3], v.clone(), move |mut c| {
                if d & 1 != 0 {
                    c = c.MaxAge(3600)
                }
                if d & 2 != 0 {
                    c = c.Path("/")
                }
                if d & 4 != 0 {
                    c = c.Secure()
                }
                if d & 8 != 0 {
                    c = c.HttpOnly()
                }
                if d & 16 != 0 {
                    c = c.SameSiteLax()
                }
                c
            });
        }
        Op::Text(s) => res.set_text(s.clone()),
        Op::Html(s) => res.set_html(s.clone()),
        Op::Json(s) => res.set_json(serde_json::Value::String(s.clone())),
        Op::JsonLit(s) => unsafe { res.set_json_lit(serde_json::to_string(&serde_json::Value::String(s.clone())).unwrap()) },
        Op::Payload(ct, b) => res.set_payload(CTS[*ct as usize % 3], b.clone()),
        Op::DropContent => {
            let _ = res.drop_content();
        }
        Op::Stream(msgs) => {
            res.set_stream(VecStream(msgs.clone().into_iter()));
        }
    }
}

async fn handler() -> Response {
    let case = CURRENT.with(|c| c.borrow().clone()).expect("harness: no current case");
    let mut res = Response::new(Status::from(case.status));
    for op in &case.ops {
        apply(&mut res, op);
    }
    res
}

// ---------------------------------------------------------------- model

#[derive(Debug, Default)]
struct Model {
    headers: BTreeMap<String, String>,
    cookies: Vec<(String, String)>,
    payload: Option<Vec<u8>>,
    /// the content is a stream of these messages
    stream: Option<Vec<String>>,
    last_content_op_is_drop: bool,
}
fn trim_ows(s: &str) -> String {
    s.trim_matches(|c| c == ' ' || c == '\t').to_string()
}
fn model_of(case: &Case) -> Model {
    let mut m = Model::default();
    m.headers.insert("Date".into(), crate::oracle::date::imf_fixdate(drive::FROZEN_NOW));
    m.headers.insert("Content-Length".into(), "0".into());
    let set = |m: &mut Model, k: &str, v: &str| {
        m.headers.insert(k.to_string(), v.to_string());
    };
    let app = |m: &mut Model, k: &str, v: &str| match m.headers.get_mut(k) {
        Some(old) => {
            old.push_str(", ");
            old.push_str(v)
        }
        None => {
            m.headers.insert(k.to_string(), v.to_string());
        }
    };
    for op in &case.ops {
        match op {
            Op::Set(h, v) => set(&mut m, STD[*h as usize % STD.len()], v),
            Op::Append(h, v) => app(&mut m, STD[*h as usize % STD.len()], v),
            Op::Remove(h) => {
                m.headers.remove(STD[*h as usize % STD.len()]);
            }
            Op::Status(_) => {}
            Op::SetX(n, v) => set(&mut m, CUSTOM[*n as usize % CUSTOM.len()], v),
            Op::AppendX(n, v) => app(&mut m, CUSTOM[*n as usize % CUSTOM.len()], v),
            Op::RemoveX(n) => {
                m.headers.remove(CUSTOM[*n as usize % CUSTOM.len()]);
            }
            Op::Cookie(n, v, _) => m.cookies.push((COOKIE_NAMES[*n as usize % 3].to_string(), v.clone())),
            Op::Text(s) => {
                m.stream = None;
                m.headers.remove("Transfer-Encoding");
                set(&mut m, "Content-Type", "text/plain; charset=UTF-8");
                set(&mut m, "Content-Length", &s.len().to_string());
                m.payload = Some(s.as_bytes().to_vec());
                m.last_content_op_is_drop = false;
            }
            Op::Html(s) => {
                m.stream = None;
                m.headers.remove("Transfer-Encoding");
                set(&mut m, "Content-Type", "text/html; charset=UTF-8");
                set(&mut m, "Content-Length", &s.len().to_string());
                m.payload = Some(s.as_bytes().to_vec());
                m.last_content_op_is_drop = false;
            }
            Op::Json(s) | Op::JsonLit(s) => {
                m.stream = None;
                m.headers.remove("Transfer-Encoding");
                let body = serde_json::to_vec(&serde_json::Value::String(s.clone())).unwrap();
                set(&mut m, "Content-Type", "application/json");
                set(&mut m, "Content-Length", &body.len().to_string());
                m.payload = Some(body);
                m.last_content_op_is_drop = false;
            }
            Op::Payload(ct, b) => {
                m.stream = None;
                m.headers.remove("Transfer-Encoding");
                set(&mut m, "Content-Type", CTS[*ct as usize % 3]);
                set(&mut m, "Content-Length", &b.len().to_string());
                m.payload = Some(b.clone());
                m.last_content_op_is_drop = false;
            }
            Op::Stream(msgs) => {
                // content operations own Content-Type, Content-Length and Transfer-Encoding; this one also sets Cache-Control
                m.headers.remove("Content-Length");
                set(&mut m, "Content-Type", "text/event-stream");
                set(&mut m, "Cache-Control", "no-cache, must-revalidate");
                set(&mut m, "Transfer-Encoding", "chunked");
                m.payload = None;
                m.stream = Some(msgs.clone());
                m.last_content_op_is_drop = false;
            }
            Op::DropContent => {
                m.stream = None;
                m.headers.remove("Transfer-Encoding");
                m.headers.remove("Content-Type");
                // the statement: a declared length on every response that may carry a body
                m.headers.insert("Content-Length".into(), "0".into());
                m.payload = None;
                m.last_content_op_is_drop = true;
            }
        }
    }
    m
}

fn value_strategy() -> impl Strategy<Value = String> {
    prop_oneof![
        8 => "[ -~]{0,40}",
        2 => "\\PC{0,60}",
        1 => "[ -~]{250,600}",
        1 => "[a-z ,;=]{2000,5000}",
    ]
}
fn small_text() -> impl Strategy<Value = String> {
    prop_oneof![
        4 => "[ -~]{0,60}",
        2 => "\\PC{0,80}",
        1 => "(.|\\n){0,300}",
        1 => "[a-z\\n]{1000,3000}",
    ]
}
fn op_strategy() -> impl Strategy<Value = Op> {
    // bias toward re-use of the same few headers
    let h = prop_oneof![3 => 0u8..3, 1 => 0u8..(N_TYPED_ALWAYS as u8)];
    let x = prop_oneof![3 => 0u8..2, 1 => 0u8..4, 2 => 4u8..7];
    prop_oneof![
        5 => (h.clone(), value_strategy()).prop_map(|(h, v)| Op::Set(h, v)),
        3 => (h.clone(), value_strategy()).prop_map(|(h, v)| Op::Append(h, v)),
        5 => h.prop_map(Op::Remove),
        2 => (x.clone(), value_strategy()).prop_map(|(h, v)| Op::SetX(h, v)),
        1 => (x.clone(), value_strategy()).prop_map(|(h, v)| Op::AppendX(h, v)),
        2 => x.prop_map(Op::RemoveX),
        2 => (0u8..3, "[A-Za-z0-9]{0,12}", 0u8..32).prop_map(|(n, v, d)| Op::Cookie(n, v, d)),
        2 => small_text().prop_map(Op::Text),
        1 => small_text().prop_map(Op::Html),
        1 => small_text().prop_map(Op::Json),
        1 => small_text().prop_map(Op::JsonLit),
        1 => (0u8..3, vec(any::<u8>(), 0..300)).prop_map(|(c, b)| Op::Payload(c, b)),
        2 => Just(Op::DropContent),
        1 => vec("[a-z0-9 ]{0,12}", 0..4).prop_map(Op::Stream),
        1 => prop_oneof![2 => 0u8..64, 1 => Just(4u8), 1 => Just(5u8), 1 => Just(8u8), 1 => Just(18u8)].prop_map(Op::Status),
    ]
}

fn has_invalid_value(case: &Case) -> bool {
    let bad = |s: &str| s.bytes().any(|b| b == b'\r' || b == b'\n' || b == 0);
    case.ops.iter().any(|op| match op {
        Op::Set(_, v) | Op::Append(_, v) | Op::SetX(_, v) | Op::AppendX(_, v) => bad(v),
        Op::Cookie(_, v, _) => !v.bytes().all(|b| b.is_ascii_alphanumeric()),
        _ => false,
    })
}

impl Property for C03 {
    type Case = Case;
    const ID: &'static str = "C03";
    const RULE: &'static str = "generated: status from the whole Status enum × GET/HEAD × a history of 0–40 (thorough: up to 400, long enough to wrap the 8-bit slot index) public Response operations (set/append/remove on 38 standard headers (every one that is neither framing nor server-set; in 4 % of the histories, which then have no by-name operations, also Age, Expires, Allow, Trailer, Upgrade) incl. Content-Type and the misspelt Content-Encoding, 4 custom names and 3 standard names through the by-name entry point `.x()`, Set-Cookie with directive subsets, set_text/html/json/payload, set_stream, drop_content, assignments to the public `status` field — the response goes out with the last one), biased toward re-use of the same header; values printable ASCII/UTF-8 of length 0–5000 without CR/LF/NUL; framing headers never set by hand. Executed inside a real handler, through the real router (complete, HEAD handling) and serializer into a Vec. Oracle: independent response parser + a model of the history (name → latest value under an independently written canonical-name table; appends joined with ', '), framing rules of the statement, bytes written ≤ bytes reserved (hook H3 turns an overrun into a panic). Non-trivial = remove followed by set/append of the same header, or ≥ 3 operations on one header, or a content replacement/drop, or status 204/304, or HEAD; distinct by case.";
    const ASSUMPTIONS: &'static [&'static str] = &[
        "header values contain no CR/LF/NUL and Content-Length/Transfer-Encoding are never set by hand (documented as the user's responsibility)",
        "1xx and 304 are only checked for self-consistency (the statement does not mention them)",
        "the Date header comes from the frozen clock (hook H4)",
        "30% of the cases write into a sink that accepts only 1–2000 bytes per write call (a nearly full send buffer); what arrives must be the same bytes",
        "15% of the cases send a second, fixed response on the same thread at the start of one of the write calls (two connections on one runtime thread, the first suspended in its output): both must arrive as if sent alone",
    ];

    fn new(_: Tier) -> Self {
        drive::freeze_clock();
        let mut o = Ohkami::new(());
        Routing::<()>::apply("/".GET(handler), &mut o);
        C03 { router: VerifRouter::new(o) }
    }
    fn n_cases(&self, tier: Tier) -> u64 {
        tier.pick(60_000, 2_000_000)
    }
    fn chunk(&self, _tier: Tier) -> u64 {
        5000
    }
    fn in_domain(&self, case: &Case) -> bool {
        let by_name = case.ops.iter().any(|o| matches!(o, Op::SetX(..) | Op::AppendX(..) | Op::RemoveX(..)));
        let late_names = case.ops.iter().any(|o| matches!(o, Op::Set(h, _) | Op::Append(h, _) | Op::Remove(h) if (*h as usize % STD.len()) >= N_TYPED_ALWAYS));
        !has_invalid_value(case) && STATUSES.contains(&case.status) && !(by_name && late_names)
    }
    fn strategy(&self, tier: Tier) -> BoxedStrategy<Case> {
        let len = match tier {
            Tier::Quick => prop_oneof![9 => 0usize..=40, 1 => 250usize..=300].boxed(),
            Tier::Thorough => prop_oneof![8 => 0usize..=40, 2 => 200usize..=400].boxed(),
        };
        let ops = len.prop_flat_map(|n| vec(op_strategy(), n));
        let short = prop::option::weighted(0.3, prop_oneof![2 => 1u16..=16, 2 => 17u16..=200, 1 => 201u16..=2000]);
        let interleave = prop::option::weighted(0.15, prop_oneof![3 => Just(0u8), 1 => 0u8..6]);
        // typed operations on the five names otherwise left to the by-name entry point (or left out): only in histories
        // without by-name operations
        let late = prop::option::weighted(0.04, vec(((N_TYPED_ALWAYS as u8)..(STD.len() as u8), value_strategy(), 0u8..3, any::<prop::sample::Index>()), 1..5));
        ((0usize..STATUSES.len()), prop::bool::weighted(0.25), ops, short, interleave, late)
            .prop_map(|(s, head, mut ops, short_write, interleave, late)| {
                if let Some(late) = late {
                    ops.retain(|o| !matches!(o, Op::SetX(..) | Op::AppendX(..) | Op::RemoveX(..)));
                    for (h, v, kind, at) in late {
                        let op = match kind {
                            0 => Op::Set(h, v),
                            1 => Op::Append(h, v),
                            _ => Op::Remove(h),
                        };
                        let i = at.index(ops.len() + 1);
                        ops.insert(i, op);
                    }
                }
                Case { status: STATUSES[s], head, ops, short_write, interleave }
            })
            .boxed()
    }

    fn check(&self, case: &Case, obs: &mut Obs) {
        let m = model_of(case);
        // non-triviality
        {
            let mut per: BTreeMap<String, (u32, bool, bool)> = BTreeMap::new(); // count, removed-before, remove→set
            let mut content_ops = 0;
            for op in &case.ops {
                let (k, is_remove, is_set) = match op {
                    Op::Set(h, _) | Op::Append(h, _) => (format!("s{}", *h as usize % STD.len()), false, true),
                    Op::Remove(h) => (format!("s{}", *h as usize % STD.len()), true, false),
                    Op::SetX(h, _) | Op::AppendX(h, _) => (format!("x{}", *h as usize % CUSTOM.len()), false, true),
                    Op::RemoveX(h) => (format!("x{}", *h as usize % CUSTOM.len()), true, false),
                    Op::Text(_) | Op::Html(_) | Op::Json(_) | Op::JsonLit(_) | Op::Payload(..) | Op::DropContent | Op::Stream(_) => {
                        content_ops += 1;
                        continue;
                    }
                    _ => continue,
                };
                let e = per.entry(k).or_default();
                e.0 += 1;
                if is_remove {
                    e.1 = true
                }
                if is_set && e.1 {
                    e.2 = true
                }
            }
            let rs = per.values().any(|e| e.2);
            if rs {
                obs.label("remove-then-set")
            }
            if case.ops.len() > 255 {
                obs.label("long-history")
            }
            obs.nontrivial = rs || per.values().any(|e| e.0 >= 3) || content_ops >= 2 || case.ops.contains(&Op::DropContent) || final_status(case) == 204 || final_status(case) == 304 || case.head || case.ops.iter().any(|o| matches!(o, Op::Status(_)));
        }
        CURRENT.with(|c| *c.borrow_mut() = Some(case.clone()));
        let method = if case.head { "HEAD" } else { "GET" };
        let bytes = drive::request_bytes(method, "/", &[("Host".into(), "t".into())], None);
        if case.short_write.is_some() {
            obs.label("short-writes")
        }
        // the other response of an interleaved send, first on its own (its bytes do not depend on anything else)
        let inner = || ohkami::Response::OK().with_text("the response of another connection served by the same thread");
        let inner_alone: Option<Vec<u8>> = case.interleave.map(|_| {
            let mut v = Vec::new();
            let _ = crate::core::exec::block_on(ohkami::__verif__::send(inner(), &mut v));
            v
        });
        let inner_got: std::rc::Rc<RefCell<Option<Vec<u8>>>> = std::rc::Rc::new(RefCell::new(None));
        if let Some(k) = case.interleave {
            obs.label("interleaved-send");
            let slot = inner_got.clone();
            drive::set_write_hook(Some(Box::new(move |call| {
                if call == k as usize && slot.borrow().is_none() {
                    let mut v = Vec::new();
                    let _ = crate::core::exec::block_on(ohkami::__verif__::send(inner(), &mut v));
                    *slot.borrow_mut() = Some(v);
                }
            })));
        }
        let before = drive::set_write_limit(case.short_write.map(|n| n as usize));
        let ran = panic::catch(std::panic::AssertUnwindSafe(|| drive::drive_one(&self.router, &bytes)));
        drive::set_write_limit(before);
        drive::set_write_hook(None);
        if let (Some(alone), Some(got)) = (&inner_alone, inner_got.borrow().as_ref()) {
            if alone != got {
                obs.fail("interleaved-send:other-response-damaged", format!("a response sent on the same thread while this one was suspended in a write differs from the same response sent alone: {} bytes vs {} bytes", got.len(), alone.len()));
            }
        }
        let ex = match ran {
            Ok(Ok(ex)) => ex,
            Ok(Err(e)) => {
                obs.fail("HARNESS-BUG executor", e);
                return;
            }
            Err(pi) => {
                if pi.msg.contains("push_unchecked past capacity") {
                    obs.fail("overrun:serializer-writes-past-reserved-size", format!("{} {:?}: {}", method, case.status, pi.describe()));
                } else {
                    obs.fail(pi.key(), pi.describe());
                }
                return;
            }
        };
        // (a stream's chunks are written from buffers of their own: the reserved size covers the head only)
        if let (Some(d), None) = (ex.declared, &m.stream) {
            if ex.wire.len() > d {
                obs.fail("overrun:written-exceeds-declared", format!("wrote {} bytes, reserved {d}", ex.wire.len()));
            }
        }
        let status = final_status(case);
        let self_consistent_only = (100..200).contains(&status) || status == 304;
        if m.stream.is_some() {
            obs.label("stream-content");
            if self_consistent_only {
                // a stream as the content of a 1xx / 304: the statement does not say what that should be
                obs.label("stream-on-1xx-304:no-verdict");
                return;
            }
        }
        // (1) well-formedness
        let parsed = match crate::oracle::http::parse_response(&ex.wire, case.head) {
            Ok(p) => p,
            Err(e) => {
                let key = if e.contains("neither Content-Length nor chunked") {
                    if m.last_content_op_is_drop {
                        "framing:no-declared-length-after-drop_content"
                    } else {
                        "framing:no-declared-length"
                    }
                } else if e.contains("Content-Length appears") {
                    "headers:duplicate-content-length"
                } else {
                    "malformed"
                };
                obs.fail(key, format!("{e}; wire head: {:?}", String::from_utf8_lossy(&ex.wire[..ex.wire.len().min(400)])));
                return;
            }
        };
        if parsed.status != status {
            obs.fail("status-line", format!("status {} on the wire, {} expected", parsed.status, status));
        }
        // (3) framing
        let rest = &ex.wire[parsed.consumed..];
        if status == 204 {
            if !rest.is_empty() {
                obs.fail("framing:204-with-body", format!("{} bytes after the head of a 204", rest.len()));
            }
            if parsed.get("Content-Length").is_some() {
                obs.fail("framing:204-with-content-length", "204 carries Content-Length".to_string());
            }
        } else if case.head {
            if !rest.is_empty() {
                obs.fail("framing:head-with-body", format!("{} bytes after the head of a HEAD response", rest.len()));
            }
        } else if self_consistent_only {
            // if bytes follow the head, a declared length must cover exactly them
            if !rest.is_empty() {
                let cl = parsed.get("Content-Length").and_then(|v| v.parse::<usize>().ok());
                if cl != Some(rest.len()) {
                    obs.fail("framing:1xx-304-inconsistent", format!("{} bytes follow the head of a {status}, Content-Length {:?}", rest.len(), parsed.get("Content-Length")));
                }
            }
        } else if let Some(msgs) = &m.stream {
            if !rest.is_empty() {
                obs.fail("framing:stray-bytes", format!("{} bytes beyond the end of the chunked body", rest.len()));
            }
            if !parsed.chunked {
                obs.fail("framing:stream-not-chunked", format!("the content is a stream, the response is not chunked (Content-Length {:?})", parsed.get("Content-Length")));
            } else {
                match std::str::from_utf8(&parsed.body) {
                    Err(_) => obs.fail("stream:not-utf8", "the de-chunked body is not UTF-8".to_string()),
                    Ok(text) => {
                        let got: Vec<String> = crate::oracle::sse::parse(text).events.iter().map(|e| e.data.clone()).collect();
                        if &got != msgs {
                            obs.fail("stream:messages-differ", format!("events {got:?}, messages {msgs:?}"));
                        }
                    }
                }
            }
        } else {
            if parsed.chunked {
                obs.fail("framing:chunked-without-stream", format!("the content is not a stream, yet the response says Transfer-Encoding: chunked (Content-Length {:?}); a client reads the {} body bytes as chunks", parsed.get("Content-Length"), m.payload.as_ref().map_or(0, |p| p.len())));
                return;
            }
            if !rest.is_empty() {
                obs.fail("framing:stray-bytes", format!("{} bytes beyond the declared length", rest.len()));
            }
            let want = m.payload.clone().unwrap_or_default();
            if parsed.body != want {
                obs.fail("body-mismatch", format!("body {:?}, expected {:?}", String::from_utf8_lossy(&parsed.body[..parsed.body.len().min(80)]), String::from_utf8_lossy(&want[..want.len().min(80)])));
            }
        }
        // (2) headers: every live header exactly once under its canonical name with its latest value
        let mut want: BTreeMap<String, String> = m.headers.iter().map(|(k, v)| (k.clone(), trim_ows(v))).collect();
        if status == 204 {
            want.remove("Content-Length");
            // (RFC 9112 §6.1: no Transfer-Encoding in a 204)
            want.remove("Transfer-Encoding");
        }
        if case.head && m.stream.is_some() && parsed.get("Transfer-Encoding").is_none() {
            // RFC 9110 §9.3.2: the response to HEAD may omit the header fields that describe the content's framing
            want.remove("Transfer-Encoding");
        }
        if !self_consistent_only && status != 204 && !want.contains_key("Content-Length") {
            // the statement demands a declared length here; reported above by the parser when absent.
        }
        let mut seen: BTreeMap<String, Vec<String>> = BTreeMap::new();
        for (n, v) in &parsed.headers {
            if n.eq_ignore_ascii_case("Set-Cookie") {
                continue;
            }
            seen.entry(n.clone()).or_default().push(v.clone());
        }
        for (name, vals) in &seen {
            let canon = want.keys().find(|k| k.eq_ignore_ascii_case(name));
            match canon {
                None => {
                    // a misspelt standard name shows up as "unknown header + missing header"
                    let misspelt = want.keys().find(|k| edit_distance_le1(k, name));
                    match misspelt {
                        Some(k) => obs.fail(format!("headers:misspelt-name:{k}"), format!("header {k:?} is written as {name:?}")),
                        None => obs.fail("headers:stale-or-removed-header-emitted", format!("header {name:?}: {vals:?} is on the wire but not live in the history")),
                    }
                }
                Some(k) => {
                    if name != k {
                        obs.fail("headers:non-canonical-name", format!("{k:?} written as {name:?}"));
                    }
                    if vals.len() != 1 {
                        obs.fail("headers:duplicate-line", format!("{name:?} appears {} times: {:?} (latest value {:?})", vals.len(), vals.iter().map(|v| &v[..v.len().min(40)]).collect::<Vec<_>>(), &want[k][..want[k].len().min(40)]));
                    } else if vals[0] != want[k] {
                        obs.fail("headers:wrong-value", format!("{name:?}: {:?} on the wire, latest value {:?}", &vals[0][..vals[0].len().min(60)], &want[k][..want[k].len().min(60)]));
                    }
                }
            }
        }
        for k in want.keys() {
            if !seen.keys().any(|n| n.eq_ignore_ascii_case(k)) && !seen.keys().any(|n| edit_distance_le1(k, n)) {
                if k == "Content-Length" {
                    continue; // reported by the framing rules
                }
                obs.fail("headers:live-header-missing", format!("{k:?} = {:?} is live but absent from the wire", &want[k][..want[k].len().min(60)]));
            }
        }
        let cookies = parsed.get_all("Set-Cookie");
        if cookies.len() != m.cookies.len() {
            obs.fail("headers:set-cookie-count", format!("{} Set-Cookie lines for {} cookies", cookies.len(), m.cookies.len()));
        } else {
            for (line, (n, v)) in cookies.iter().zip(&m.cookies) {
                if !(line.starts_with(&format!("{n}={v}")) && (line.len() == n.len() + 1 + v.len() || line[n.len() + 1 + v.len()..].starts_with(';'))) {
                    obs.fail("headers:set-cookie-line", format!("cookie {n}={v} emitted as {line:?}"));
                }
            }
        }
    }
}

fn edit_distance_le1(a: &str, b: &str) -> bool {
    let (a, b) = (a.to_ascii_lowercase(), b.to_ascii_lowercase());
    if a == b {
        return false;
    }
    let (a, b) = (a.as_bytes(), b.as_bytes());
    let (la, lb) = (a.len(), b.len());
    if la.abs_diff(lb) > 1 {
        return false;
    }
    let mut i = 0;
    while i < la.min(lb) && a[i] == b[i] {
        i += 1
    }
    if la == lb {
        a[i + 1..] == b[i + 1..]
    } else if la > lb {
        a[i + 1..] == b[i..]
    } else {
        a[i..] == b[i + 1..]
    }
}
