//! C07 — typed path, query and body extraction delivers exact values or stops the handler.

use crate::core::*;
use crate::harness::app::{log, take_log, Ev};
use crate::harness::drive;
use ohkami::__verif__::VerifRouter;
use ohkami::format::{Multipart, Query, Text, URLEncoded, JSON};
use ohkami::openapi::Schema;
use ohkami::prelude::*;
use proptest::collection::vec;
use proptest::prelude::*;
use serde::{Deserialize, Serialize};
use std::borrow::Cow;

pub struct C07 {
    router: VerifRouter,
}

pub const INT_TYPES: [&str; 10] = ["u8", "u16", "u32", "u64", "usize", "i8", "i16", "i32", "i64", "isize"];

#[derive(Debug, Clone, PartialEq, Serialize, Deserialize, Schema)]
pub struct Q {
    pub a: String,
    pub n: Option<u32>,
}
/// a user-defined extractor assembled by `#[derive(FromRequest)]`
#[derive(ohkami::FromRequest)]
pub struct Dv {
    q: Query<Q>,
    j: JSON<J>,
}

#[derive(Debug, Clone, PartialEq, Serialize, Deserialize, Schema)]
pub struct J {
    pub s: String,
    pub n: i64,
    pub b: u16,
    pub o: Option<String>,
    pub v: Vec<u32>,
}
#[derive(Debug, Clone, PartialEq, Serialize, Deserialize, Schema)]
pub struct U {
    pub name: String,
    pub age: u8,
    pub note: Option<String>,
}
#[derive(Debug, Clone, PartialEq, Serialize, Deserialize, Schema)]
pub struct Mp {
    pub title: String,
    pub text: Option<String>,
}

#[derive(Debug, Clone, Serialize, Deserialize, PartialEq)]
pub enum BodyKind {
    None,
    Json(J),
    JsonCorrupt(J, u8),
    Form(U),
    FormCorrupt(U, u8),
    Multipart(Mp),
    Text(String),
    TextInvalidUtf8,
}
#[derive(Debug, Clone, Serialize, Deserialize, PartialEq)]
pub enum CtKind {
    Exact,
    WithParams,
    Other,
    Missing,
    /// a proper, non-empty prefix of the media type (`application`, `application/`, `text/pl`): not that media type
    Prefix(u8),
}

#[derive(Debug, Clone, Serialize, Deserialize)]
pub enum Case {
    /// integer parameter of type INT_TYPES[ty] in first (`/p/<ty>/:v`) or second (`/q/<ty>/:a/:v`) position
    Int {
        ty: u8,
        second: bool,
        segment: String,
        /// (first position only) the route captures a second segment that the handler does not take: `/r/<ty>/:v/:b`
        #[serde(default)]
        extra: bool,
    },
    /// string-like parameter: 0 String, 1 Cow<str>, 2 &str
    Str {
        kind: u8,
        second: bool,
        segment: String,
        #[serde(default)]
        extra: bool,
    },
    /// `/x/<route>`: 0 query, 1 json, 2 optjson, 3 form, 4 multipart, 5 text, 6 combo (param + query + json), 7 combo4 (query + opt json + opt form + text?)
    Extract { route: u8, query: Option<Q>, raw_query: Option<String>, body: BodyKind, ct: CtKind, param: String },
}

fn ran(id: &str, vals: Vec<String>) {
    let mut v = vec![id.to_string()];
    v.extend(vals);
    log(Ev::Handler(0, v));
}

macro_rules! int_routes {
    ($o:ident; $($t:ident),*) => {{
        $(
            let first = crate::harness::app::leak(format!("/p/{}/:v", stringify!($t)));
            let second = crate::harness::app::leak(format!("/q/{}/:a/:v", stringify!($t)));
            ohkami::__verif__::Routing::<()>::apply(first.GET(|v: $t| async move { ran(stringify!($t), vec![v.to_string()]); "ok" }), &mut $o);
            ohkami::__verif__::Routing::<()>::apply(second.GET(|(a, v): (String, $t)| async move { ran(stringify!($t), vec![a, v.to_string()]); "ok" }), &mut $o);
            let fewer = crate::harness::app::leak(format!("/r/{}/:v/:b", stringify!($t)));
            ohkami::__verif__::Routing::<()>::apply(fewer.GET(|v: $t| async move { ran(stringify!($t), vec![v.to_string()]); "ok" }), &mut $o);
        )*
    }};
}

fn js<T: Serialize>(t: &T) -> String {
    serde_json::to_string(t).unwrap()
}

fn build() -> VerifRouter {
    let mut o = Ohkami::new(());
    int_routes!(o; u8, u16, u32, u64, usize, i8, i16, i32, i64, isize);
    use ohkami::__verif__::Routing;
    Routing::<()>::apply("/p/string/:v".GET(|v: String| async move { ran("string", vec![v]); "ok" }), &mut o);
    Routing::<()>::apply("/p/cow/:v".GET(|v: Cow<'static, str>| async move { ran("cow", vec![v.into_owned()]); "ok" }), &mut o);
    Routing::<()>::apply("/p/str/:v".GET(|v: &'static str| async move { ran("str", vec![v.to_string()]); "ok" }), &mut o);
    Routing::<()>::apply("/r/string/:v/:b".GET(|v: String| async move { ran("string", vec![v]); "ok" }), &mut o);
    Routing::<()>::apply("/r/cow/:v/:b".GET(|(v,): (Cow<'static, str>,)| async move { ran("cow", vec![v.into_owned()]); "ok" }), &mut o);
    Routing::<()>::apply("/r/str/:v/:b".GET(|v: &'static str| async move { ran("str", vec![v.to_string()]); "ok" }), &mut o);
    Routing::<()>::apply("/q/string/:a/:v".GET(|(a, v): (String, String)| async move { ran("string", vec![a, v]); "ok" }), &mut o);
    Routing::<()>::apply("/q/cow/:a/:v".GET(|(a, v): (String, Cow<'static, str>)| async move { ran("cow", vec![a, v.into_owned()]); "ok" }), &mut o);
    Routing::<()>::apply("/q/str/:a/:v".GET(|(a, v): (String, &'static str)| async move { ran("str", vec![a, v.to_string()]); "ok" }), &mut o);
    Routing::<()>::apply("/x/query".GET(|Query(q): Query<Q>| async move { ran("query", vec![js(&q)]); "ok" }), &mut o);
    Routing::<()>::apply("/x/json".POST(|JSON(j): JSON<J>| async move { ran("json", vec![js(&j)]); "ok" }), &mut o);
    Routing::<()>::apply("/x/optjson".POST(|j: Option<JSON<J>>| async move { ran("optjson", vec![js(&j.map(|j| j.0))]); "ok" }), &mut o);
    Routing::<()>::apply("/x/form".POST(|URLEncoded(u): URLEncoded<U>| async move { ran("form", vec![js(&u)]); "ok" }), &mut o);
    Routing::<()>::apply("/x/multipart".POST(|Multipart(m): Multipart<Mp>| async move { ran("multipart", vec![js(&m)]); "ok" }), &mut o);
    Routing::<()>::apply("/x/text".POST(|Text(t): Text<String>| async move { ran("text", vec![t]); "ok" }), &mut o);
    Routing::<()>::apply("/x/combo/:id".POST(|id: u32, Query(q): Query<Q>, JSON(j): JSON<J>| async move { ran("combo", vec![id.to_string(), js(&q), js(&j)]); "ok" }), &mut o);
    Routing::<()>::apply(
        "/x/combo4".POST(|q: Option<Query<Q>>, j: Option<JSON<J>>, u: Option<URLEncoded<U>>, t: Option<Text<String>>| async move {
            ran("combo4", vec![js(&q.map(|q| q.0)), js(&j.map(|j| j.0)), js(&u.map(|u| u.0)), js(&t.map(|t| t.0))]);
            "ok"
        }),
        &mut o,
    );
    Routing::<()>::apply("/x/derived".POST(|d: Dv| async move { ran("derived", vec![js(&d.q.0), js(&d.j.0)]); "ok" }), &mut o);
    Routing::<()>::apply(
        "/x/optderived".POST(|d: Option<Dv>| async move {
            ran("optderived", match d {
                Some(d) => vec![js(&d.q.0), js(&d.j.0)],
                None => vec!["null".into()],
            });
            "ok"
        }),
        &mut o,
    );
    VerifRouter::new(o)
}

fn enc(s: &str) -> String {
    s.bytes().map(|b| if b.is_ascii_alphanumeric() || b"-._~".contains(&b) { (b as char).to_string() } else { format!("%{b:02X}") }).collect()
}
/// (keys may be percent-encoded as well as values: `%61=…` is the key `a`; which spelling is used is a function of the value)
fn encode_query(q: &Q) -> String {
    let mut parts = vec![format!("{}={}", if q.a.len() % 3 == 0 { "%61" } else { "a" }, enc(&q.a))];
    if let Some(n) = q.n {
        parts.push(format!("{}={n}", if n % 3 == 0 { "%6E" } else { "n" }));
    }
    parts.join("&")
}
fn encode_form(u: &U) -> String {
    let mut parts = vec![format!("{}={}", if u.age % 4 == 0 { "n%61me" } else { "name" }, enc(&u.name)), format!("{}={}", if u.name.len() % 4 == 0 { "%61ge" } else { "age" }, u.age)];
    if let Some(n) = &u.note {
        parts.push(format!("{}={}", if n.len() % 2 == 0 { "%6Eote" } else { "note" }, enc(n)));
    }
    parts.join("&")
}
const BOUNDARY: &str = "----verifBoundary7MA4YWxkTrZu0gW";
fn encode_multipart(m: &Mp) -> Vec<u8> {
    let mut v = Vec::new();
    let mut part = |name: &str, val: &str| {
        v.extend_from_slice(format!("--{BOUNDARY}\r\nContent-Disposition: form-data; name=\"{name}\"\r\n\r\n").as_bytes());
        v.extend_from_slice(val.as_bytes());
        v.extend_from_slice(b"\r\n");
    };
    part("title", &m.title);
    if let Some(t) = &m.text {
        part("text", t);
    }
    v.extend_from_slice(format!("--{BOUNDARY}--\r\n").as_bytes());
    v
}

/// (bytes, matching media type, Some(valid value rendered as the handler renders it) / None = invalid)
fn body_bytes(b: &BodyKind) -> Option<(Vec<u8>, &'static str, Option<String>)> {
    match b {
        BodyKind::None => None,
        BodyKind::Json(j) => Some((serde_json::to_vec(j).unwrap(), "application/json", Some(js(j)))),
        BodyKind::JsonCorrupt(j, how) => {
            let mut v: serde_json::Value = serde_json::to_value(j).unwrap();
            let bytes = match how % 6 {
                0 => {
                    let mut b = serde_json::to_vec(j).unwrap();
                    b.pop();
                    b
                }
                // a complete, well-typed value followed by something else: not a JSON text
                4 => {
                    let mut b = serde_json::to_vec(j).unwrap();
                    b.extend_from_slice(b"]");
                    b
                }
                5 => {
                    let mut b = serde_json::to_vec(j).unwrap();
                    b.extend_from_slice(b" {\"s\":\"second\",\"n\":1,\"b\":2}");
                    b
                }
                1 => {
                    v.as_object_mut().unwrap().remove("s");
                    serde_json::to_vec(&v).unwrap()
                }
                2 => {
                    v["n"] = serde_json::json!("not a number");
                    serde_json::to_vec(&v).unwrap()
                }
                _ => b"[1,2,3]".to_vec(),
            };
            Some((bytes, "application/json", None))
        }
        BodyKind::Form(u) => Some((encode_form(u).into_bytes(), "application/x-www-form-urlencoded", Some(js(u)))),
        BodyKind::FormCorrupt(u, how) => {
            let s = match how % 5 {
                0 => format!("age={}", u.age).into_bytes(),
                1 => format!("name={}&age=abc", enc(&u.name)).into_bytes(),
                2 => format!("name={}&age=999", enc(&u.name)).into_bytes(),
                // bytes that are not UTF-8, unescaped: no `String` can be made of them
                3 => [b"name=".as_slice(), &[0xFF, 0xFE], format!("&age={}", u.age).as_bytes()].concat(),
                _ => [b"name=caf".as_slice(), &[0xE9], format!("&age={}", u.age).as_bytes()].concat(),
            };
            Some((s, "application/x-www-form-urlencoded", None))
        }
        BodyKind::Multipart(m) => Some((encode_multipart(m), "multipart/form-data", Some(js(m)))),
        BodyKind::Text(t) => Some((t.as_bytes().to_vec(), "text/plain", Some(t.clone()))),
        BodyKind::TextInvalidUtf8 => Some((vec![b'a', 0xff, 0xfe, b'b'], "text/plain", None)),
    }
}

fn content_type(kind: &CtKind, mime: &str) -> Option<String> {
    match kind {
        CtKind::Exact => Some(if mime == "multipart/form-data" { format!("{mime}; boundary={BOUNDARY}") } else { mime.to_string() }),
        CtKind::WithParams => Some(if mime == "multipart/form-data" { format!("{mime}; boundary={BOUNDARY}") } else { format!("{mime}; charset=utf-8") }),
        CtKind::Other => Some("application/octet-stream".to_string()),
        CtKind::Missing => None,
        CtKind::Prefix(k) => Some(mime[..1 + *k as usize % (mime.len() - 1)].to_string()),
    }
}

fn int_segment() -> impl Strategy<Value = String> {
    let boundary = (0usize..10, 0u8..4).prop_map(|(t, k)| {
        let (min, max): (i128, i128) = match INT_TYPES[t] {
            "u8" => (0, u8::MAX as i128),
            "u16" => (0, u16::MAX as i128),
            "u32" => (0, u32::MAX as i128),
            "u64" | "usize" => (0, u64::MAX as i128),
            "i8" => (i8::MIN as i128, i8::MAX as i128),
            "i16" => (i16::MIN as i128, i16::MAX as i128),
            "i32" => (i32::MIN as i128, i32::MAX as i128),
            _ => (i64::MIN as i128, i64::MAX as i128),
        };
        match k {
            0 => (min - 1).to_string(),
            1 => min.to_string(),
            2 => max.to_string(),
            _ => (max + 1).to_string(),
        }
    });
    prop_oneof![
        4 => "[0-9]{1,3}",
        2 => "[0-9]{1,25}",
        2 => "0{1,3}[0-9]{1,3}",
        2 => "-[0-9]{1,20}",
        1 => "\\+[0-9]{1,3}",
        3 => "[0-9]{1,4}[a-zA-Z._-]{1,3}",
        2 => "[a-z]{1,2}[0-9]{1,3}",
        4 => boundary,
        1 => Just("1e3".to_string()),
        1 => Just("0x10".to_string()),
        1 => Just("１２".to_string()),
        1 => Just("%31%32".to_string()),
        1 => Just("1%32".to_string()),
        1 => Just("%2D5".to_string()),
        1 => Just("-".to_string()),
        1 => Just("--1".to_string()),
        1 => Just("1-".to_string()),
        1 => Just("1%20".to_string()),
        1 => Just("%FF".to_string()),
        1 => Just("12%".to_string()),
    ]
}
fn str_segment() -> impl Strategy<Value = String> {
    prop_oneof![
        4 => "[a-zA-Z0-9._~-]{1,10}",
        2 => "\\PC{1,5}".prop_map(|s| enc(&s)),
        1 => Just("a%2Fb".to_string()),
        1 => Just("%41".to_string()),
        1 => Just("%FF".to_string()),
        1 => Just("100%".to_string()),
        1 => Just("a+b".to_string()),
    ]
}
fn q_strategy() -> impl Strategy<Value = Q> {
    ("\\PC{1,8}", prop::option::of(any::<u32>())).prop_map(|(a, n)| Q { a, n })
}
fn j_strategy() -> impl Strategy<Value = J> {
    ("\\PC{0,10}", any::<i64>(), any::<u16>(), prop::option::of("\\PC{0,6}"), vec(any::<u32>(), 0..4)).prop_map(|(s, n, b, o, v)| J { s, n, b, o, v })
}
fn u_strategy() -> impl Strategy<Value = U> {
    ("\\PC{1,10}", any::<u8>(), prop::option::of("\\PC{1,6}")).prop_map(|(name, age, note)| U { name, age, note })
}
fn mp_strategy() -> impl Strategy<Value = Mp> {
    ("[ -~]{1,12}", prop::option::of("[ -~]{1,20}")).prop_map(|(title, text)| Mp { title, text })
}

fn pct_decode_utf8(seg: &str) -> Option<String> {
    String::from_utf8(crate::oracle::http::pct_decode_lenient(seg.as_bytes())).ok()
}

/// the canonical integer grammar of the statement: the whole (decoded) segment denotes an in-range integer
fn int_expect(ty: &str, seg: &str) -> Option<Option<String>> {
    // Some(Some(v)) accept with v; Some(None) refuse; None: either (`+5`)
    let Some(dec) = pct_decode_utf8(seg) else { return Some(None) };
    let signed = ty.starts_with('i');
    let digits = dec.strip_prefix('-').filter(|_| signed).unwrap_or(&dec);
    if dec.starts_with('+') && dec[1..].bytes().all(|b| b.is_ascii_digit()) && dec.len() > 1 {
        return None;
    }
    if digits.is_empty() || !digits.bytes().all(|b| b.is_ascii_digit()) {
        return Some(None);
    }
    let ok = match ty {
        "u8" => dec.parse::<u8>().ok().map(|v| v.to_string()),
        "u16" => dec.parse::<u16>().ok().map(|v| v.to_string()),
        "u32" => dec.parse::<u32>().ok().map(|v| v.to_string()),
        "u64" => dec.parse::<u64>().ok().map(|v| v.to_string()),
        "usize" => dec.parse::<usize>().ok().map(|v| v.to_string()),
        "i8" => dec.parse::<i8>().ok().map(|v| v.to_string()),
        "i16" => dec.parse::<i16>().ok().map(|v| v.to_string()),
        "i32" => dec.parse::<i32>().ok().map(|v| v.to_string()),
        "i64" => dec.parse::<i64>().ok().map(|v| v.to_string()),
        _ => dec.parse::<isize>().ok().map(|v| v.to_string()),
    };
    Some(ok)
}

fn segment_ok(s: &str) -> bool {
    !s.is_empty() && !s.contains('/') && !s.contains('?') && !s.contains(' ') && !s.bytes().any(|b| b < 0x21 || b == 0x7f)
}

impl Property for C07 {
    type Case = Case;
    const ID: &'static str = "C07";
    const RULE: &'static str = "generated: requests against a compiled catalogue of 61 handler signatures — every built-in param type (String, Cow<str>, &str, the ten integer types) in first and second position and as the only parameter of a route that captures two, Query/JSON/Option<JSON>/URLEncoded/Multipart/Text extractors alone and in combinations of 3 and 4 items, a `#[derive(FromRequest)]` struct over Query+JSON required and optional. Param segments from a grammar (digit strings of 1–25 digits, leading zeros, signs, digits with garbage head or tail, MIN−1/MIN/MAX/MAX+1 of every width, 1e3, 0x10, full-width digits, percent-encoded digits/signs/UTF-8, %FF, trailing %); bodies = a generated value encoded by a reference encoder of its format, valid or corrupted (truncated, missing field, wrong type, a complete value followed by more), keys percent-encoded or plain, with exact / parameterised / other / missing Content-Type or a proper prefix of the media type. Oracle: Rust FromStr on the canonical integer grammar after percent-decoding; value equality for strings/bodies; invalid or missing ⇒ status ≥ 400 and the handler did not run; Option is None iff the Content-Type is absent/other or there is no payload. Non-trivial = an integer segment that is not a plain in-range literal, an encoded segment, or a body case other than valid + exact type; distinct by case.";
    const ASSUMPTIONS: &'static [&'static str] = &[
        "`+5` as an integer parameter may be accepted or refused",
        "media types are matched as the framework documents (prefix of the Content-Type value); case variants of media types are not generated",
        "serde_json is the reference JSON encoder; the other formats use the harness's own encoders",
    ];

    fn new(_: Tier) -> Self {
        C07 { router: build() }
    }
    fn n_cases(&self, tier: Tier) -> u64 {
        tier.pick(1_600_000, 8_000_000)
    }
    fn chunk(&self, _tier: Tier) -> u64 {
        10_000
    }
    fn in_domain(&self, case: &Case) -> bool {
        match case {
            Case::Int { segment, .. } | Case::Str { segment, .. } => segment_ok(segment),
            Case::Extract { param, raw_query, .. } => segment_ok(param) && raw_query.as_ref().map_or(true, |q| q.chars().all(|c| (c > ' ' && c < '\u{7f}' && c != '#') || ('\u{80}'..='\u{ff}').contains(&c))),
        }
    }
    fn strategy(&self, _tier: Tier) -> BoxedStrategy<Case> {
        let body = prop_oneof![
            2 => Just(BodyKind::None),
            4 => j_strategy().prop_map(BodyKind::Json),
            2 => (j_strategy(), 0u8..6).prop_map(|(j, h)| BodyKind::JsonCorrupt(j, h)),
            3 => u_strategy().prop_map(BodyKind::Form),
            1 => (u_strategy(), 0u8..5).prop_map(|(u, h)| BodyKind::FormCorrupt(u, h)),
            2 => mp_strategy().prop_map(BodyKind::Multipart),
            2 => "\\PC{0,40}".prop_map(BodyKind::Text),
            1 => Just(BodyKind::TextInvalidUtf8),
        ];
        let ct = prop_oneof![5 => Just(CtKind::Exact), 2 => Just(CtKind::WithParams), 1 => Just(CtKind::Other), 1 => Just(CtKind::Missing), 1 => any::<u8>().prop_map(CtKind::Prefix)];
        let raw_query = prop::option::weighted(0.2, prop_oneof![Just("n=5".to_string()), Just("a=x&n=abc".to_string()), Just("a=x&n=4294967296".to_string()), Just("a".to_string()), Just("a=1&a=2".to_string()), Just("a=\u{ff}\u{fe}&n=1".to_string()), Just("a=caf\u{e9}".to_string()), Just("a=x\u{c3}".to_string())]);
        prop_oneof![
            4 => (0u8..10, any::<bool>(), int_segment(), prop::bool::weighted(0.3)).prop_map(|(ty, second, segment, extra)| Case::Int { ty, second, segment, extra }),
            2 => (0u8..3, any::<bool>(), str_segment(), prop::bool::weighted(0.3)).prop_map(|(kind, second, segment, extra)| Case::Str { kind, second, segment, extra }),
            4 => (0u8..10, prop::option::weighted(0.8, q_strategy()), raw_query, body, ct, int_segment()).prop_map(|(route, query, raw_query, body, ct, param)| Case::Extract { route, query, raw_query, body, ct, param }),
        ]
        .boxed()
    }

    fn check(&self, case: &Case, obs: &mut Obs) {
        if !self.in_domain(case) {
            return;
        }
        let host = vec![("Host".to_string(), "t".to_string())];
        let run = |method: &str, target: &str, headers: &[(String, String)], body: Option<&[u8]>| {
            let _ = take_log();
            drive::request(&self.router, method, target, headers, body)
        };
        match case {
            Case::Int { ty, second, segment, extra } => {
                let t = INT_TYPES[*ty as usize % 10];
                // `/r/…`: the handler takes one parameter, the route captures two — it gets the first ("the segment at its position")
                let target = if *second { format!("/q/{t}/first/{segment}") } else if *extra { format!("/r/{t}/{segment}/77") } else { format!("/p/{t}/{segment}") };
                if *extra && !*second {
                    obs.label("handler-takes-fewer-params-than-the-route-captures")
                }
                let o = match run("GET", &target, &host, None) {
                    Ok(o) => o,
                    Err(e) => {
                        obs.fail("malformed-response", e);
                        return;
                    }
                };
                let want = int_expect(t, segment);
                obs.nontrivial = !(segment.bytes().all(|b| b.is_ascii_digit()) && matches!(want, Some(Some(_))));
                obs.label(match &want {
                    Some(Some(_)) => "int-valid",
                    Some(None) => "int-invalid",
                    None => "int-either",
                });
                let ran: Vec<&Ev> = o.handlers();
                match want {
                    None => obs.ambiguous += 1,
                    Some(Some(v)) => {
                        let mut vals = vec![t.to_string()];
                        if *second {
                            vals.push("first".into())
                        }
                        vals.push(v.clone());
                        if ran.len() != 1 || *ran[0] != Ev::Handler(0, vals) || o.status() != 200 {
                            obs.fail("int:valid-value-not-delivered", format!("GET {target}: the segment denotes {v} as {t}; observed {}", o.summary()));
                        }
                    }
                    Some(None) => {
                        if !ran.is_empty() {
                            let dec = pct_decode_utf8(segment).unwrap_or_default();
                            let digits_prefix = dec.trim_start_matches('-').bytes().take_while(|b| b.is_ascii_digit()).count();
                            let kind = if dec.trim_start_matches('-').bytes().all(|b| b.is_ascii_digit()) && digits_prefix > 0 {
                                "out-of-range"
                            } else if digits_prefix > 0 {
                                "digits-then-garbage"
                            } else {
                                "no-digits"
                            };
                            obs.fail(format!("int:invalid-segment-accepted:{kind}"), format!("GET {target}: the segment does not denote an in-range {t}, yet the handler ran: {:?}", ran));
                        } else if o.status() < 400 {
                            obs.fail("int:invalid-segment-status", format!("GET {target}: status {}", o.status()));
                        }
                    }
                }
            }
            Case::Str { kind, second, segment, extra } => {
                let name = ["string", "cow", "str"][*kind as usize % 3];
                let target = if *second { format!("/q/{name}/first/{segment}") } else if *extra { format!("/r/{name}/{segment}/other") } else { format!("/p/{name}/{segment}") };
                if *extra && !*second {
                    obs.label("handler-takes-fewer-params-than-the-route-captures")
                }
                let o = match run("GET", &target, &host, None) {
                    Ok(o) => o,
                    Err(e) => {
                        obs.fail("malformed-response", e);
                        return;
                    }
                };
                let dec = pct_decode_utf8(segment);
                obs.nontrivial = segment.contains('%');
                let ran = o.handlers();
                match dec {
                    None => {
                        if !ran.is_empty() || o.status() < 400 {
                            obs.fail("str:undecodable-accepted", format!("GET {target}: not UTF-8 after decoding; observed {}", o.summary()));
                        }
                    }
                    Some(d) => {
                        let encoded = d != *segment;
                        if name == "str" && encoded {
                            // documented: `&str` cannot carry a percent-encoded parameter → error
                            if !ran.is_empty() || o.status() < 400 {
                                obs.fail("str:encoded-into-borrowed-str", format!("GET {target}: observed {}", o.summary()));
                            }
                        } else {
                            let mut vals = vec![name.to_string()];
                            if *second {
                                vals.push("first".into())
                            }
                            vals.push(d.clone());
                            if ran.len() != 1 || *ran[0] != Ev::Handler(0, vals) || o.status() != 200 {
                                obs.fail(format!("str:value-not-delivered:{name}"), format!("GET {target}: the segment denotes {d:?}; observed {}", o.summary()));
                            }
                        }
                    }
                }
            }
            Case::Extract { route, query, raw_query, body, ct, param } => {
                let route = *route % 10;
                let (path, method) = match route {
                    8 => ("/x/derived".to_string(), "POST"),
                    9 => ("/x/optderived".to_string(), "POST"),
                    0 => ("/x/query".to_string(), "GET"),
                    1 => ("/x/json".to_string(), "POST"),
                    2 => ("/x/optjson".to_string(), "POST"),
                    3 => ("/x/form".to_string(), "POST"),
                    4 => ("/x/multipart".to_string(), "POST"),
                    5 => ("/x/text".to_string(), "POST"),
                    6 => (format!("/x/combo/{param}"), "POST"),
                    _ => ("/x/combo4".to_string(), "POST"),
                };
                // query
                let (qs, q_val): (Option<String>, Option<Option<Q>>) = match (raw_query, query) {
                    (Some(r), _) => (Some(r.clone()), None), // hand-written odd queries: expectation below
                    (None, Some(q)) => (Some(encode_query(q)), Some(Some(q.clone()))),
                    (None, None) => (None, Some(None)),
                };
                let target = match &qs {
                    Some(q) => format!("{path}?{q}"),
                    None => path.clone(),
                };
                let bb = body_bytes(body);
                let mut headers = host.clone();
                let mime_of_body = bb.as_ref().map(|b| b.1);
                if let Some((_, mime, _)) = &bb {
                    if let Some(c) = content_type(ct, mime) {
                        headers.push(("Content-Type".into(), c));
                    }
                }
                let payload = bb.as_ref().map(|b| b.0.as_slice()).filter(|b| !b.is_empty());
                // (a hand-written query may hold characters U+0080–U+00FF: each stands for the single byte of that value, so
                // that the target on the wire is not UTF-8)
                let latin1 = raw_query.as_ref().map_or(false, |q| !q.is_ascii());
                let ran_req = if latin1 {
                    obs.label("query-bytes-not-utf8");
                    let bytes = drive::request_bytes(method, "\u{1}", &headers, payload);
                    let tb: Vec<u8> = target.chars().map(|c| c as u32 as u8).collect();
                    let at = bytes.iter().position(|b| *b == 1).expect("harness: placeholder");
                    let mut b2 = bytes[..at].to_vec();
                    b2.extend_from_slice(&tb);
                    b2.extend_from_slice(&bytes[at + 1..]);
                    let _ = take_log();
                    drive::request_prebuilt(&self.router, method, b2)
                } else {
                    run(method, &target, &headers, payload)
                };
                let o = match ran_req {
                    Ok(o) => o,
                    Err(e) => {
                        obs.fail("malformed-response", e);
                        return;
                    }
                };
                obs.nontrivial = !(matches!(ct, CtKind::Exact) && bb.as_ref().map_or(false, |b| b.2.is_some()));
                // what does the request carry?
                let carries = |mime: &str| -> Option<Option<String>> {
                    // Some(Some(v)): a valid item of this format; Some(None): an item of this format that is invalid; None: not carried
                    let (bytes, m, val) = bb.as_ref()?;
                    if *m != mime || bytes.is_empty() || !matches!(ct, CtKind::Exact | CtKind::WithParams) {
                        return None;
                    }
                    Some(val.clone())
                };
                // raw odd queries: decide by the reference grammar
                let q_carried: Option<Option<String>> = match &q_val {
                    Some(Some(q)) => Some(Some(js(q))),
                    Some(None) => Some(None), // no query string at all: `a` is missing → invalid for Query<Q>
                    None => match raw_query.as_deref() {
                        Some("n=5") | Some("a") | Some("a=x&n=abc") | Some("a=x&n=4294967296") => Some(None),
                        // no String can be made of bytes that are not UTF-8
                        Some(q) if !q.is_ascii() => Some(None),
                        _ => None, // duplicate keys: unspecified
                    },
                };
                let ran = o.handlers();
                let expect_run = |vals: Vec<String>, obs: &mut Obs, what: &str| {
                    let mut v = vec![what.to_string()];
                    v.extend(vals);
                    if ran.len() != 1 || *ran[0] != Ev::Handler(0, v.clone()) || o.status() != 200 {
                        obs.fail(format!("extract:{what}:valid-item-not-delivered"), format!("{method} {target} Content-Type {:?} body kind {:?}: expected the handler to receive {:?}; observed {}", headers.iter().find(|h| h.0 == "Content-Type").map(|h| &h.1), std::mem::discriminant(body), v, o.summary()));
                    }
                };
                let expect_refused = |obs: &mut Obs, what: &str, why: &str| {
                    if !ran.is_empty() || o.status() < 400 {
                        obs.fail(format!("extract:{what}:{why}"), format!("{method} {target} Content-Type {:?}: expected an error response and no handler run; observed {}", headers.iter().find(|h| h.0 == "Content-Type").map(|h| &h.1), o.summary()));
                    }
                };
                let _ = mime_of_body;
                match route {
                    0 => match q_carried {
                        Some(Some(v)) => expect_run(vec![v], obs, "query"),
                        Some(None) => expect_refused(obs, "query", "invalid-accepted"),
                        None => obs.ambiguous += 1,
                    },
                    1 | 3 | 4 | 5 => {
                        let (mime, what) = match route {
                            1 => ("application/json", "json"),
                            3 => ("application/x-www-form-urlencoded", "form"),
                            4 => ("multipart/form-data", "multipart"),
                            _ => ("text/plain", "text"),
                        };
                        match carries(mime) {
                            Some(Some(v)) => expect_run(vec![v], obs, what),
                            Some(None) => expect_refused(obs, what, "invalid-accepted"),
                            None => expect_refused(obs, what, "missing-item-accepted"),
                        }
                    }
                    2 => match carries("application/json") {
                        Some(Some(v)) => expect_run(vec![v], obs, "optjson"),
                        Some(None) => expect_refused(obs, "optjson", "invalid-accepted"),
                        None => expect_run(vec!["null".into()], obs, "optjson"),
                    },
                    // derived extractor over (Query<Q>, JSON<J>): it is carried when all its parts are, invalid when a part that
                    // is carried is invalid (parts are taken in declaration order)
                    8 => match (&q_carried, carries("application/json")) {
                        (None, _) => obs.ambiguous += 1,
                        (Some(Some(q)), Some(Some(j))) => expect_run(vec![q.clone(), j], obs, "derived"),
                        _ => expect_refused(obs, "derived", "invalid-or-missing-accepted"),
                    },
                    9 => match (&q_carried, carries("application/json")) {
                        // (Query's FromRequest never says "not carried": see combo4)
                        (None, _) | (Some(None), _) => obs.ambiguous += 1,
                        (Some(Some(q)), Some(Some(j))) => expect_run(vec![q.clone(), j], obs, "optderived"),
                        (Some(Some(_)), Some(None)) => expect_refused(obs, "optderived", "invalid-accepted"),
                        (Some(Some(_)), None) => expect_run(vec!["null".into()], obs, "optderived"),
                    },
                    6 => {
                        let id = int_expect("u32", param);
                        match (id, &q_carried, carries("application/json")) {
                            (None, _, _) | (_, None, _) => obs.ambiguous += 1,
                            (Some(Some(id)), Some(Some(q)), Some(Some(j))) => expect_run(vec![id, q.clone(), j], obs, "combo"),
                            _ => expect_refused(obs, "combo", "invalid-or-missing-accepted"),
                        }
                    }
                    _ => {
                        let j = carries("application/json");
                        let u = carries("application/x-www-form-urlencoded");
                        let t = carries("text/plain");
                        let invalid = matches!(j, Some(None)) || matches!(u, Some(None)) || matches!(t, Some(None));
                        match &q_carried {
                            None => obs.ambiguous += 1,
                            // Query's FromRequest never returns "not carried": an invalid/absent query is an error even under Option
                            Some(None) => obs.ambiguous += 1,
                            Some(Some(q)) => {
                                if invalid {
                                    expect_refused(obs, "combo4", "invalid-accepted")
                                } else {
                                    let f = |x: Option<Option<String>>, text: bool| match x {
                                        Some(Some(v)) => {
                                            if text {
                                                js(&v)
                                            } else {
                                                v
                                            }
                                        }
                                        _ => "null".to_string(),
                                    };
                                    expect_run(vec![q.clone(), f(j, false), f(u, false), f(t, true)], obs, "combo4")
                                }
                            }
                        }
                    }
                }
            }
        }
    }
}
