//! C14 — the CORS fang applies the configured policy to every response and preflight.

use crate::core::*;
use crate::harness::app::*;
use crate::harness::drive;
use crate::harness::gen_app::{self, GenCfg};
use crate::oracle::routes::{self, Expect};
use ohkami::__verif__::VerifRouter;
use ohkami::fang::CORS;
use ohkami::prelude::*;
use proptest::collection::vec;
use proptest::prelude::*;
use serde::{Deserialize, Serialize};
use std::collections::BTreeSet;

pub struct C14;

const ORIGINS: [&str; 3] = ["*", "https://example.com", "http://localhost:3000"];
const HEADER_NAMES: [&str; 4] = ["Content-Type", "X-Custom", "Authorization", "X-Requested-With"];

#[derive(Debug, Clone, Serialize, Deserialize)]
pub struct Policy {
    pub origin: u8,
    pub credentials: bool,
    pub allow_headers: Vec<u8>,
    pub expose_headers: Vec<u8>,
    pub max_age: Option<u32>,
}

#[derive(Debug, Clone, Serialize, Deserialize)]
pub struct CorsReq {
    pub method: M,
    pub target: String,
    /// Access-Control-Request-Method (only sent with OPTIONS)
    pub acrm: Option<String>,
    pub acrh: Option<String>,
}

#[derive(Debug, Clone, Serialize, Deserialize)]
pub struct Case {
    pub policy: Policy,
    pub app: AppDesc,
    pub requests: Vec<CorsReq>,
}

fn names(idx: &[u8]) -> Vec<&'static str> {
    idx.iter().map(|i| HEADER_NAMES[*i as usize % HEADER_NAMES.len()]).collect()
}

fn make_cors(p: &Policy) -> CORS {
    let mut c = CORS::new(ORIGINS[p.origin as usize % ORIGINS.len()]);
    if p.credentials {
        c = c.AllowCredentials();
    }
    let ah = names(&p.allow_headers);
    c = match ah.len() {
        0 => c,
        1 => c.AllowHeaders([ah[0]]),
        2 => c.AllowHeaders([ah[0], ah[1]]),
        _ => c.AllowHeaders([ah[0], ah[1], ah[2]]),
    };
    let eh = names(&p.expose_headers);
    c = match eh.len() {
        0 => c,
        1 => c.ExposeHeaders([eh[0]]),
        2 => c.ExposeHeaders([eh[0], eh[1]]),
        _ => c.ExposeHeaders([eh[0], eh[1], eh[2]]),
    };
    if let Some(m) = p.max_age {
        c = c.MaxAge(m);
    }
    c
}

fn list_set(v: Option<&str>) -> BTreeSet<String> {
    v.map(|s| s.split(',').map(|x| x.trim().to_string()).filter(|x| !x.is_empty()).collect()).unwrap_or_default()
}

impl Property for C14 {
    type Case = Case;
    const ID: &'static str = "C14";
    const RULE: &'static str = "generated: CORS policy (wildcard or specific origin, credentials flag, 0–3 allow and expose headers, optional max-age) on the root application × application trees as in C01 (a route's methods spread over several items and mounts) × up to 20 requests: simple requests with any method to registered and unregistered paths, preflights with Access-Control-Request-Method over the 7 methods, TRACE, lower case, fragments of method names and lists of several methods (none of which is a method) and optional Access-Control-Request-Headers. Oracle: reference CORS model from the statement fed with the policy and the flattened route table (Allow-Methods compared as a set). Non-trivial = preflight to a route with ≥ 2 methods or whose methods come from ≥ 2 registrations; distinct by (policy, route table, request).";
    const ASSUMPTIONS: &'static [&'static str] = &[
        "the policy sits on the root application, so its scope is every request (scoping of fangs is C04's subject)",
        "preflights asking for HEAD or OPTIONS may succeed or fail (the statement does not say)",
        "Vary is not checked",
        "requests on which the reference matcher's readings disagree about the route only have the policy headers checked",
    ];

    fn new(_: Tier) -> Self {
        C14
    }
    fn n_cases(&self, tier: Tier) -> u64 {
        tier.pick(80_000, 600_000)
    }
    fn chunk(&self, _tier: Tier) -> u64 {
        250
    }
    fn in_domain(&self, case: &Case) -> bool {
        case.requests.iter().all(|r| r.target.starts_with('/') && r.target.is_ascii() && !r.target.contains(' ') && r.acrm.as_ref().map_or(true, |s| !s.is_empty() && s.bytes().all(|b| b.is_ascii_alphanumeric() || b == b',' || b == b' ') && s.trim() == s) && r.acrh.as_ref().map_or(true, |s| !s.is_empty() && s.bytes().all(|b| b.is_ascii_alphanumeric() || b == b'-' || b == b',' || b == b' ') && s.trim() == s))
            && case.policy.allow_headers.len() <= 3
            && case.policy.expose_headers.len() <= 3
    }
    fn strategy(&self, tier: Tier) -> BoxedStrategy<Case> {
        let mut cfg = GenCfg::routing(tier);
        cfg.allow_empty_prefix = true;
        let policy = (0u8..3, any::<bool>(), vec(0u8..4, 0..=3), vec(0u8..4, 0..=3), prop::option::of(prop_oneof![Just(0u32), Just(600), any::<u32>()])).prop_map(|(origin, credentials, mut allow_headers, mut expose_headers, max_age)| {
            allow_headers.dedup();
            expose_headers.dedup();
            Policy { origin, credentials, allow_headers, expose_headers, max_age }
        });
        let acrm = prop_oneof![
            6 => (0usize..7).prop_map(|i| ALL_METHODS[i].as_str().to_string()),
            1 => Just("TRACE".to_string()),
            1 => Just("get".to_string()),
            // not a method, but text that occurs in a list of methods: fragments of names, several names at once
            1 => (0usize..43, 1usize..12).prop_map(|(at, len)| {
                const JOINED: &str = "GET, PUT, POST, PATCH, DELETE, HEAD, OPTIONS";
                let end = (at + len).min(JOINED.len());
                let t = JOINED[at.min(end - 1)..end].trim_matches(|c| c == ' ' || c == ',');
                if t.is_empty() { "T".to_string() } else { t.to_string() }
            }),
            1 => (0usize..7, 0usize..7).prop_map(|(a, b)| format!("{}, {}", ALL_METHODS[a].as_str(), ALL_METHODS[b].as_str())),
        ];
        let acrh = prop::option::of(prop_oneof![Just("X-Custom".to_string()), Just("content-type, x-custom".to_string()), Just("X-A,X-B".to_string())]);
        let extra = (prop::bool::weighted(0.6), acrm, acrh);
        (policy, gen_app::app_strategy(cfg), vec((gen_app::recipe(), extra), 1..=20))
            .prop_map(|(policy, app, recipes)| {
                let flat = flatten(&app);
                let requests = recipes
                    .iter()
                    .map(|(r, (preflight, acrm, acrh))| {
                        let rq = gen_app::concretize(&flat, r);
                        if *preflight {
                            CorsReq { method: M::OPTIONS, target: rq.target, acrm: Some(acrm.clone()), acrh: acrh.clone() }
                        } else {
                            CorsReq { method: rq.method, target: rq.target, acrm: None, acrh: None }
                        }
                    })
                    .collect();
                Case { policy, app, requests }
            })
            .boxed()
    }

    fn check(&self, case: &Case, obs: &mut Obs) {
        let flat = flatten(&case.app);
        let router = match panic::catch(std::panic::AssertUnwindSafe(|| VerifRouter::new(build_into(&case.app, None, Ohkami::with(make_cors(&case.policy), ()))))) {
            Ok(r) => r,
            Err(pi) if is_refusal(&pi.msg) && !pi.msg.contains("Can't merge Ohkamis") => {
                obs.fail(format!("valid-configuration-refused:{}", crate::core::panic::stem(&pi.msg).chars().take(50).collect::<String>()), format!("the application was refused at build time: {}", pi.msg));
                return;
            }
            Err(pi) if is_refusal(&pi.msg) => {
                obs.label_dyn(&format!("refusal:{}", crate::core::panic::stem(&pi.msg).chars().take(60).collect::<String>()));
                obs.rejected_config = true;
                return;
            }
            Err(pi) => {
                obs.fail(format!("construction-{}", pi.key()), pi.describe());
                return;
            }
        };
        let origin = ORIGINS[case.policy.origin as usize % ORIGINS.len()];
        let creds = case.policy.credentials && origin != "*";
        let expose = names(&case.policy.expose_headers).join(", ");
        let allow = names(&case.policy.allow_headers).join(", ");
        let shape = fnv(format!("{:?}{:?}", case.policy, flat.routes.iter().map(|r| (lit(&r.segs), r.method, r.item_no)).collect::<Vec<_>>()).as_bytes());
        for rq in &case.requests {
            obs.evals += 1;
            let path = rq.target.split('?').next().unwrap().as_bytes();
            let mut headers = vec![("Host".to_string(), "t".to_string()), ("Origin".to_string(), "https://client.example".to_string())];
            if rq.method == M::OPTIONS {
                if let Some(m) = &rq.acrm {
                    headers.push(("Access-Control-Request-Method".into(), m.clone()));
                }
                if let Some(h) = &rq.acrh {
                    headers.push(("Access-Control-Request-Headers".into(), h.clone()));
                }
            }
            let ctx = format!("{} {} ACRM={:?} ACRH={:?}", rq.method.as_str(), rq.target, rq.acrm, rq.acrh);
            let o = match drive::request(&router, rq.method.as_str(), &rq.target, &headers, None) {
                Ok(o) => o,
                Err(e) => {
                    let key = if e.contains("neither Content-Length nor chunked") { "preflight:response-without-declared-length" } else { "malformed-response" };
                    obs.fail(key, format!("{ctx}: {e}"));
                    continue;
                }
            };
            let Some(res) = &o.res else {
                obs.fail("no-response", format!("{ctx}: connection closed without a response"));
                continue;
            };
            // policy headers on every response
            if res.get_all("Access-Control-Allow-Origin") != vec![origin] {
                obs.fail("policy:allow-origin", format!("{ctx}: Access-Control-Allow-Origin {:?}, expected {origin:?} (status {})", res.get_all("Access-Control-Allow-Origin"), res.status));
            }
            let acac = res.get_all("Access-Control-Allow-Credentials");
            if creds && acac != vec!["true"] {
                obs.fail("policy:allow-credentials-missing", format!("{ctx}: Access-Control-Allow-Credentials {acac:?}, expected true"));
            }
            if !creds && !acac.is_empty() {
                obs.fail("policy:allow-credentials-unexpected", format!("{ctx}: Access-Control-Allow-Credentials {acac:?} although credentials are {} for origin {origin}", if case.policy.credentials { "requested on a wildcard" } else { "off" }));
            }
            let aceh = res.get_all("Access-Control-Expose-Headers");
            if expose.is_empty() {
                if !aceh.is_empty() {
                    obs.fail("policy:expose-headers", format!("{ctx}: unexpected Access-Control-Expose-Headers {aceh:?}"));
                }
            } else if aceh != vec![expose.as_str()] {
                obs.fail("policy:expose-headers", format!("{ctx}: Access-Control-Expose-Headers {aceh:?}, expected {expose:?}"));
            }
            // preflight
            let (Some(acrm), true) = (&rq.acrm, rq.method == M::OPTIONS) else { continue };
            // which route does the path denote? (all methods: the preflight asks about the resource)
            let mut regs: Option<BTreeSet<M>> = None;
            let mut undecided = false;
            {
                let mut found: Vec<Option<Vec<Seg>>> = Vec::new();
                for m in REG_METHODS {
                    let r = routes::expect(&flat, m, path);
                    for e in [&r.b_best, &r.b_greedy] {
                        // pattern found irrespective of method: use reading B on each method and collect
                        if let Expect::Hit(i, _) = e {
                            found.push(Some(flat.routes[*i].segs.clone()));
                        }
                    }
                    if r.b_best != r.b_greedy {
                        undecided = true
                    }
                }
                let mut pats: Vec<Vec<Seg>> = found.into_iter().flatten().collect();
                pats.dedup_by(|a, b| unify_eq(a, b));
                let distinct: Vec<&Vec<Seg>> = {
                    let mut v: Vec<&Vec<Seg>> = Vec::new();
                    for p in &pats {
                        if !v.iter().any(|q| unify_eq(q, p)) {
                            v.push(p)
                        }
                    }
                    v
                };
                if distinct.len() > 1 {
                    undecided = true
                } else if let Some(p) = distinct.first() {
                    regs = Some(flat.routes.iter().filter(|r| unify_eq(&r.segs, p)).map(|r| r.method).collect());
                }
            }
            if undecided || crate::props::c01::classify(&flat, path) == "dup-param-at-mount-boundary" {
                obs.ambiguous += 1;
                continue;
            }
            let registered = regs.unwrap_or_default();
            let items: BTreeSet<usize> = flat.routes.iter().filter(|r| registered.contains(&r.method) && routes::split_path(path).map_or(false, |req| r.segs.len() == req.len())).map(|r| r.item_no).collect();
            let split = {
                // the route's methods were registered by more than one item
                let pat = flat.routes.iter().find(|r| matches!(routes::expect(&flat, r.method, path).b_best, Expect::Hit(i, _) if unify_eq(&flat.routes[i].segs, &r.segs))).map(|r| r.segs.clone());
                match pat {
                    Some(p) => flat.routes.iter().filter(|r| unify_eq(&r.segs, &p)).map(|r| r.item_no).collect::<BTreeSet<_>>().len() > 1,
                    None => false,
                }
            };
            let _ = items;
            if registered.len() >= 2 || split {
                obs.nontrivial_sub(fnv(format!("{shape}:{ctx}").as_bytes()));
            }
            let tag = if split { "route-methods-split" } else { "plain" };
            let asked: Option<M> = ALL_METHODS.iter().copied().find(|m| m.as_str() == acrm);
            let must_succeed = asked.map_or(false, |m| registered.contains(&m));
            let either = matches!(asked, Some(M::HEAD) | Some(M::OPTIONS));
            let success = (200..300).contains(&res.status);
            if either {
                obs.ambiguous += 1;
            } else if must_succeed && !success {
                obs.fail(format!("preflight:{tag}:refused-although-method-registered"), format!("{ctx}: registered {:?}; status {} Allow-Methods {:?}", registered, res.status, res.get("Access-Control-Allow-Methods")));
                continue;
            } else if !must_succeed && !(400..500).contains(&res.status) {
                obs.fail(format!("preflight:{tag}:not-4xx-although-method-unregistered"), format!("{ctx}: registered {:?}; status {}", registered, res.status));
                continue;
            }
            if success {
                if !res.body.is_empty() {
                    obs.fail("preflight:body", format!("{ctx}: successful preflight carries a body of {} bytes", res.body.len()));
                }
                let mut want: BTreeSet<String> = registered.iter().map(|m| m.as_str().to_string()).collect();
                if registered.contains(&M::GET) {
                    want.insert("HEAD".into());
                }
                want.insert("OPTIONS".into());
                let got = list_set(res.get("Access-Control-Allow-Methods"));
                if got != want {
                    obs.fail(format!("preflight:{tag}:allow-methods"), format!("{ctx}: Access-Control-Allow-Methods {got:?}, expected {want:?}"));
                }
                let want_h = if !allow.is_empty() { Some(allow.clone()) } else { rq.acrh.clone() };
                let got_h = res.get("Access-Control-Allow-Headers").map(|s| s.to_string());
                if got_h != want_h {
                    obs.fail("preflight:allow-headers", format!("{ctx}: Access-Control-Allow-Headers {got_h:?}, expected {want_h:?}"));
                }
                let want_age = case.policy.max_age.map(|m| m.to_string());
                let got_age = res.get("Access-Control-Max-Age").map(|s| s.to_string());
                if got_age != want_age {
                    obs.fail("preflight:max-age", format!("{ctx}: Access-Control-Max-Age {got_age:?}, expected {want_age:?}"));
                }
            }
        }
    }
}
