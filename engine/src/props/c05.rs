//! C05 — requests on a keep-alive connection are handled independently and in order.

use crate::core::*;
use crate::harness::drive::{self, ReadOutcome, ScriptedReader};
use crate::harness::echo;
use crate::harness::gen_req::{self, WReq};
use ohkami::__verif__::VerifRouter;
use proptest::collection::vec;
use proptest::prelude::*;
use serde::{Deserialize, Serialize};

pub struct C05 {
    router: VerifRouter,
}

#[derive(Debug, Clone, Serialize, Deserialize)]
pub struct Case {
    pub requests: Vec<WReq>,
    /// also run the sequence through the real `Session::manage` over a socketpair
    pub real_session: bool,
}

pub fn echo_wreq() -> impl Strategy<Value = WReq> {
    (gen_req::wreq(), 0u8..8, "[a-zA-Z0-9._~-]{1,6}", "[a-zA-Z0-9%._~-]{1,6}", prop::option::weighted(0.25, "[a-z0-9]{1,8}"), prop::option::weighted(0.2, prop_oneof![3 => Just("close"), 2 => Just("Close"), 2 => Just("keep-alive"), 1 => Just("Keep-Alive"), 1 => Just("TE"), 1 => Just("keep-alive, TE"), 1 => Just("Upgrade, HTTP2-Settings"), 1 => Just("upgrade")]), vec(gen_req::header_line(), 0..5), prop::option::weighted(0.08, (0u8..4, any::<prop::sample::Index>()))).prop_map(
        |(mut w, kind, a, b, ctx, conn, fewer_headers, poison)| {
            let query = w.target.split_once('?').map(|(_, q)| q.to_string());
            let b = if crate::oracle::http::pct_decode_strict(b.as_bytes()).ok().and_then(|x| String::from_utf8(x).ok()).is_some() { b } else { "b".to_string() };
            let mut t = echo::echo_target(kind, &a, &b);
            if let Some(q) = query {
                t = format!("{t}?{q}");
            }
            w.target = t;
            // keep the head well below the 1 KiB buffer (the quantifier varies body sizes, not head sizes)
            if w.to_bytes().len() - w.body.as_ref().map_or(0, |b| b.len()) > 700 {
                w.headers = fewer_headers;
            }
            if let Some(c) = ctx {
                // (every fourth of them also asks the fang of the `/ctx` mount to strip the Connection header)
                if c.len() % 4 == 0 {
                    w.headers.push(("X-Strip-Hop".into(), "1".into()));
                }
                w.headers.push(("X-Set-Ctx".into(), c));
            }
            if let Some(c) = conn {
                w.headers.push(("Connection".into(), c.to_string()));
            }
            if let Some((kind, at)) = poison {
                // a request the parser refuses (400) after it has stored the header lines before the broken one;
                // no body, so that nothing of it stays in the stream
                w.body = None;
                if kind == 3 {
                    // another protocol version (505): the request line ends inside what `to_bytes` writes as the target
                    w.target = format!("{} HTTP/1.0\r\nX-Rest-Of-Line:", w.target.split('?').next().unwrap());
                } else {
                    let line = match kind {
                        0 => ("X-Bro\rken".to_string(), "v".to_string()),
                        1 => ("Content-Length".to_string(), "1x".to_string()),
                        _ => ("No colon here\r\nX-After".to_string(), "v".to_string()),
                    };
                    let i = at.index(w.headers.len() + 1);
                    w.headers.insert(i, line);
                }
            }
            w
        },
    )
}

pub fn head_len(bytes: &[u8]) -> usize {
    bytes.windows(4).position(|x| x == b"\r\n\r\n").map(|i| i + 4).unwrap_or(bytes.len())
}

pub fn wants_close(w: &WReq) -> Option<bool> {
    // Some(true): `Connection: close`/`Close`; Some(false): keeps alive; None: other spellings (either)
    let vals: Vec<&str> = w.headers.iter().filter(|(n, _)| n.eq_ignore_ascii_case("Connection")).map(|(_, v)| v.as_str()).collect();
    if vals.is_empty() {
        return Some(false);
    }
    if vals.len() == 1 && (vals[0] == "close" || vals[0] == "Close") {
        return Some(true);
    }
    if vals.iter().all(|v| !v.to_ascii_lowercase().contains("close")) {
        return Some(false);
    }
    None
}

pub fn wreq_in_domain(w: &WReq) -> bool {
    let b = w.to_bytes();
    matches!(crate::oracle::http::parse_request(&b), Ok(r) if r.consumed == b.len() && r.head_len <= 900) && wants_close(w).is_some()
}

/// One of the four refused shapes `echo_wreq` builds: a CR inside a header name, a header line without a colon, a
/// Content-Length that is not a number, another protocol version. No body, head below the buffer size; the strict reference parser rejects it too.
pub fn is_poison(w: &WReq) -> bool {
    let b = w.to_bytes();
    let broken = w.headers.iter().any(|(n, v)| n.contains('\r') || (n.eq_ignore_ascii_case("Content-Length") && v.parse::<u64>().is_err())) || w.target.contains(" HTTP/1.0\r\n");
    broken && w.body.is_none() && b.len() <= 900 && crate::oracle::http::parse_request(&b).is_err()
}

/// how many complete responses does this byte string hold? (HEAD flags by request order)
pub fn count_complete(bytes: &[u8], heads: &[bool]) -> usize {
    let mut n = 0;
    let mut rest = bytes;
    while !rest.is_empty() {
        match crate::oracle::http::parse_response(rest, heads.get(n).copied().unwrap_or(false)) {
            Ok(r) => {
                rest = &rest[r.consumed..];
                n += 1
            }
            Err(_) => break,
        }
    }
    n
}

impl Property for C05 {
    type Case = Case;
    const ID: &'static str = "C05";
    const RULE: &'static str = "generated: sequences of 1–6 requests, well-formed ones (C02's generator: any method, escaped targets and queries, header sets in any case, repeated names, bodies of arbitrary bytes incl. leading NUL and sizes around the 1 KiB buffer) aimed at a fixed echo application (0–2 path params, a context-setting fang on one mount that also strips the request's Connection header on demand, handlers that reflect method, path, params, query, every header, payload length+hash and context presence; one route answers with a chunked event stream), some with Connection: close or other Connection options, and a share of refused requests (400) in between; each request delivered as one segment, the next only after the previous response. Executed (a) through the session loop re-stated over a scripted reader (real clear/read/handle/send) and (b) for a quarter of the cases through the real Session::manage over a socketpair. Oracle (metamorphic): the bytes of the k-th response equal the bytes the same request produces alone on a fresh connection (clock frozen); order preserved; nothing after Connection: close. Non-trivial = k ≥ 2 and an earlier request had a body, a custom header or set a context entry; distinct by case.";
    const ASSUMPTIONS: &'static [&'static str] = &[
        "request heads stay below the 1 KiB buffer (the quantifier varies body sizes)",
        "Connection values: close, Close, keep-alive, Keep-Alive, TE, `keep-alive, TE`, `Upgrade, HTTP2-Settings`, upgrade; lists naming close and other spellings of close (CLOSE) are not generated (the code compares with close/Close only, RFC 9110 compares case-insensitively: either reading would be defensible)",
        "8% of the requests are refused ones (CR in a header name, a header line without a colon, a non-numeric Content-Length, `HTTP/1.0`; no body): the expected answer is the 400 the same bytes get alone, and the connection goes on",
        "the socketpair poses as a TcpStream; the kernel's TCP stack is not exercised",
    ];

    fn new(_: Tier) -> Self {
        drive::freeze_clock();
        std::env::set_var("OHKAMI_KEEPALIVE_TIMEOUT", "6");
        C05 { router: echo::echo_router() }
    }
    fn n_cases(&self, tier: Tier) -> u64 {
        tier.pick(100_000, 600_000)
    }
    fn chunk(&self, _tier: Tier) -> u64 {
        2000
    }
    fn fail_fast(&self) -> bool {
        // a request that gets no answer through the real session costs seconds of waiting per case
        true
    }
    fn in_domain(&self, case: &Case) -> bool {
        !case.requests.is_empty() && case.requests.iter().all(|w| wreq_in_domain(w) || is_poison(w))
    }
    fn strategy(&self, tier: Tier) -> BoxedStrategy<Case> {
        (vec(echo_wreq(), 1..=6), prop::bool::weighted(tier.pick(0.25, 0.3)), prop::option::weighted(0.004, (any::<prop::sample::Index>(), 2_000_000u32..6_000_000)))
            .prop_map(|(mut requests, real_session, big)| {
                // now and then an upload of megabytes (the body bytes are a fixed pattern, the case stores their number)
                if let Some((at, n)) = big {
                    let i = at.index(requests.len());
                    let w = &mut requests[i];
                    if !is_poison(w) {
                        w.body.get_or_insert_with(Vec::new);
                        w.pad = n;
                    }
                }
                Case { requests, real_session }
            })
            .boxed()
    }

    fn check(&self, case: &Case, obs: &mut Obs) {
        if !self.in_domain(case) {
            obs.label("out-of-domain");
            return;
        }
        let bytes: Vec<Vec<u8>> = case.requests.iter().map(|w| w.to_bytes()).collect();
        let heads: Vec<bool> = case.requests.iter().map(|w| w.method == "HEAD").collect();
        if case.requests.iter().any(|w| w.pad > 0) {
            obs.label("body-of-megabytes");
        }
        // expectation: each request alone on a fresh connection
        let mut solo: Vec<Vec<u8>> = Vec::new();
        for b in &bytes {
            match drive::drive_one(&self.router, b) {
                Ok(ex) if ex.outcome == ReadOutcome::Handled => solo.push(ex.wire),
                Ok(ex) if ex.outcome == ReadOutcome::Refused && is_poison(&case.requests[solo.len()]) => {
                    obs.label("refused-request-in-sequence");
                    solo.push(ex.wire)
                }
                Ok(ex) => {
                    obs.fail("solo-request-not-handled", format!("{:?} alone on a fresh connection: {:?}", String::from_utf8_lossy(&b[..b.len().min(120)]), ex.outcome));
                    return;
                }
                Err(e) => {
                    obs.fail("HARNESS-BUG executor", e);
                    return;
                }
            }
        }
        // a refused request is answered with 400 and the connection stays open, whatever its Connection header said
        let close_at = case.requests.iter().position(|w| !is_poison(w) && wants_close(w) == Some(true));
        let expected: Vec<&Vec<u8>> = match close_at {
            Some(i) => solo[..=i].iter().collect(),
            None => solo.iter().collect(),
        };
        // non-triviality
        let earlier_state = |k: usize| case.requests[..k].iter().any(|w| w.body.is_some() || w.headers.iter().any(|(n, _)| !gen_req::STD_NAMES.iter().any(|s| s.eq_ignore_ascii_case(n))));
        obs.nontrivial = (1..case.requests.len()).any(earlier_state);
        obs.evals = case.requests.len() as u64;
        // (a) the session loop over a scripted reader
        let mut reader = ScriptedReader::new(bytes.clone());
        let exchanges = match drive::drive_conn(&self.router, &mut reader, case.requests.len() + 2) {
            Ok(x) => x,
            Err(e) => {
                obs.fail("HARNESS-BUG executor", e);
                return;
            }
        };
        let answered: Vec<&drive::Exchange> = exchanges.iter().filter(|e| e.outcome != ReadOutcome::Closed).collect();
        for (k, want) in expected.iter().enumerate() {
            match answered.get(k) {
                None => {
                    obs.fail("response-missing", format!("request #{k} of {} got no response on the shared connection", case.requests.len()));
                    break;
                }
                Some(ex) => {
                    if &&ex.wire != want {
                        let what = diff_summary(&ex.wire, want);
                        obs.fail(format!("response-differs-from-fresh-connection:{}", what.0), format!("request #{k}: {}", what.1));
                        break;
                    }
                }
            }
        }
        if answered.len() > expected.len() {
            let key = if close_at.is_some() { "answered-after-connection-close" } else { "extra-response" };
            obs.fail(key, format!("{} responses for {} expected", answered.len(), expected.len()));
        }
        // (b) the real session over a socketpair
        if case.real_session {
            obs.label("real-session");
            let wait: Vec<bool> = vec![true; bytes.len()];
            let heads2 = heads.clone();
            match crate::harness::sock::run_session(&self.router, &bytes, &wait, move |b| count_complete(b, &heads2)) {
                Err(e) => obs.fail("real-session:did-not-end", e),
                Ok(got) => {
                    let want: Vec<u8> = expected.iter().flat_map(|v| v.iter().copied()).collect();
                    if got != want {
                        let what = diff_summary(&got, &want);
                        obs.fail(format!("real-session:stream-differs:{}", what.0), format!("through Session::manage over a socketpair: {}", what.1));
                    }
                }
            }
        }
    }
}

/// (coarse class, readable description) of the first difference between two response byte strings
pub fn diff_summary(got: &[u8], want: &[u8]) -> (&'static str, String) {
    let pos = got.iter().zip(want).position(|(a, b)| a != b).unwrap_or(got.len().min(want.len()));
    let line_of = |b: &[u8]| -> String {
        let start = b[..pos.min(b.len())].iter().rposition(|c| *c == b'\n').map(|i| i + 1).unwrap_or(0);
        let end = b[pos.min(b.len())..].iter().position(|c| *c == b'\n').map(|i| pos + i).unwrap_or(b.len());
        String::from_utf8_lossy(&b[start..end.min(start + 200)]).into_owned()
    };
    let (gl, wl) = (line_of(got), line_of(want));
    let class = if got.is_empty() {
        "no-bytes"
    } else if got.get(..12) != want.get(..12) {
        "status"
    } else if wl.starts_with("headers=") {
        "headers-seen-by-handler"
    } else if wl.starts_with("payload=") {
        "payload-seen-by-handler"
    } else if wl.starts_with("ctx=") {
        "context-seen-by-handler"
    } else if wl.starts_with("params=") || wl.starts_with("path=") || wl.starts_with("query=") || wl.starts_with("method=") {
        "target-seen-by-handler"
    } else {
        "other"
    };
    (class, format!("first difference at byte {pos}: got {gl:?}, expected {wl:?} (lengths {} vs {})", got.len(), want.len()))
}
