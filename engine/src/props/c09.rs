//! C09 — URL-encoded serialization round-trips and decodes per percent-encoding rules.

use crate::core::*;
use crate::harness::app::permutation;
use crate::harness::drive;
use ohkami::__verif__::{Routing, VerifRouter};
use ohkami::prelude::*;
use ohkami_lib::serde_urlencoded::{from_bytes, to_string};
use proptest::collection::vec;
use proptest::prelude::*;
use serde::{de::DeserializeOwned, Deserialize, Serialize};
use std::collections::BTreeMap;
use std::fmt::Debug;
use std::panic::AssertUnwindSafe;

pub struct C09 {
    router: VerifRouter,
}

// ---------------------------------------------------------------- catalogue: the compiled types under test

#[derive(Serialize, Deserialize, PartialEq, Debug, Clone, Copy)]
pub enum Plain {
    Alpha,
    Beta,
    Gamma9,
}
#[derive(Serialize, Deserialize, PartialEq, Debug, Clone, Copy)]
#[serde(rename_all = "kebab-case")]
pub enum Kebab {
    FooBar,
    BazQux,
    Single,
}
#[derive(Serialize, Deserialize, PartialEq, Debug, Clone, Copy)]
#[serde(rename_all = "snake_case")]
pub enum Snake {
    FooBar,
    BazQux,
    Single,
}
/// the names serde gives the variants above, written down by hand (the independent encoder uses these)
const PLAIN_NAMES: [&str; 3] = ["Alpha", "Beta", "Gamma9"];
const KEBAB_NAMES: [&str; 3] = ["foo-bar", "baz-qux", "single"];
const SNAKE_NAMES: [&str; 3] = ["foo_bar", "baz_qux", "single"];
const PLAINS: [Plain; 3] = [Plain::Alpha, Plain::Beta, Plain::Gamma9];
const KEBABS: [Kebab; 3] = [Kebab::FooBar, Kebab::BazQux, Kebab::Single];
const SNAKES: [Snake; 3] = [Snake::FooBar, Snake::BazQux, Snake::Single];

#[derive(Serialize, Deserialize, PartialEq, Debug, Clone)]
pub struct Id(u64);
#[derive(Serialize, Deserialize, PartialEq, Debug, Clone)]
pub struct Name(String);

/// one field of the type under test between two harmless neighbours (so that a field that eats or
/// leaves bytes of its section is noticed)
#[derive(Serialize, Deserialize, PartialEq, Debug, Clone)]
pub struct W<T> {
    a: u8,
    x: T,
    z: String,
}

/// field names that are not identifiers (serde `rename`): reserved characters, an escape look-alike, a space, non-ASCII
#[derive(Serialize, Deserialize, PartialEq, Debug, Clone)]
pub struct Renamed {
    #[serde(rename = "q&a")]
    qa: String,
    #[serde(rename = "price=net")]
    price: i32,
    #[serde(rename = "100%25")]
    pct: String,
    #[serde(rename = "a b")]
    sp: String,
    #[serde(rename = "naïve+")]
    nv: String,
}
const RENAMED_FIELDS: [&str; 5] = ["q&a", "price=net", "100%25", "a b", "naïve+"];

#[derive(Serialize, Deserialize, PartialEq, Debug, Clone)]
pub struct Scalars {
    b: bool,
    i8v: i8,
    i16v: i16,
    i32v: i32,
    i64v: i64,
    u8v: u8,
    u16v: u16,
    u32v: u32,
    u64v: u64,
    f32v: f32,
    f64v: f64,
    s: String,
    os: Option<String>,
    oi: Option<i64>,
    ob: Option<bool>,
    e: Plain,
    oe: Option<Plain>,
    id: Id,
    name: Name,
    oid: Option<Id>,
    u: (),
}
const SCALAR_FIELDS: [&str; 21] = ["b", "i8v", "i16v", "i32v", "i64v", "u8v", "u16v", "u32v", "u64v", "f32v", "f64v", "s", "os", "oi", "ob", "e", "oe", "id", "name", "oid", "u"];

// ---------------------------------------------------------------- the case (JSON-friendly model of a value)

/// one field value; floats are carried as bit patterns (JSON has no NaN/inf), enum variants as indices
#[derive(Debug, Clone, Serialize, Deserialize, PartialEq)]
pub enum F {
    Bool(bool),
    I8(i8),
    I16(i16),
    I32(i32),
    I64(i64),
    U8(u8),
    U16(u16),
    U32(u32),
    U64(u64),
    I128 { hi: i64, lo: u64 },
    U128 { hi: u64, lo: u64 },
    F32(u32),
    F64(u64),
    Char(char),
    Str(String),
    OptStr(Option<String>),
    OptI64(Option<i64>),
    OptBool(Option<bool>),
    OptChar(Option<char>),
    OptF64(Option<u64>),
    Plain(u8),
    Kebab(u8),
    Snake(u8),
    OptKebab(Option<u8>),
    OptPlain(Option<u8>),
    Id(u64),
    OptId(Option<u64>),
    Name(String),
    OptName(Option<String>),
    Unit,
    VecStr(Vec<String>),
    VecI64(Vec<i64>),
    Tup1(String),
    Tup2(String, i32),
    Tup2s(String, String),
    Tup5(String, i64, String, u8, String),
}

#[derive(Debug, Clone, Serialize, Deserialize, PartialEq)]
pub struct ScalarM {
    pub b: bool,
    pub i8v: i8,
    pub i16v: i16,
    pub i32v: i32,
    pub i64v: i64,
    pub u8v: u8,
    pub u16v: u16,
    pub u32v: u32,
    pub u64v: u64,
    pub f32b: u32,
    pub f64b: u64,
    pub s: String,
    pub os: Option<String>,
    pub oi: Option<i64>,
    pub ob: Option<bool>,
    pub e: u8,
    pub oe: Option<u8>,
    pub id: u64,
    pub name: String,
    pub oid: Option<u64>,
}

#[derive(Debug, Clone, Serialize, Deserialize, PartialEq)]
pub enum Val {
    One { a: u8, x: F, z: String },
    Scalars(ScalarM),
    /// a `BTreeMap<String, String>` (later duplicates of a key are dropped)
    Map(Vec<(String, String)>),
    /// the struct whose fields are renamed to non-identifiers
    Renamed { qa: String, price: i32, pct: String, sp: String, nv: String },
}

#[derive(Debug, Clone, Serialize, Deserialize, PartialEq)]
pub struct Extra {
    pub key: String,
    pub value: String,
    pub at: u8,
}

/// choices of the independent encoder
#[derive(Debug, Clone, Serialize, Deserialize, PartialEq)]
pub struct Style {
    /// consumed cyclically, one per character: `c % 3` = 0 raw when allowed / 1, 2 escape; bits of `c / 3` = hex case per byte
    pub choices: Vec<u8>,
    pub perm: u64,
    pub extras: Vec<Extra>,
    /// floats written in exponent notation
    pub exp: bool,
    /// number / bool texts are escaped like any other text (otherwise they stay raw: all their characters are unreserved)
    pub escape_literals: bool,
}

#[derive(Debug, Clone, Serialize, Deserialize)]
pub enum Case {
    Roundtrip(Val),
    Decode { val: Val, style: Style },
}

// ---------------------------------------------------------------- independent text form and encoder

fn f32_text(bits: u32, exp: bool) -> String {
    let v = f32::from_bits(bits);
    if exp && v.is_finite() {
        format!("{v:e}")
    } else {
        format!("{v}")
    }
}
fn f64_text(bits: u64, exp: bool) -> String {
    let v = f64::from_bits(bits);
    if exp && v.is_finite() {
        format!("{v:e}")
    } else {
        format!("{v}")
    }
}

/// The unencoded text of a field: `(elements, is_sequence)`; each element is `(text, literal)` where
/// `literal` = the target type is not a string (number, bool, variant name stays out: see `class_of`).
/// A non-sequence is one element; an absent option / unit is the empty text. `None`: the type has no
/// URL-encoded form (128-bit integers).
fn texts(f: &F, exp: bool) -> Option<(Vec<(String, bool)>, bool)> {
    let lit = |s: String| Some((vec![(s, true)], false));
    let text = |s: String| Some((vec![(s, false)], false));
    let b = |v: bool| if v { "true".to_string() } else { "false".to_string() };
    match f {
        F::Bool(v) => lit(b(*v)),
        F::I8(v) => lit(v.to_string()),
        F::I16(v) => lit(v.to_string()),
        F::I32(v) => lit(v.to_string()),
        F::I64(v) => lit(v.to_string()),
        F::U8(v) => lit(v.to_string()),
        F::U16(v) => lit(v.to_string()),
        F::U32(v) => lit(v.to_string()),
        F::U64(v) => lit(v.to_string()),
        F::I128 { .. } | F::U128 { .. } => None,
        F::F32(bits) => lit(f32_text(*bits, exp)),
        F::F64(bits) => lit(f64_text(*bits, exp)),
        F::Char(c) => text(c.to_string()),
        F::Str(s) | F::Name(s) => text(s.clone()),
        F::OptStr(o) | F::OptName(o) => text(o.clone().unwrap_or_default()),
        F::OptI64(o) => lit(o.map(|v| v.to_string()).unwrap_or_default()),
        F::OptBool(o) => lit(o.map(b).unwrap_or_default()),
        F::OptChar(o) => text(o.map(|c| c.to_string()).unwrap_or_default()),
        F::OptF64(o) => lit(o.map(|bits| f64_text(bits, exp)).unwrap_or_default()),
        F::Plain(i) => text(PLAIN_NAMES[*i as usize % 3].into()),
        F::Kebab(i) => text(KEBAB_NAMES[*i as usize % 3].into()),
        F::Snake(i) => text(SNAKE_NAMES[*i as usize % 3].into()),
        F::OptKebab(o) => text(o.map(|i| KEBAB_NAMES[i as usize % 3].to_string()).unwrap_or_default()),
        F::OptPlain(o) => text(o.map(|i| PLAIN_NAMES[i as usize % 3].to_string()).unwrap_or_default()),
        F::Id(v) => lit(v.to_string()),
        F::OptId(o) => lit(o.map(|v| v.to_string()).unwrap_or_default()),
        F::Unit => text(String::new()),
        F::VecStr(v) => Some((v.iter().map(|s| (s.clone(), false)).collect(), true)),
        F::VecI64(v) => Some((v.iter().map(|i| (i.to_string(), true)).collect(), true)),
        F::Tup1(a) => Some((vec![(a.clone(), false)], true)),
        F::Tup2(a, b) => Some((vec![(a.clone(), false), (b.to_string(), true)], true)),
        F::Tup2s(a, b) => Some((vec![(a.clone(), false), (b.clone(), false)], true)),
        F::Tup5(a, b, c, d, e) => Some((vec![(a.clone(), false), (b.to_string(), true), (c.clone(), false), (d.to_string(), true), (e.clone(), false)], true)),
    }
}

/// RFC 3986 `query` characters that need no escape and carry no meaning in `k=v&…` (so `&`, `=` are out)
fn allowed_raw(c: char) -> bool {
    c.is_ascii_alphanumeric() || "-._~!$'()*+,;:@/?".contains(c)
}

struct Enc<'a> {
    choices: &'a [u8],
    i: usize,
    raw_plus: bool,
    escapes: usize,
}
impl<'a> Enc<'a> {
    fn new(choices: &'a [u8]) -> Self {
        Enc { choices, i: 0, raw_plus: false, escapes: 0 }
    }
    fn next(&mut self) -> u8 {
        if self.choices.is_empty() {
            return 0;
        }
        let c = self.choices[self.i % self.choices.len()];
        self.i += 1;
        c
    }
    /// `keep_raw`: never escape a character that may stand raw (used for number / bool texts)
    fn put(&mut self, out: &mut String, s: &str, in_sequence: bool, keep_raw: bool) {
        for ch in s.chars() {
            let c = self.next();
            let raw_ok = allowed_raw(ch) && !(in_sequence && ch == ',');
            if raw_ok && (keep_raw || c % 3 == 0) {
                if ch == '+' {
                    self.raw_plus = true
                }
                out.push(ch);
            } else {
                let mut buf = [0u8; 4];
                for (j, b) in ch.encode_utf8(&mut buf).bytes().enumerate() {
                    let lower = ((c / 3) >> j) & 1 == 1;
                    self.escapes += 1;
                    if lower {
                        out.push_str(&format!("%{b:02x}"))
                    } else {
                        out.push_str(&format!("%{b:02X}"))
                    }
                }
            }
        }
    }
}

/// one `key=value` part before encoding
#[derive(Debug, Clone)]
struct Pair {
    key: String,
    /// `(text, literal)`
    elems: Vec<(String, bool)>,
    seq: bool,
}
impl Pair {
    fn text(k: &str, v: String) -> Pair {
        Pair { key: k.to_string(), elems: vec![(v, false)], seq: false }
    }
    fn literal(k: &str, v: String) -> Pair {
        Pair { key: k.to_string(), elems: vec![(v, true)], seq: false }
    }
    /// what RFC 3986 percent-decoding of the value part yields
    fn value(&self) -> String {
        self.elems.iter().map(|(t, _)| t.as_str()).collect::<Vec<_>>().join(",")
    }
}

struct Encoded {
    text: String,
    /// pairs in wire order
    order: Vec<Pair>,
    /// the encoded value part of each pair, parallel to `order`
    wire_values: Vec<String>,
    raw_plus: bool,
    escapes: usize,
    rearranged: bool,
}
impl Encoded {
    fn wire_of(&self, key: &str) -> &str {
        self.order.iter().position(|p| p.key == key).map(|i| self.wire_values[i].as_str()).unwrap_or("")
    }
}

/// The escape choices of a pair start at an offset derived from its key, so that the wire form of a pair
/// does not depend on where it stands (re-arranging the pairs leaves every pair's text unchanged).
fn encode(pairs: &[Pair], known: &[&str], style: &Style, with_extras: bool) -> Encoded {
    let perm = permutation(pairs.len(), style.perm);
    let mut order: Vec<Pair> = perm.iter().map(|i| pairs[*i].clone()).collect();
    let mut rearranged = perm.iter().enumerate().any(|(i, p)| i != *p);
    if with_extras {
        for x in &style.extras {
            let mut key = x.key.clone();
            if key.is_empty() || known.contains(&key.as_str()) {
                key = format!("zz{key}")
            }
            let at = x.at as usize % (order.len() + 1);
            order.insert(at, Pair::text(&key, x.value.clone()));
            rearranged = true;
        }
    }
    let mut text = String::new();
    let mut wire_values = Vec::new();
    let (mut raw_plus, mut escapes) = (false, 0);
    for (i, p) in order.iter().enumerate() {
        if i > 0 {
            text.push('&')
        }
        let mut enc = Enc::new(&style.choices);
        enc.i = fnv(p.key.as_bytes()) as usize % style.choices.len().max(1);
        enc.put(&mut text, &p.key, false, false);
        text.push('=');
        let mut value = String::new();
        for (j, (e, literal)) in p.elems.iter().enumerate() {
            if j > 0 {
                value.push(',')
            }
            enc.put(&mut value, e, p.seq, *literal && !style.escape_literals);
        }
        text.push_str(&value);
        wire_values.push(value);
        raw_plus |= enc.raw_plus;
        escapes += enc.escapes;
    }
    Encoded { text, order, wire_values, raw_plus, escapes, rearranged }
}

// ---------------------------------------------------------------- running the code under test

enum Out {
    SerRefused(String),
    Same(String),
    Rejected(String, String),
    Differs(String, String),
    Panicked(String, panic::PanicInfo),
}
impl Out {
    fn ok(&self) -> bool {
        matches!(self, Out::Same(_) | Out::SerRefused(_))
    }
    fn text(&self) -> &str {
        match self {
            Out::SerRefused(_) => "",
            Out::Same(t) | Out::Rejected(t, _) | Out::Differs(t, _) | Out::Panicked(t, _) => t,
        }
    }
}

fn clip(s: &str) -> String {
    if s.chars().count() > 240 {
        format!("{}…", s.chars().take(240).collect::<String>())
    } else {
        s.to_string()
    }
}

/// equality of values through their `Debug` form: injective on the catalogue types, distinguishes
/// `-0.0` from `0.0` (floats print their shortest round-tripping form) and identifies all NaNs
fn same<T: Debug>(a: &T, b: &T) -> bool {
    format!("{a:?}") == format!("{b:?}")
}

fn decode_as<T: DeserializeOwned + Debug>(want: &T, text: String) -> Out {
    match panic::catch(AssertUnwindSafe(|| from_bytes::<T>(text.as_bytes()))) {
        Err(pi) => Out::Panicked(text, pi),
        Ok(Err(e)) => Out::Rejected(text, e.to_string()),
        Ok(Ok(got)) => {
            if same(&got, want) {
                Out::Same(text)
            } else {
                Out::Differs(text, format!("{got:?}"))
            }
        }
    }
}

fn roundtrip<T: Serialize + DeserializeOwned + Debug>(v: &T) -> Out {
    match panic::catch(AssertUnwindSafe(|| to_string(v))) {
        Err(pi) => Out::Panicked(String::new(), pi),
        Ok(Err(e)) => Out::SerRefused(e.to_string()),
        Ok(Ok(text)) => decode_as(v, text),
    }
}

fn describe<T: Debug>(want: &T, out: &Out) -> String {
    match out {
        Out::SerRefused(e) => format!("serializer refused: {e}"),
        Out::Same(t) => format!("{:?} ok", clip(t)),
        Out::Rejected(t, e) => format!("value {} as text {:?}: expected to decode to the value, observed Err({:?})", clip(&format!("{want:?}")), clip(t), clip(e)),
        Out::Differs(t, g) => format!("value {} as text {:?}: expected to decode to the value, observed {}", clip(&format!("{want:?}")), clip(t), clip(g)),
        Out::Panicked(t, pi) => format!("value {} as text {:?}: {}", clip(&format!("{want:?}")), clip(t), pi.describe()),
    }
}

/// the value part of `key=…` in a text written by the crate's serializer (struct field names are alphanumeric)
fn part_of<'a>(text: &'a str, key: &str) -> &'a str {
    let start = if text.starts_with(&format!("{key}=")) { Some(key.len() + 1) } else { text.find(&format!("&{key}=")).map(|i| i + key.len() + 2) };
    match start {
        Some(s) => {
            let rest = &text[s..];
            &rest[..rest.find('&').unwrap_or(rest.len())]
        }
        None => "",
    }
}
fn x_part(text: &str) -> &str {
    part_of(text, "x")
}

/// Dispatch a field model to its compiled type: `$body` sees `$x` bound to the real value.
macro_rules! with_typed {
    ($f:expr, |$x:ident| $body:expr) => {
        match $f {
            F::Bool(v) => { let $x = *v; $body }
            F::I8(v) => { let $x = *v; $body }
            F::I16(v) => { let $x = *v; $body }
            F::I32(v) => { let $x = *v; $body }
            F::I64(v) => { let $x = *v; $body }
            F::U8(v) => { let $x = *v; $body }
            F::U16(v) => { let $x = *v; $body }
            F::U32(v) => { let $x = *v; $body }
            F::U64(v) => { let $x = *v; $body }
            F::I128 { hi, lo } => { let $x = ((*hi as i128) << 64) | (*lo as i128); $body }
            F::U128 { hi, lo } => { let $x = ((*hi as u128) << 64) | (*lo as u128); $body }
            F::F32(b) => { let $x = f32::from_bits(*b); $body }
            F::F64(b) => { let $x = f64::from_bits(*b); $body }
            F::Char(c) => { let $x = *c; $body }
            F::Str(s) => { let $x = s.clone(); $body }
            F::OptStr(o) => { let $x = o.clone(); $body }
            F::OptI64(o) => { let $x = *o; $body }
            F::OptBool(o) => { let $x = *o; $body }
            F::OptChar(o) => { let $x = *o; $body }
            F::OptF64(o) => { let $x = o.map(f64::from_bits); $body }
            F::Plain(i) => { let $x = PLAINS[*i as usize % 3]; $body }
            F::Kebab(i) => { let $x = KEBABS[*i as usize % 3]; $body }
            F::Snake(i) => { let $x = SNAKES[*i as usize % 3]; $body }
            F::OptKebab(o) => { let $x = o.map(|i| KEBABS[i as usize % 3]); $body }
            F::OptPlain(o) => { let $x = o.map(|i| PLAINS[i as usize % 3]); $body }
            F::Id(v) => { let $x = Id(*v); $body }
            F::OptId(o) => { let $x = o.map(Id); $body }
            F::Name(s) => { let $x = Name(s.clone()); $body }
            F::OptName(o) => { let $x = o.clone().map(Name); $body }
            F::Unit => { let $x = (); $body }
            F::VecStr(v) => { let $x = v.clone(); $body }
            F::VecI64(v) => { let $x = v.clone(); $body }
            F::Tup1(a) => { let $x = (a.clone(),); $body }
            F::Tup2(a, b) => { let $x = (a.clone(), *b); $body }
            F::Tup2s(a, b) => { let $x = (a.clone(), b.clone()); $body }
            F::Tup5(a, b, c, d, e) => { let $x = (a.clone(), *b, c.clone(), *d, e.clone()); $body }
        }
    };
}

/// failure-key class of a field type
fn class_of(f: &F) -> &'static str {
    match f {
        F::Bool(_) => "bool",
        F::I8(_) | F::I16(_) | F::I32(_) | F::I64(_) | F::U8(_) | F::U16(_) | F::U32(_) | F::U64(_) => "int",
        F::I128 { .. } | F::U128 { .. } => "int128",
        F::F32(_) | F::F64(_) => "float",
        F::Char(_) | F::OptChar(_) => "char",
        F::Str(_) => "string",
        F::OptStr(_) | F::OptI64(_) | F::OptBool(_) | F::OptF64(_) | F::OptName(_) => "option",
        F::Plain(_) | F::OptPlain(_) => "enum:plain",
        F::Kebab(_) | F::OptKebab(_) => "enum:kebab",
        F::Snake(_) => "enum:snake",
        F::Id(_) | F::Name(_) | F::OptId(_) => "newtype",
        F::Unit => "unit",
        F::VecStr(_) | F::VecI64(_) | F::Tup1(_) | F::Tup2(..) | F::Tup2s(..) | F::Tup5(..) => "seq",
    }
}
fn label_of(f: &F) -> &'static str {
    match f {
        F::Bool(_) => "field:bool",
        F::I8(_) | F::I16(_) | F::I32(_) | F::I64(_) | F::U8(_) | F::U16(_) | F::U32(_) | F::U64(_) => "field:int",
        F::I128 { .. } | F::U128 { .. } => "field:int128",
        F::F32(_) | F::F64(_) => "field:float",
        F::Char(_) | F::OptChar(_) => "field:char",
        F::Str(_) => "field:string",
        F::OptStr(_) | F::OptI64(_) | F::OptBool(_) | F::OptF64(_) | F::OptName(_) => "field:option",
        F::Plain(_) | F::OptPlain(_) => "field:enum-plain",
        F::Kebab(_) | F::OptKebab(_) => "field:enum-kebab",
        F::Snake(_) => "field:enum-snake",
        F::Id(_) | F::Name(_) | F::OptId(_) => "field:newtype",
        F::Unit => "field:unit",
        F::VecStr(_) => "field:vec-string",
        F::VecI64(_) => "field:vec-int",
        F::Tup1(_) | F::Tup2(..) | F::Tup2s(..) | F::Tup5(..) => "field:tuple",
    }
}

#[derive(Clone)]
enum Elem {
    S(String),
    I(i64),
}
fn elements(f: &F) -> Vec<Elem> {
    match f {
        F::VecStr(v) => v.iter().cloned().map(Elem::S).collect(),
        F::VecI64(v) => v.iter().copied().map(Elem::I).collect(),
        F::Tup1(a) => vec![Elem::S(a.clone())],
        F::Tup2(a, b) => vec![Elem::S(a.clone()), Elem::I(*b as i64)],
        F::Tup2s(a, b) => vec![Elem::S(a.clone()), Elem::S(b.clone())],
        F::Tup5(a, b, c, d, e) => vec![Elem::S(a.clone()), Elem::I(*b), Elem::S(c.clone()), Elem::I(*d as i64), Elem::S(e.clone())],
        _ => vec![],
    }
}

/// §5.2 conventions: the format writes an absent option, an empty sequence and an empty string alike as
/// the empty text, so `Some("")` and empty sequence elements have no encoding of their own. They are
/// replaced (and counted) rather than generated.
fn normalise(f: &F, obs: &mut Obs) -> F {
    fn opt(o: &Option<String>, obs: &mut Obs) -> Option<String> {
        match o {
            Some(s) if s.is_empty() => {
                obs.excluded.push("Some(\"\") (empty text means None)");
                None
            }
            other => other.clone(),
        }
    }
    fn elem(s: &String, obs: &mut Obs) -> String {
        if s.is_empty() {
            obs.excluded.push("empty string as a sequence element");
            "e".to_string()
        } else {
            s.clone()
        }
    }
    // Only a sequence whose *whole* text is empty is ambiguous ([""] and [] are both the empty text). With two
    // or more elements an empty element is unambiguous on the wire (`a,`, `,`, `a,,b`) and must round-trip.
    match f {
        F::OptStr(o) => F::OptStr(opt(o, obs)),
        F::OptName(o) => F::OptName(opt(o, obs)),
        F::VecStr(v) if v.len() == 1 => F::VecStr(v.iter().map(|s| elem(s, obs)).collect()),
        F::Tup1(a) => F::Tup1(elem(a, obs)),
        other => other.clone(),
    }
}

fn needs_escape(s: &str) -> bool {
    s.chars().any(|c| !(c.is_ascii_alphanumeric() || "-._~".contains(c)))
}
fn boundary(f: &F) -> bool {
    macro_rules! b {
        ($v:expr, $t:ty) => {
            *$v == <$t>::MIN || *$v == <$t>::MAX || *$v == 0 || (*$v as i128) == -1
        };
    }
    match f {
        F::I8(v) => b!(v, i8),
        F::I16(v) => b!(v, i16),
        F::I32(v) => b!(v, i32),
        F::I64(v) => b!(v, i64),
        F::U8(v) => b!(v, u8),
        F::U16(v) => b!(v, u16),
        F::U32(v) => b!(v, u32),
        F::U64(v) | F::Id(v) => b!(v, u64),
        F::OptI64(Some(v)) => b!(v, i64),
        F::F32(bits) => {
            let v = f32::from_bits(*bits);
            !v.is_normal() || v == f32::MAX || v == f32::MIN || v == f32::MIN_POSITIVE
        }
        F::F64(bits) | F::OptF64(Some(bits)) => {
            let v = f64::from_bits(*bits);
            !v.is_normal() || v == f64::MAX || v == f64::MIN || v == f64::MIN_POSITIVE
        }
        _ => false,
    }
}
fn field_nontrivial(f: &F) -> bool {
    if boundary(f) {
        return true;
    }
    match texts(f, false) {
        Some((elems, seq)) => (seq && elems.len() >= 2) || elems.iter().any(|(e, _)| needs_escape(e)),
        None => false,
    }
}

fn scalar_fields(m: &ScalarM) -> Vec<F> {
    vec![
        F::Bool(m.b),
        F::I8(m.i8v),
        F::I16(m.i16v),
        F::I32(m.i32v),
        F::I64(m.i64v),
        F::U8(m.u8v),
        F::U16(m.u16v),
        F::U32(m.u32v),
        F::U64(m.u64v),
        F::F32(m.f32b),
        F::F64(m.f64b),
        F::Str(m.s.clone()),
        F::OptStr(m.os.clone()),
        F::OptI64(m.oi),
        F::OptBool(m.ob),
        F::Plain(m.e),
        F::OptPlain(m.oe),
        F::Id(m.id),
        F::Name(m.name.clone()),
        F::OptId(m.oid),
        F::Unit,
    ]
}
fn scalar_real(m: &ScalarM) -> Scalars {
    Scalars {
        b: m.b,
        i8v: m.i8v,
        i16v: m.i16v,
        i32v: m.i32v,
        i64v: m.i64v,
        u8v: m.u8v,
        u16v: m.u16v,
        u32v: m.u32v,
        u64v: m.u64v,
        f32v: f32::from_bits(m.f32b),
        f64v: f64::from_bits(m.f64b),
        s: m.s.clone(),
        os: m.os.clone(),
        oi: m.oi,
        ob: m.ob,
        e: PLAINS[m.e as usize % 3],
        oe: m.oe.map(|i| PLAINS[i as usize % 3]),
        id: Id(m.id),
        name: Name(m.name.clone()),
        oid: m.oid.map(Id),
        u: (),
    }
}
fn scalar_pairs(m: &ScalarM, exp: bool) -> Vec<Pair> {
    let fs = scalar_fields(m);
    let mut out = Vec::new();
    for (name, f) in SCALAR_FIELDS.iter().zip(&fs) {
        let (elems, seq) = texts(f, exp).unwrap_or((vec![(String::new(), false)], false));
        out.push(Pair { key: name.to_string(), elems, seq });
    }
    out
}

async fn echo_query(req: &Request) -> String {
    let pairs: Vec<(String, String)> = req.query.iter().map(|(k, v)| (k.into_owned(), v.into_owned())).collect();
    serde_json::to_string(&pairs).unwrap_or_default()
}

impl C09 {
    /// Is the field alone already broken? Decodes `a=7&x=<x_wire>&z=z` — the field's own wire form, taken
    /// from the failing text — into `W<T>` and returns the root-cause keys (empty = it survives).
    fn alone(&self, mode: &str, f: &F, x_wire: &str) -> Vec<(String, String)> {
        let text = format!("a=7&x={x_wire}&z=z");
        let (out, detail) = with_typed!(f, |x| {
            let w = W { a: 7, x, z: "z".to_string() };
            let out = decode_as(&w, text);
            let d = describe(&w, &out);
            (out, d)
        });
        if out.ok() {
            vec![]
        } else {
            self.classify(mode, f, &out, x_wire, detail)
        }
    }

    /// turn a failed outcome for field `f` (whose value part on the wire was `x_wire`) into root-cause keys
    fn classify(&self, mode: &str, f: &F, out: &Out, x_wire: &str, detail: String) -> Vec<(String, String)> {
        if let Out::Panicked(_, pi) = out {
            return vec![(format!("{mode}:{}:{}", class_of(f), pi.key()), detail)];
        }
        match class_of(f) {
            "seq" => {
                let els = elements(f);
                // a one-element Vec is the atom of attribution
                match f {
                    F::VecStr(v) if v.len() == 1 => {
                        let k = if x_wire.contains('%') { "seq:element:string-escaped" } else { "seq:element:string" };
                        return vec![(format!("{mode}:{k}"), format!("a one-element sequence fails already: {detail}"))];
                    }
                    F::VecI64(v) if v.len() == 1 => return vec![(format!("{mode}:seq:element:int"), format!("a one-element sequence fails already: {detail}"))],
                    _ => {}
                }
                // commas inside elements are escaped by both encoders, so raw commas separate the elements
                let wires: Vec<&str> = if els.is_empty() && x_wire.is_empty() { vec![] } else { x_wire.split(',').collect() };
                if wires.len() != els.len() {
                    return vec![(format!("{mode}:seq:element-count-on-the-wire"), format!("{} elements written as {} comma-separated parts: {detail}", els.len(), wires.len()))];
                }
                let mut keys = Vec::new();
                for (e, w) in els.iter().zip(&wires) {
                    let single = match e {
                        Elem::S(s) => F::VecStr(vec![s.clone()]),
                        Elem::I(i) => F::VecI64(vec![*i]),
                    };
                    keys.extend(self.alone(mode, &single, w));
                }
                if keys.is_empty() {
                    let k = match els.len() {
                        0 => "seq:len0",
                        1 => "seq:len1",
                        _ => "seq:len2+",
                    };
                    keys.push((format!("{mode}:{k}"), format!("every element survives as a one-element Vec, the whole does not: {detail}")));
                }
                keys
            }
            c @ ("enum:plain" | "enum:kebab" | "enum:snake") => {
                let k = if x_wire.contains('%') { "enum:escaped-variant-name" } else { c };
                vec![(format!("{mode}:{k}"), detail)]
            }
            c => vec![(format!("{mode}:{c}"), detail)],
        }
    }

    fn query_path(&self, enc: &Encoded, obs: &mut Obs) {
        if enc.text.len() > 700 {
            obs.label("query:skipped-long-text");
            return;
        }
        obs.label("query:sent");
        let want: Vec<(String, String)> = enc.order.iter().map(|p| (p.key.clone(), p.value())).collect();
        let target = format!("/q?{}", enc.text);
        let o = match panic::catch(AssertUnwindSafe(|| drive::request(&self.router, "GET", &target, &[("Host".to_string(), "t".to_string())], None))) {
            Ok(Ok(o)) => o,
            Ok(Err(e)) => {
                obs.fail("query-iter:malformed-response", format!("GET {target:?}: {e}"));
                return;
            }
            Err(pi) => {
                obs.fail(format!("query-iter:{}", pi.key()), format!("GET {target:?}: {}", pi.describe()));
                return;
            }
        };
        let Some(res) = &o.res else {
            obs.fail("query-iter:no-response", format!("GET {target:?}: {:?}", o.outcome));
            return;
        };
        if res.status != 200 {
            obs.fail(format!("query-iter:status-{}", res.status), format!("GET {target:?}: expected 200 with the pairs, observed {}", res.status));
            return;
        }
        let got: Vec<(String, String)> = match serde_json::from_slice(&res.body) {
            Ok(g) => g,
            Err(e) => {
                obs.fail("HARNESS-BUG echo", format!("echo body is not JSON: {e}"));
                return;
            }
        };
        if got != want {
            let plus = |v: &Vec<(String, String)>| -> Vec<(String, String)> { v.iter().map(|(k, x)| (k.replace('+', " "), x.replace('+', " "))).collect() };
            let key = if got.len() != want.len() {
                "query-iter:pair-count"
            } else if plus(&want) == got {
                "query-iter:plus-decoded-as-space"
            } else {
                "query-iter:pairs-differ"
            };
            obs.fail(key, format!("GET {:?}: expected query pairs {}, observed {}", clip(&target), clip(&format!("{want:?}")), clip(&format!("{got:?}"))));
        }
    }

    /// Decode mode, shared by all value kinds: encode, send through the query path, decode into `T`.
    /// Causes that do not depend on the field type (`+`, escaped number/bool texts, the arrangement) are
    /// reported here; what remains is returned for attribution to a field type, together with the
    /// style reduced to declaration order, no extras, raw literals.
    fn decode_eval<T: DeserializeOwned + Debug>(&self, want: &T, pairs: &[Pair], known: &[&str], st: &Style, with_extras: bool, obs: &mut Obs) -> Option<(Out, String, Encoded)> {
        let enc = encode(pairs, known, st, with_extras);
        obs.nontrivial |= enc.rearranged || enc.escapes > 0;
        if enc.raw_plus {
            obs.label("raw-plus")
        }
        if enc.rearranged {
            obs.label("permuted-or-extended")
        }
        if st.escape_literals {
            obs.label("escaped-literals")
        }
        self.query_path(&enc, obs);
        let out = decode_as(want, enc.text.clone());
        if out.ok() {
            return None;
        }
        let d = describe(want, &out);
        if let Out::Panicked(..) = &out {
            return Some((out, d, enc));
        }
        // `+` must stay `+`: does the same text with every raw `+` escaped decode correctly?
        if out.text().contains('+') && decode_as(want, out.text().replace('+', "%2B")).ok() {
            obs.fail("decode:plus-not-kept-literal", d);
            return None;
        }
        let try_style = |s: &Style| decode_as(want, encode(pairs, known, s, with_extras).text);
        let raw_lit = Style { escape_literals: false, ..st.clone() };
        if st.escape_literals && try_style(&raw_lit).ok() {
            obs.fail("decode:escaped-literal", format!("the same text with the number/bool values unescaped decodes: {d}"));
            return None;
        }
        let base = Style { perm: 0, extras: vec![], ..raw_lit.clone() };
        let out2 = try_style(&base);
        if out2.ok() {
            let key = if try_style(&Style { perm: 0, ..raw_lit.clone() }).ok() {
                "decode:field-order"
            } else if try_style(&Style { extras: vec![], ..raw_lit.clone() }).ok() {
                "decode:unknown-pairs"
            } else {
                "decode:order-and-unknown-pairs"
            };
            obs.fail(key, format!("the same pairs in declaration order without extras decode, this arrangement does not: {d}"));
            return None;
        }
        let d2 = describe(want, &out2);
        Some((out2, d2, encode(pairs, known, &base, with_extras)))
    }
}

// ---------------------------------------------------------------- generators

const RESERVED: &str = "&&==++%%#?/ ,,;:@!$'()*[]\"<>\\^`{|}~-._\u{0}\n\r\t\u{7f}\u{80}éあ😀\u{feff}";

fn uchar() -> impl Strategy<Value = char> {
    prop_oneof![
        4 => prop::sample::select(RESERVED.chars().collect::<Vec<char>>()),
        2 => any::<char>(),
        3 => prop::char::range('0', 'z'),
    ]
}
fn ustr(min: usize) -> impl Strategy<Value = String> {
    prop_oneof![
        3 => vec(prop::char::range('a', 'z'), min..=6).prop_map(|v| v.into_iter().collect::<String>()),
        6 => vec(uchar(), min..=8).prop_map(|v| v.into_iter().collect::<String>()),
        1 => vec(any::<char>(), min..=12).prop_map(|v| v.into_iter().collect::<String>()),
    ]
}
macro_rules! ints {
    ($t:ty) => {
        prop_oneof![
            2 => Just(<$t>::MIN),
            2 => Just(<$t>::MAX),
            1 => Just(0 as $t),
            1 => Just(1 as $t),
            1 => Just((0 as $t).wrapping_sub(1)),
            6 => any::<$t>(),
        ]
    };
}
fn f32_bits() -> impl Strategy<Value = u32> {
    prop_oneof![
        4 => any::<u32>().prop_map(|b| if f32::from_bits(b).is_nan() { f32::NAN.to_bits() } else { b }),
        3 => any::<f32>().prop_map(f32::to_bits),
        1 => prop::sample::select(vec![f32::NAN, f32::INFINITY, f32::NEG_INFINITY, 0.0, -0.0, f32::MAX, f32::MIN, f32::MIN_POSITIVE, f32::EPSILON, 1.0, -1.5, 0.1, 1e10, 16777217.0]).prop_map(f32::to_bits),
    ]
}
fn f64_bits() -> impl Strategy<Value = u64> {
    prop_oneof![
        4 => any::<u64>().prop_map(|b| if f64::from_bits(b).is_nan() { f64::NAN.to_bits() } else { b }),
        3 => any::<f64>().prop_map(f64::to_bits),
        1 => prop::sample::select(vec![f64::NAN, f64::INFINITY, f64::NEG_INFINITY, 0.0, -0.0, f64::MAX, f64::MIN, f64::MIN_POSITIVE, f64::EPSILON, 1.0, -1.5, 0.1, 1e21, 5e-324, 9007199254740993.0]).prop_map(f64::to_bits),
    ]
}
fn seq_len() -> impl Strategy<Value = usize> {
    prop_oneof![1 => Just(0usize), 2 => Just(1usize), 3 => Just(2usize), 1 => Just(3usize), 2 => Just(5usize)]
}
fn field() -> BoxedStrategy<F> {
    let ints = prop_oneof![
        ints!(i8).prop_map(F::I8),
        ints!(i16).prop_map(F::I16),
        ints!(i32).prop_map(F::I32),
        ints!(i64).prop_map(F::I64),
        ints!(u8).prop_map(F::U8),
        ints!(u16).prop_map(F::U16),
        ints!(u32).prop_map(F::U32),
        ints!(u64).prop_map(F::U64),
    ];
    let wide = prop_oneof![(any::<i64>(), any::<u64>()).prop_map(|(hi, lo)| F::I128 { hi, lo }), (any::<u64>(), any::<u64>()).prop_map(|(hi, lo)| F::U128 { hi, lo }),];
    let options = prop_oneof![
        3 => prop::option::weighted(0.8, ustr(0)).prop_map(F::OptStr),
        2 => prop::option::weighted(0.7, ints!(i64)).prop_map(F::OptI64),
        1 => prop::option::of(any::<bool>()).prop_map(F::OptBool),
        2 => prop::option::weighted(0.7, f64_bits()).prop_map(F::OptF64),
        1 => prop::option::weighted(0.8, ustr(0)).prop_map(F::OptName),
    ];
    let tuples = prop_oneof![
        2 => ustr(1).prop_map(F::Tup1),
        3 => (ustr(1), ints!(i32)).prop_map(|(a, b)| F::Tup2(a, b)),
        3 => (ustr(0), ustr(0)).prop_map(|(a, b)| F::Tup2s(a, b)),
        3 => (ustr(0), ints!(i64), ustr(1), ints!(u8), ustr(0)).prop_map(|(a, b, c, d, e)| F::Tup5(a, b, c, d, e)),
    ];
    prop_oneof![
        2 => any::<bool>().prop_map(F::Bool),
        10 => ints,
        1 => wide,
        4 => f32_bits().prop_map(F::F32),
        4 => f64_bits().prop_map(F::F64),
        8 => uchar().prop_map(F::Char),
        2 => prop::option::weighted(0.8, uchar()).prop_map(F::OptChar),
        8 => ustr(0).prop_map(F::Str),
        8 => options,
        3 => (0u8..3).prop_map(F::Plain),
        5 => (0u8..3).prop_map(F::Kebab),
        5 => (0u8..3).prop_map(F::Snake),
        2 => prop::option::weighted(0.8, 0u8..3).prop_map(F::OptKebab),
        2 => ints!(u64).prop_map(F::Id),
        3 => ustr(0).prop_map(F::Name),
        1 => Just(F::Unit),
        10 => seq_len().prop_flat_map(|n| vec(prop_oneof![6 => ustr(1), 1 => Just(String::new())], n)).prop_map(F::VecStr),
        7 => seq_len().prop_flat_map(|n| vec(ints!(i64), n)).prop_map(F::VecI64),
        8 => tuples,
    ]
    .boxed()
}
fn scalars() -> impl Strategy<Value = ScalarM> {
    (
        (any::<bool>(), ints!(i8), ints!(i16), ints!(i32), ints!(i64), ints!(u8), ints!(u16), ints!(u32), ints!(u64)),
        (f32_bits(), f64_bits(), ustr(0), prop::option::weighted(0.7, ustr(0)), prop::option::of(ints!(i64)), prop::option::of(any::<bool>())),
        (0u8..3, prop::option::of(0u8..3), ints!(u64), ustr(0), prop::option::of(ints!(u64))),
    )
        .prop_map(|((b, i8v, i16v, i32v, i64v, u8v, u16v, u32v, u64v), (f32b, f64b, s, os, oi, ob), (e, oe, id, name, oid))| ScalarM { b, i8v, i16v, i32v, i64v, u8v, u16v, u32v, u64v, f32b, f64b, s, os, oi, ob, e, oe, id, name, oid })
}
fn val() -> impl Strategy<Value = Val> {
    prop_oneof![
        14 => (any::<u8>(), field(), ustr(0)).prop_map(|(a, x, z)| Val::One { a, x, z }),
        3 => scalars().prop_map(Val::Scalars),
        3 => vec((prop_oneof![30 => ustr(1), 1 => Just(String::new())], ustr(0)), 0..=5).prop_map(Val::Map),
        1 => (ustr(0), ints!(i32), ustr(0), ustr(0), ustr(0)).prop_map(|(qa, price, pct, sp, nv)| Val::Renamed { qa, price, pct, sp, nv }),
    ]
}
fn style() -> impl Strategy<Value = Style> {
    let choice = prop_oneof![3 => Just(0u8), 1 => any::<u8>()];
    let extra = (ustr(1), ustr(0), any::<u8>()).prop_map(|(key, value, at)| Extra { key, value, at });
    (vec(choice, 1..=24), prop_oneof![1 => Just(0u64), 3 => any::<u64>()], prop_oneof![2 => Just(vec![]), 3 => vec(extra, 1..=3)], any::<bool>(), prop::bool::weighted(0.1)).prop_map(|(choices, perm, extras, exp, escape_literals)| Style { choices, perm, extras, exp, escape_literals })
}

// ---------------------------------------------------------------- the property

impl Property for C09 {
    type Case = Case;
    const ID: &'static str = "C09";
    const RULE: &'static str = "generated: (a) Roundtrip(value) and (b) Decode(value, encoder choices). Values: one field of a catalogue type between two neighbours (`W<T> {a: u8, x: T, z: String}`, T ∈ bool, i8…u64, i128/u128, f32, f64, char, String, Option<String|i64|bool|char|f64|newtype>, unit enums plain / kebab-case / snake_case, Option<enum>, newtypes over u64 and String, (), Vec<String>, Vec<i64>, tuples (String,), (String,i32), (String,String), (String,i64,String,u8,String); sequences of 0, 1, 2, 5 elements), a 21-field struct of all scalar types together, a struct whose fields are renamed to non-identifiers (`q&a`, `price=net`, `100%25`, `a b`, `naïve+`), or a BTreeMap<String,String>; integers with MIN/MAX/0/±1 bias, floats over all bit patterns (one NaN), strings/chars/keys over all Unicode with reserved characters over-represented. (a) to_string then from_bytes must give the value back (compared through Debug: floats by shortest round-tripping text, all NaNs alike) whenever to_string returns Ok. (b) an independent encoder writes the value's pairs `k=v` (per character: raw when RFC 3986 allows it in a query and it is not `&`, `=`, `%` or — inside a sequence element — `,`; otherwise %XX in either hex case; number / bool texts stay raw except in a 10 % sub-stream `escaped-literals`; a pair's escape choices depend on its key, not on its position), permutes them and inserts 0–3 unknown pairs; from_bytes into the type must give the value, and `GET /q?<text>` through the real parser and router must make `req.query.iter()` yield exactly the generated pairs in wire order (`+` stays `+`). Failure keys are root-cause classes, refined by re-decoding parts of the failing text: `plus-not-kept-literal` / `escaped-literal` / `field-order` / `unknown-pairs` when undoing exactly that repairs the outcome; else the field type; for sequences the element class when that element's own wire form fails as a one-element Vec, else the length class; for enums `escaped-variant-name` when the wire form of the variant contains an escape. Non-trivial = a string/char/key needing escaping, a sequence with ≥ 2 elements, a boundary number, or a permuted/extended encoding; distinct by case.";
    const ASSUMPTIONS: &'static [&'static str] = &[
        "§5.2: the empty text means None / empty sequence — Some(\"\") and a one-element sequence holding the empty string are never checked (replaced and counted under `excluded`); empty elements of longer sequences are checked",
        "128-bit integers: the serializer refuses them (serde default); counted under the label `serializer-refused`, no decoding is demanded",
        "keys of generated encodings are non-empty (a part with an empty key is documented as invalid and skipped by the query iterator); an empty map key is only used in Roundtrip, where the statement's premise (`the serializer accepts it`) decides",
        "sequences are written comma-joined, elements escaped individually (the crate's own convention; RFC 3986 is silent on sequences)",
        "query strings longer than 700 bytes are not sent through the request path (1 KiB request buffer, C02)",
        "float texts come from std's Display/LowerExp, which round-trip exactly through str::parse (std guarantee)",
    ];

    fn new(_: Tier) -> Self {
        let mut o = Ohkami::new(());
        Routing::<()>::apply("/q".GET(echo_query), &mut o);
        C09 { router: VerifRouter::new(o) }
    }
    fn n_cases(&self, tier: Tier) -> u64 {
        tier.pick(1_200_000, 8_000_000)
    }
    fn chunk(&self, _tier: Tier) -> u64 {
        10_000
    }
    fn strategy(&self, _tier: Tier) -> BoxedStrategy<Case> {
        prop_oneof![
            1 => val().prop_map(Case::Roundtrip),
            1 => (val(), style()).prop_map(|(val, style)| Case::Decode { val, style }),
        ]
        .boxed()
    }

    fn check(&self, case: &Case, obs: &mut Obs) {
        let (val, style) = match case {
            Case::Roundtrip(v) => (v, None),
            Case::Decode { val, style } => (val, Some(style)),
        };
        let mode = if style.is_some() { "decode" } else { "roundtrip" };
        obs.label(if style.is_some() { "mode:decode" } else { "mode:roundtrip" });
        match val {
            Val::One { a, x, z } => {
                let f = normalise(x, obs);
                obs.label(label_of(&f));
                if let Some((elems, true)) = texts(&f, false) {
                    obs.label(match elems.len() {
                        0 => "seq:len0",
                        1 => "seq:len1",
                        2 => "seq:len2",
                        _ => "seq:len3+",
                    });
                }
                obs.nontrivial = field_nontrivial(&f) || needs_escape(z);
                with_typed!(&f, |t| {
                    let w = W { a: *a, x: t, z: z.clone() };
                    match style {
                        None => {
                            let out = roundtrip(&w);
                            if let Out::SerRefused(_) = &out {
                                obs.label("serializer-refused");
                                obs.nontrivial = false;
                            } else if !out.ok() {
                                let d = describe(&w, &out);
                                let xw = x_part(out.text()).to_string();
                                for (k, d) in self.classify(mode, &f, &out, &xw, d) {
                                    obs.fail(k, d)
                                }
                            }
                        }
                        Some(st) => match texts(&f, st.exp) {
                            None => {
                                obs.label("serializer-refused");
                                obs.nontrivial = false;
                            }
                            Some((elems, seq)) => {
                                let pairs = vec![Pair::literal("a", a.to_string()), Pair { key: "x".into(), elems, seq }, Pair::text("z", z.clone())];
                                if let Some((out, d, enc)) = self.decode_eval(&w, &pairs, &["a", "x", "z"], st, true, obs) {
                                    for (k, d) in self.classify(mode, &f, &out, enc.wire_of("x"), d) {
                                        obs.fail(k, d)
                                    }
                                }
                            }
                        },
                    }
                });
            }
            Val::Scalars(m) => {
                obs.label("struct:scalars");
                let mut m = m.clone();
                if m.os.as_deref() == Some("") {
                    obs.excluded.push("Some(\"\") (empty text means None)");
                    m.os = None;
                }
                let fs = scalar_fields(&m);
                obs.nontrivial = fs.iter().any(field_nontrivial);
                let real = scalar_real(&m);
                let failed: Option<(Out, String, Option<Encoded>)> = match style {
                    None => {
                        let out = roundtrip(&real);
                        if let Out::SerRefused(e) = &out {
                            obs.fail("roundtrip:scalars:serializer-refused", format!("{real:?}: {e}"));
                            None
                        } else if out.ok() {
                            None
                        } else {
                            let d = describe(&real, &out);
                            Some((out, d, None))
                        }
                    }
                    Some(st) => self.decode_eval(&real, &scalar_pairs(&m, st.exp), &SCALAR_FIELDS, st, true, obs).map(|(o, d, e)| (o, d, Some(e))),
                };
                if let Some((out, d, enc)) = failed {
                    // attribute to a field type when that field alone (in its own wire form) fails as well
                    let mut attributed = false;
                    for (name, f) in SCALAR_FIELDS.iter().zip(&fs) {
                        let wire = match &enc {
                            Some(e) => e.wire_of(name).to_string(),
                            None => part_of(out.text(), name).to_string(),
                        };
                        for (k, sd) in self.alone(mode, f, &wire) {
                            attributed = true;
                            obs.fail(k, format!("(a field of the scalar struct, alone) {sd}"));
                        }
                    }
                    if !attributed {
                        if let Out::Panicked(_, pi) = &out {
                            obs.fail(format!("{mode}:scalars:{}", pi.key()), d);
                        } else {
                            obs.fail(format!("{mode}:scalars:combination"), format!("every field survives alone, the struct does not: {d}"));
                        }
                    }
                }
            }
            Val::Renamed { qa, price, pct, sp, nv } => {
                obs.label("struct:renamed-fields");
                obs.nontrivial = true;
                let real = Renamed { qa: qa.clone(), price: *price, pct: pct.clone(), sp: sp.clone(), nv: nv.clone() };
                match style {
                    None => {
                        let out = roundtrip(&real);
                        if let Out::SerRefused(e) = &out {
                            obs.fail("roundtrip:renamed-fields:serializer-refused", format!("{real:?}: {e}"));
                        } else if !out.ok() {
                            let d = describe(&real, &out);
                            match &out {
                                Out::Panicked(_, pi) => obs.fail(format!("roundtrip:renamed-fields:{}", pi.key()), d),
                                _ => obs.fail("roundtrip:renamed-fields", format!("field names {RENAMED_FIELDS:?}: {d}")),
                            }
                        }
                    }
                    Some(st) => {
                        let pairs = vec![Pair::text("q&a", qa.clone()), Pair::literal("price=net", price.to_string()), Pair::text("100%25", pct.clone()), Pair::text("a b", sp.clone()), Pair::text("naïve+", nv.clone())];
                        if let Some((out, d, _)) = self.decode_eval(&real, &pairs, &RENAMED_FIELDS, st, true, obs) {
                            match &out {
                                Out::Panicked(_, pi) => obs.fail(format!("decode:renamed-fields:{}", pi.key()), d),
                                _ => obs.fail("decode:renamed-fields", format!("field names {RENAMED_FIELDS:?}: {d}")),
                            }
                        }
                    }
                }
            }
            Val::Map(entries) => {
                obs.label("map");
                let mut map: BTreeMap<String, String> = BTreeMap::new();
                for (k, v) in entries {
                    if style.is_some() && k.is_empty() {
                        obs.excluded.push("empty key in a generated encoding");
                        continue;
                    }
                    map.entry(k.clone()).or_insert_with(|| v.clone());
                }
                obs.nontrivial = map.iter().any(|(k, v)| needs_escape(k) || needs_escape(v));
                let has_empty_key = map.contains_key("");
                if has_empty_key {
                    obs.label("map:empty-key")
                }
                match style {
                    None => {
                        let out = roundtrip(&map);
                        if let Out::SerRefused(_) = &out {
                            obs.label("serializer-refused");
                        } else if !out.ok() {
                            let d = describe(&map, &out);
                            match &out {
                                Out::Panicked(_, pi) => obs.fail(format!("roundtrip:map:{}", pi.key()), d),
                                _ if has_empty_key => obs.fail("roundtrip:map:empty-key", d),
                                _ => obs.fail("roundtrip:map", d),
                            }
                        }
                    }
                    Some(st) => {
                        let pairs: Vec<Pair> = map.iter().map(|(k, v)| Pair::text(k, v.clone())).collect();
                        if let Some((out, d, _)) = self.decode_eval(&map, &pairs, &[], st, false, obs) {
                            match &out {
                                Out::Panicked(_, pi) => obs.fail(format!("decode:map:{}", pi.key()), d),
                                _ => obs.fail("decode:map", d),
                            }
                        }
                    }
                }
            }
        }
    }
}
