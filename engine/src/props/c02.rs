//! C02 — HTTP/1.1 request bytes are parsed faithfully, malformed bytes are refused.

use crate::core::exec::block_on;
use crate::core::*;
use crate::harness::drive::ScriptedReader;
use crate::harness::gen_req::{self, WReq};
use crate::harness::hex::HexBytes;
use crate::oracle::http::{parse_request, RefErr, RefRequest};
use ohkami::__verif__::VerifRequest;
use ohkami::Request;
use proptest::prelude::*;
use serde::{Deserialize, Serialize};

pub struct C02;

#[derive(Debug, Clone, Serialize, Deserialize)]
pub struct Case {
    pub bytes: HexBytes,
    /// how the bytes were made ("A" or the mutation applied); informational
    pub origin: String,
}

macro_rules! typed_accessors {
    ($( $name:literal => $method:ident ),* $(,)?) => {
        pub fn typed(req: &Request, name: &str) -> Option<Option<String>> {
            $( if name.eq_ignore_ascii_case($name) { return Some(req.headers.$method().map(|s| s.to_string())) } )*
            None
        }
    };
}
typed_accessors! {
    "Accept" => Accept, "Accept-Encoding" => AcceptEncoding, "Accept-Language" => AcceptLanguage,
    "Access-Control-Request-Headers" => AccessControlRequestHeaders, "Access-Control-Request-Method" => AccessControlRequestMethod,
    "Authorization" => Authorization, "Cache-Control" => CacheControl, "Connection" => Connection, "Content-Disposition" => ContentDisposition,
    "Content-Encoding" => ContentEncoding, "Content-Language" => ContentLanguage, "Content-Length" => ContentLength, "Content-Location" => ContentLocation,
    "Content-Type" => ContentType, "Cookie" => Cookie, "Date" => Date, "Expect" => Expect, "Forwarded" => Forwarded, "From" => From, "Host" => Host,
    "If-Match" => IfMatch, "If-Modified-Since" => IfModifiedSince, "If-None-Match" => IfNoneMatch, "If-Range" => IfRange, "If-Unmodified-Since" => IfUnmodifiedSince,
    "Link" => Link, "Max-Forwards" => MaxForwards, "Origin" => Origin, "Proxy-Authorization" => ProxyAuthorization, "Range" => Range, "Referer" => Referer,
    "Sec-Fetch-Dest" => SecFetchDest, "Sec-Fetch-Mode" => SecFetchMode, "Sec-Fetch-Site" => SecFetchSite, "Sec-Fetch-User" => SecFetchUser,
    "Sec-WebSocket-Extensions" => SecWebSocketExtensions, "Sec-WebSocket-Key" => SecWebSocketKey, "Sec-WebSocket-Protocol" => SecWebSocketProtocol,
    "Sec-WebSocket-Version" => SecWebSocketVersion, "TE" => TE, "Trailer" => Trailer, "Transfer-Encoding" => TransferEncoding, "User-Agent" => UserAgent,
    "Upgrade" => Upgrade, "Upgrade-Insecure-Requests" => UpgradeInsecureRequests, "Via" => Via,
}

#[derive(Debug, Clone)]
enum Mutn {
    Truncate(prop::sample::Index),
    DropByte(u8, prop::sample::Index),
    DoubleByte(u8, prop::sample::Index),
    Method(u8),
    Version(u8),
    ContentLength(u8),
    InjectByte(u8, prop::sample::Index),
    AbsoluteForm,
    NoBlankLine,
    RepeatedContentLength,
}

fn mutate(w: &WReq, m: &Mutn) -> (Vec<u8>, String) {
    let bytes = w.to_bytes();
    let head_len = bytes.windows(4).position(|x| x == b"\r\n\r\n").map(|i| i + 4).unwrap_or(bytes.len());
    let positions = |b: u8| -> Vec<usize> { bytes[..head_len].iter().enumerate().filter(|(_, x)| **x == b).map(|(i, _)| i).collect() };
    match m {
        Mutn::Truncate(ix) => {
            let at = ix.index(bytes.len().max(1));
            (bytes[..at].to_vec(), format!("truncate@{at}"))
        }
        Mutn::DropByte(which, ix) => {
            let b = [b' ', b':', b'\r', b'\n'][*which as usize % 4];
            let ps = positions(b);
            if ps.is_empty() {
                return (bytes, "A".into());
            }
            let at = ps[ix.index(ps.len())];
            let mut v = bytes.clone();
            v.remove(at);
            (v, format!("drop {:?}@{at}", b as char))
        }
        Mutn::DoubleByte(which, ix) => {
            let b = [b' ', b':', b'\r', b'\n'][*which as usize % 4];
            let ps = positions(b);
            if ps.is_empty() {
                return (bytes, "A".into());
            }
            let at = ps[ix.index(ps.len())];
            let mut v = bytes.clone();
            v.insert(at, b);
            (v, format!("double {:?}@{at}", b as char))
        }
        Mutn::Method(k) => {
            let mut w = w.clone();
            w.method = match k % 6 {
                0 => w.method.to_ascii_lowercase(),
                1 => "TRACE".into(),
                2 => "CONNECT".into(),
                3 => "GE".into(),
                4 => "GETT".into(),
                _ => String::new(),
            };
            (w.to_bytes(), "method".into())
        }
        Mutn::Version(k) => {
            let s = String::from_utf8_lossy(&bytes).into_owned();
            let v = ["HTTP/1.0", "HTTP/2", "HTTP/1.1 ", "http/1.1", "HTTP/11", "", "HTTP/1.12"][*k as usize % 7];
            match s.find(" HTTP/1.1\r\n") {
                Some(i) => {
                    let mut out = bytes[..i + 1].to_vec();
                    out.extend_from_slice(v.as_bytes());
                    out.extend_from_slice(&bytes[i + 9..]);
                    (out, format!("version {v:?}"))
                }
                None => (bytes, "A".into()),
            }
        }
        Mutn::ContentLength(k) => {
            let val = ["abc", "-1", "1e3", "1 2", "18446744073709551616", "18446744073709551617", "999999999999999999999999999999", "", "+5", "0x10", "4294967296", "5,5"][*k as usize % 12];
            let mut w = w.clone();
            let body = w.body.take().unwrap_or_else(|| b"hello".to_vec());
            let mut v = format!("{} {} HTTP/1.1\r\n", w.method, w.target).into_bytes();
            for (n, x) in &w.headers {
                v.extend_from_slice(format!("{n}: {x}\r\n").as_bytes());
            }
            v.extend_from_slice(format!("{}: {val}\r\n\r\n", gen_req::recase("Content-Length", w.cl_case, 0x5a5a5a)).as_bytes());
            v.extend_from_slice(&body);
            (v, format!("content-length {val:?}"))
        }
        Mutn::InjectByte(k, ix) => {
            let b = [0u8, 0xff, 0x80, 0xc3, 0x7f, 0x0b][*k as usize % 6];
            let at = 4.min(head_len) + ix.index(head_len.saturating_sub(8).max(1));
            let mut v = bytes.clone();
            let at = at.min(v.len());
            v.insert(at, b);
            (v, format!("inject {b:#04x}@{at}"))
        }
        Mutn::AbsoluteForm => {
            let mut w = w.clone();
            w.target = format!("http://example.com{}", w.target);
            (w.to_bytes(), "absolute-form".into())
        }
        Mutn::NoBlankLine => {
            let mut v = bytes[..head_len.saturating_sub(2)].to_vec();
            if let Some(b) = &w.body {
                v.extend_from_slice(b)
            }
            (v, "no-blank-line".into())
        }
        Mutn::RepeatedContentLength => {
            let mut w = w.clone();
            let n = w.body.as_ref().map_or(0, |b| b.len());
            w.headers.push(("Content-Length".into(), n.to_string()));
            if w.body.is_none() {
                w.body = Some(vec![]);
            }
            (w.to_bytes(), "repeated-content-length".into())
        }
    }
}

fn mutn_strategy() -> impl Strategy<Value = Mutn> {
    prop_oneof![
        3 => any::<prop::sample::Index>().prop_map(Mutn::Truncate),
        3 => (0u8..4, any::<prop::sample::Index>()).prop_map(|(a, b)| Mutn::DropByte(a, b)),
        2 => (0u8..4, any::<prop::sample::Index>()).prop_map(|(a, b)| Mutn::DoubleByte(a, b)),
        1 => (0u8..6).prop_map(Mutn::Method),
        1 => (0u8..7).prop_map(Mutn::Version),
        2 => (0u8..12).prop_map(Mutn::ContentLength),
        3 => (0u8..6, any::<prop::sample::Index>()).prop_map(|(a, b)| Mutn::InjectByte(a, b)),
        1 => Just(Mutn::AbsoluteForm),
        1 => Just(Mutn::NoBlankLine),
        1 => Just(Mutn::RepeatedContentLength),
    ]
}

/// everything the public surface of an accepted request says, or the accessor that panicked
struct Surface {
    method: String,
    path: String,
    query: Vec<(String, String)>,
    payload: Option<Vec<u8>>,
}

fn strip_one_slash(p: &str) -> &str {
    if p.len() > 1 && p.ends_with('/') {
        &p[..p.len() - 1]
    } else {
        p
    }
}

impl C02 {
    fn compare(&self, req: &Request, r: &RefRequest, obs: &mut Obs, ctx: &str) {
        let s = match panic::catch(std::panic::AssertUnwindSafe(|| Surface {
            method: req.method.as_str().to_string(),
            path: req.path.str().into_owned(),
            query: req.query.iter().map(|(k, v)| (k.into_owned(), v.into_owned())).collect(),
            payload: req.payload().map(|b| b.to_vec()),
        })) {
            Ok(s) => s,
            Err(pi) => {
                obs.fail(format!("accessor-{}", pi.key()), format!("{ctx}: {}", pi.describe()));
                return;
            }
        };
        if s.method != r.method {
            obs.fail("faithful:method", format!("{ctx}: method {} vs {}", s.method, r.method));
        }
        // one trailing slash of the raw target is insignificant; compare after decoding
        let raw = if r.raw_path.len() > 1 && r.raw_path.ends_with(b"/") { &r.raw_path[..r.raw_path.len() - 1] } else { &r.raw_path[..] };
        let want_path = String::from_utf8_lossy(&crate::oracle::http::pct_decode_lenient(raw)).into_owned();
        if s.path != want_path && strip_one_slash(&s.path) != strip_one_slash(&r.path) {
            obs.fail("faithful:path", format!("{ctx}: path {:?}, the bytes denote {:?}", s.path, r.path));
        }
        // the undecoded path, as `Deref<Target = str>` / `AsRef<str>` of `req.path` hand it out
        match panic::catch(std::panic::AssertUnwindSafe(|| { let p: &str = &req.path; p.to_string() })) {
            Ok(seen) => {
                if seen.as_bytes() != raw && !(raw.is_empty() && seen == "/") {
                    obs.fail("faithful:path:undecoded", format!("{ctx}: `&*req.path` is {seen:?}, the target's path is {:?}", String::from_utf8_lossy(raw)));
                }
            }
            Err(pi) => obs.fail(format!("accessor-{}", pi.key()), format!("{ctx}: `&*req.path`: {}", pi.describe())),
        }
        if s.query != r.query {
            obs.fail("faithful:query", format!("{ctx}: query {:?}, the bytes denote {:?}", s.query, r.query));
        }
        let want_body = if r.body.is_empty() { None } else { Some(r.body.clone()) };
        let got_body = s.payload.filter(|b| !b.is_empty());
        if got_body != want_body {
            let first_nul = r.body.first() == Some(&0);
            let key = if first_nul { "faithful:payload:body-starts-with-NUL" } else { "faithful:payload" };
            obs.fail(key, format!("{ctx}: payload of {:?} bytes, the bytes denote {} bytes (first differing offset {:?})", got_body.as_ref().map(|b| b.len()), r.body.len(), got_body.as_ref().and_then(|g| g.iter().zip(&r.body).position(|(a, b)| a != b))));
        }
        // headers: typed accessors for standard names, `get` for every name in several spellings
        let mut names: Vec<String> = Vec::new();
        for (n, _) in &r.headers {
            if !names.iter().any(|m| m.eq_ignore_ascii_case(n)) {
                names.push(n.clone())
            }
        }
        for probe in ["Host", "Accept", "Cookie", "X-Absent"] {
            if !names.iter().any(|m| m.eq_ignore_ascii_case(probe)) {
                names.push(probe.to_string())
            }
        }
        for n in &names {
            let want = r.header(n);
            let is_std = gen_req::STD_NAMES.iter().find(|s| s.eq_ignore_ascii_case(n));
            let spelling_class = |written: &str| -> &'static str {
                match is_std {
                    Some(canon) if written == *canon => "canonical",
                    Some(canon) if written == canon.to_ascii_lowercase() => "lowercase",
                    Some(_) => "other-case",
                    None => "custom",
                }
            };
            let written_classes: Vec<&'static str> = r.headers.iter().filter(|(m, _)| m.eq_ignore_ascii_case(n)).map(|(m, _)| spelling_class(m)).collect();
            let repeated = written_classes.len() > 1;
            let tag = if is_std.is_some() {
                if written_classes.iter().any(|c| *c == "other-case") {
                    "std-name-in-mixed-or-upper-case"
                } else {
                    "std"
                }
            } else if repeated {
                "custom-repeated"
            } else {
                "custom"
            };
            if let Some(canon) = is_std {
                match panic::catch(std::panic::AssertUnwindSafe(|| typed(req, canon))) {
                    Ok(Some(got)) => {
                        if got != want {
                            obs.fail(format!("faithful:header:typed:{tag}"), format!("{ctx}: headers.{}() = {:?}, the bytes denote {:?}", canon, got, want));
                        }
                    }
                    Ok(None) => {}
                    Err(pi) => obs.fail(format!("accessor-{}", pi.key()), format!("{ctx}: typed accessor {canon}: {}", pi.describe())),
                }
            }
            // `get` with the name as written, canonical/lower/upper
            let mut spellings = vec![n.clone(), n.to_ascii_lowercase(), n.to_ascii_uppercase()];
            if let Some(c) = is_std {
                spellings.push(c.to_string())
            }
            spellings.dedup();
            for sp in spellings {
                match panic::catch(std::panic::AssertUnwindSafe(|| req.headers.get(&sp).map(|s| s.to_string()))) {
                    Ok(got) => {
                        if got != want {
                            let no_custom = !r.headers.iter().any(|(m, _)| !gen_req::STD_NAMES.iter().any(|s| s.eq_ignore_ascii_case(m)));
                            let how = if sp == *n { "as-written" } else { "other-spelling" };
                            let sub = if is_std.is_some() && no_custom && got.is_none() { "get-of-standard-name-without-any-custom-header".to_string() } else { format!("{tag}:{how}") };
                            obs.fail(format!("faithful:header:get:{sub}"), format!("{ctx}: headers.get({sp:?}) = {got:?}, the bytes denote {want:?}"));
                        }
                    }
                    Err(pi) => obs.fail(format!("accessor-{}", pi.key()), format!("{ctx}: headers.get({sp:?}): {}", pi.describe())),
                }
            }
        }
    }

    fn touch_all(&self, req: &Request, obs: &mut Obs, ctx: &str) {
        let r = panic::catch(std::panic::AssertUnwindSafe(|| {
            let _ = req.method.as_str();
            let _ = req.path.str();
            let _: &str = &req.path;
            let _ = req.query.iter().count();
            let _ = req.payload();
            for n in gen_req::STD_NAMES {
                let _ = typed(req, n);
                let _ = req.headers.get(n);
            }
            let _ = req.headers.get("X-Custom");
            let _ = req.headers.Cookies().count();
            let _ = format!("{req:?}");
        }));
        if let Err(pi) = r {
            obs.fail(format!("accessor-{}", pi.key()), format!("{ctx}: an accessor of an accepted request panicked: {}", pi.describe()));
        }
    }
}

impl Property for C02 {
    type Case = Case;
    const ID: &'static str = "C02";
    const RULE: &'static str = "generated: (A) well-formed requests — 7 methods, origin-form targets of 0–5 segments with percent-escapes, optional query of 0–6 pairs, 0–12 `Name: value` lines over the 46 standard names in canonical/lower/UPPER/mixed case and custom tokens, repeated names, bodies of 0–3000 arbitrary bytes (leading NUL, sizes around the 1 KiB buffer) announced by Content-Length in any case; (B) one mutation of such a request (truncation anywhere, dropped/doubled SP, ':', CR, LF, bad method/version, 12 bad Content-Length values, NUL/non-UTF-8/control byte injected into the head, absolute form, no blank line, repeated Content-Length). The whole byte string is offered as the first read through the real Request::read (hook H2). Oracle: independent strict parser of the stated subset → faithful (method, path, query pairs, every header through typed accessors and get() in several spellings, payload) / must-refuse / either; no panic, no accessor panic, no read issued after a complete request was delivered. Non-trivial: (A) a header in non-canonical case or repeated, a body, or an escape; (B) the mutation lies inside the head. Distinct by byte string.";
    const ASSUMPTIONS: &'static [&'static str] = &[
        "a head longer than the 1 KiB request buffer may be refused with any error but must not be mis-parsed",
        "soft-malformed inputs (non-UTF-8 bytes, optional-whitespace variants, obsolete forms) may be refused or accepted; when accepted only the absence of panics is demanded",
        "one trailing slash of the path is insignificant (C01)",
        "httparse is used as a second opinion on the reference parser, not on the implementation",
    ];

    fn new(_: Tier) -> Self {
        C02
    }
    fn n_cases(&self, tier: Tier) -> u64 {
        tier.pick(400_000, 5_000_000)
    }
    fn chunk(&self, _tier: Tier) -> u64 {
        10_000
    }
    fn strategy(&self, _tier: Tier) -> BoxedStrategy<Case> {
        prop_oneof![
            1 => gen_req::wreq().prop_map(|w| Case { bytes: HexBytes(w.to_bytes()), origin: "A".into() }),
            1 => (gen_req::wreq(), mutn_strategy()).prop_map(|(w, m)| {
                let (b, origin) = mutate(&w, &m);
                Case { bytes: HexBytes(b), origin }
            }),
        ]
        .boxed()
    }

    fn check(&self, case: &Case, obs: &mut Obs) {
        let bytes = &case.bytes.0;
        if bytes.is_empty() {
            return;
        }
        let reference = parse_request(bytes);
        let ctx = format!("{:?}", String::from_utf8_lossy(&bytes[..bytes.len().min(160)]));
        // second opinion on the reference parser: whatever it accepts, httparse must accept with the same parts
        if let Ok(r) = &reference {
            let mut hs = [httparse::EMPTY_HEADER; 64];
            let mut hp = httparse::Request::new(&mut hs);
            match hp.parse(bytes) {
                Ok(httparse::Status::Complete(n)) if n == r.head_len && hp.method == Some(r.method.as_str()) && hp.headers.len() == r.headers.len() => {}
                other => {
                    // obs-text in values is accepted by both; anything else is a harness problem
                    obs.fail("HARNESS-BUG reference-parser-vs-httparse", format!("{ctx}: httparse says {other:?}"));
                    return;
                }
            }
        }
        let head_too_long = match &reference {
            Ok(r) => r.head_len > 1024,
            Err(RefErr::Incomplete { head_len, .. }) => *head_len > 1024,
            _ => bytes.len() > 1024,
        };
        match (&reference, case.origin.as_str()) {
            (Ok(r), _) => {
                let noncanon = r.headers.iter().any(|(n, _)| gen_req::STD_NAMES.iter().any(|s| s.eq_ignore_ascii_case(n) && s != n));
                let repeated = r.headers.iter().enumerate().any(|(i, (n, _))| r.headers[..i].iter().any(|(m, _)| m.eq_ignore_ascii_case(n)));
                obs.nontrivial = noncanon || repeated || !r.body.is_empty() || r.raw_path.contains(&b'%') || r.raw_query.as_ref().map_or(false, |q| q.contains(&b'%'));
                obs.label("well-formed");
            }
            (Err(e), _) => {
                let head_len = bytes.windows(4).position(|x| x == b"\r\n\r\n").map(|i| i + 4).unwrap_or(bytes.len());
                obs.nontrivial = true;
                let _ = head_len;
                obs.label(match e {
                    RefErr::Hard(_) => "malformed-hard",
                    RefErr::Soft(_) => "malformed-soft",
                    RefErr::Incomplete { .. } => "incomplete-body",
                });
            }
        }
        let mut req = VerifRequest::init(std::net::IpAddr::V4(std::net::Ipv4Addr::LOCALHOST));
        let mut reader = ScriptedReader::one(bytes);
        let outcome = panic::catch(std::panic::AssertUnwindSafe(|| block_on(req.read(&mut reader))));
        let outcome = match outcome {
            Ok(Ok(o)) => o,
            Ok(Err(e)) => {
                obs.fail("HARNESS-BUG executor", e);
                return;
            }
            Err(pi) => {
                let complete = matches!(&reference, Ok(r) if r.consumed == bytes.len());
                let eof = pi.msg.contains("UnexpectedEof") || pi.msg.contains("early eof") || pi.msg.contains("failed to fill");
                let class = match &reference {
                    Ok(_) => "well-formed",
                    Err(RefErr::Hard(_)) => "malformed",
                    Err(RefErr::Soft(_)) => "malformed",
                    Err(RefErr::Incomplete { .. }) => "incomplete-body",
                };
                if complete && eof {
                    let first_nul = matches!(&reference, Ok(r) if r.body.first() == Some(&0));
                    let key = if first_nul { "waits-for-input-that-already-arrived:body-starts-with-NUL" } else { "waits-for-input-that-already-arrived" };
                    obs.fail(key, format!("{ctx}: every byte of the request was delivered, yet the parser asked for more ({})", pi.describe()));
                } else {
                    obs.fail(format!("read-{}:{class}", pi.key()), format!("{ctx}: {}", pi.describe()));
                }
                return;
            }
        };
        let refused_status = |res: &ohkami::Response| res.status.code();
        match (&reference, outcome) {
            (Ok(r), Ok(Some(()))) => {
                if reader.eof_reads > 0 && r.consumed == bytes.len() {
                    obs.fail("waits-for-input-that-already-arrived", format!("{ctx}: {} read(s) issued after all {} bytes were delivered", reader.eof_reads, bytes.len()));
                }
                self.compare(req.get(), r, obs, &ctx);
                self.touch_all(req.get(), obs, &ctx);
            }
            (Ok(_), Ok(None)) => {
                if !head_too_long {
                    obs.fail("well-formed-request-dropped", format!("{ctx}: the connection is closed without an answer"));
                }
            }
            (Ok(_), Err(res)) => {
                if !head_too_long {
                    obs.fail(format!("well-formed-request-refused:{}", refused_status(&res)), format!("{ctx}: refused with {}", refused_status(&res)));
                } else if refused_status(&res) < 400 {
                    obs.fail("refusal-status", format!("{ctx}: refused with {}", refused_status(&res)));
                }
            }
            (Err(RefErr::Hard(why)), Ok(Some(()))) => {
                if !head_too_long {
                    // accepted although structurally broken: mis-parse
                    let class = if why.contains("Content-Length") {
                        "content-length"
                    } else if why.contains("header name") {
                        "header-name"
                    } else if why.contains("request line") || why.contains("method") || why.contains("version") || why.contains("target") {
                        "request-line"
                    } else if why.contains("truncated") || why.contains("blank line") {
                        "truncated-head"
                    } else if why.contains("NUL") || why.contains("control") {
                        "control-byte"
                    } else {
                        "other"
                    };
                    obs.fail(format!("malformed-accepted:{class}"), format!("{ctx}: {why}, yet a request object was produced (method {} path {:?})", req.get().method.as_str(), panic::catch(std::panic::AssertUnwindSafe(|| req.get().path.str().into_owned())).unwrap_or_default()));
                }
                self.touch_all(req.get(), obs, &ctx);
            }
            (Err(RefErr::Soft(_)), Ok(Some(()))) => self.touch_all(req.get(), obs, &ctx),
            (Err(RefErr::Incomplete { .. }), Ok(Some(()))) => {
                // a request object although body bytes are missing and the peer closed
                obs.fail("incomplete-body-accepted", format!("{ctx}: fewer body bytes than announced arrived before EOF, yet a request was produced"));
                self.touch_all(req.get(), obs, &ctx);
            }
            (Err(_), Ok(None)) => {}
            (Err(_), Err(res)) => {
                if refused_status(&res) < 400 {
                    obs.fail("refusal-status", format!("{ctx}: refused with status {}", refused_status(&res)));
                }
            }
        }
    }
}
