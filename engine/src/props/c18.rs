//! C18 — graceful shutdown waits for in-flight sessions and never loses the interrupt.
//!
//! Part 1 (deterministic): interleavings of the real ctrl-c closure (run on ctrlc's thread after a real
//! `raise(SIGINT)`) with the real `UntilInterrupt::poll`, step by step under a controller (hook H5).
//! Part 2 (child process): a real `howl` with blocking handlers, real connections, a real SIGINT.

use crate::core::*;
use proptest::collection::vec;
use proptest::prelude::*;
use serde::{Deserialize, Serialize};
use std::future::Future;
use std::pin::Pin;
use std::sync::atomic::{AtomicBool, AtomicUsize, Ordering};
use std::sync::{Arc, Condvar, Mutex, OnceLock};
use std::task::{Context, Poll, Wake, Waker};
use std::time::{Duration, Instant};

pub struct C18;

#[derive(Debug, Clone, Serialize, Deserialize)]
pub enum Case {
    /// grants: true = one step of the interrupt handler, false = one step of the accept loop
    Schedule(Vec<bool>),
    Sessions(SessionCase),
    /// part 3: `howl`'s wait for the in-flight sessions, with session completions injected at every point where the
    /// waiting future touches its waker. `sessions` 1–4; `script[k]` = how many sessions finish at the k-th opportunity
    Drain { sessions: u8, script: Vec<u8> },
}

#[derive(Debug, Clone, Serialize, Deserialize)]
pub struct SessionCase {
    /// connections opened (and their requests started) before the interrupt
    pub before: u8,
    /// connection attempts after the accept loop has left
    pub after: u8,
    /// order in which the blocked handlers are released (indices into 0..before, as a permutation seed)
    pub release_seed: u64,
    /// release this many handlers before sending the interrupt
    pub release_early: u8,
    /// bit i set: the handler of connection i panics (inside its future, after it was released) instead of answering
    #[serde(default)]
    pub panic_mask: u8,
    /// the in-flight sessions are WebSocket sessions (1–3 of them), the server's keep-alive timeout is 1 s and the
    /// harness lets 1.7 s pass after the interrupt before it releases them: `howl` has to wait for sessions that
    /// outlive every HTTP time limit
    #[serde(default)]
    pub ws_linger: bool,
    /// the server process starts with SIGINT *ignored* (a background job of a non-interactive shell, a `nohup`-style
    /// supervisor): `howl` installs its handler all the same
    #[serde(default)]
    pub sigint_ignored_at_start: bool,
    /// connections that have been served one request and sit idle in keep-alive when the interrupt arrives (0–2): open
    /// sessions like the others — the accept loop must notice the interrupt all the same, and `howl` returns after
    /// their clients have closed them
    #[serde(default)]
    pub idle_keepalive: u8,
    /// a second SIGINT while the sessions are being waited for (an impatient operator): it changes nothing
    #[serde(default)]
    pub second_sigint: bool,
    /// 1–3 connections arrive (request sent) while the runtime thread is busy in a handler, and so does the interrupt:
    /// the accept loop finds them ready together with the flag. Those it accepts (hook point A1) are sessions in flight
    #[serde(default)]
    pub late: u8,
}

// ---------------------------------------------------------------- part 1: controller

#[derive(Default)]
struct St {
    waiting_h: Option<&'static str>,
    waiting_p: Option<&'static str>,
    grant_h: usize,
    grant_p: usize,
    h_done: bool,
    p_parked: bool,
    p_exited: bool,
    /// wake count observed when the accept loop began its latest poll
    seen_at_poll_start: usize,
    log: Vec<&'static str>,
    active: bool,
    /// the controller asks the parked accept loop for another poll although no wake arrived (a new connection, or an
    /// executor that polls spuriously — both legitimate)
    spurious: bool,
}
#[derive(Default)]
struct Ctl {
    m: Mutex<St>,
    cv: Condvar,
}
impl Ctl {
    fn point(&self, who: char, name: &'static str) {
        let mut st = self.m.lock().unwrap();
        if !st.active {
            return;
        }
        if who == 'H' {
            st.waiting_h = Some(name)
        } else {
            st.waiting_p = Some(name)
        }
        self.cv.notify_all();
        loop {
            let g = if who == 'H' { &mut st.grant_h } else { &mut st.grant_p };
            if *g > 0 {
                *g -= 1;
                break;
            }
            st = self.cv.wait(st).unwrap();
        }
        if who == 'H' {
            st.waiting_h = None
        } else {
            st.waiting_p = None
        }
        st.log.push(name);
        self.cv.notify_all();
    }
}

fn ctl() -> &'static Arc<Ctl> {
    static C: OnceLock<Arc<Ctl>> = OnceLock::new();
    C.get_or_init(|| {
        let c = Arc::new(Ctl::default());
        let c2 = c.clone();
        ohkami::__verif_sched__::install(Box::new(move |name| {
            if name.starts_with('H') {
                c2.point('H', name);
                if name == "H3" {
                    let mut st = c2.m.lock().unwrap();
                    if st.active {
                        st.h_done = true;
                    }
                    c2.cv.notify_all();
                }
            } else if name.starts_with('P') {
                c2.point('P', name)
            }
        }));
        ohkami::__verif_sync__::install();
        c
    })
}

/// Every poll gets a waker of its own; only a wake of the waker handed to the *latest* poll counts ("only the Waker
/// from the most recent call should be scheduled to receive a wakeup": a future that keeps an older one wakes a task
/// that no longer drives it).
struct CountWaker(AtomicUsize);
struct GenWaker {
    gen: usize,
    current: Arc<AtomicUsize>,
    hits: Arc<CountWaker>,
}
impl Wake for GenWaker {
    fn wake(self: Arc<Self>) {
        self.wake_by_ref()
    }
    fn wake_by_ref(self: &Arc<Self>) {
        if self.gen == self.current.load(Ordering::SeqCst) {
            self.hits.0.fetch_add(1, Ordering::SeqCst);
        }
    }
}

/// the harness's `listener.accept()`: never ready; marks the point between "accept returned Pending"
/// and the flag load inside `UntilInterrupt::poll`
struct Accept(Arc<Ctl>);
impl Future for Accept {
    type Output = ();
    fn poll(self: Pin<&mut Self>, _: &mut Context<'_>) -> Poll<()> {
        self.0.point('P', "P1");
        Poll::Pending
    }
}

#[derive(Debug)]
pub enum SchedOutcome {
    Exited,
    WakePending,
    Lost(Vec<&'static str>),
    Stuck(String),
}

static SERIAL: Mutex<()> = Mutex::new(());

pub fn run_schedule(schedule: &[bool]) -> SchedOutcome {
    let _serial = SERIAL.lock().unwrap_or_else(|e| e.into_inner());
    let ctl = ctl().clone();
    ohkami::__verif_sync__::reset();
    {
        let mut st = ctl.m.lock().unwrap();
        *st = St::default();
        st.active = true;
    }
    let wk = Arc::new(CountWaker(AtomicUsize::new(0)));
    let stop = Arc::new(AtomicBool::new(false));
    let pt = {
        let (ctl, wk, stop) = (ctl.clone(), wk.clone(), stop.clone());
        std::thread::spawn(move || {
            let current = Arc::new(AtomicUsize::new(0));
            loop {
                let gen = current.fetch_add(1, Ordering::SeqCst) + 1;
                let waker = Waker::from(Arc::new(GenWaker { gen, current: current.clone(), hits: wk.clone() }));
                let mut cx = Context::from_waker(&waker);
                {
                    let mut st = ctl.m.lock().unwrap();
                    st.seen_at_poll_start = wk.0.load(Ordering::SeqCst);
                    st.p_parked = false;
                }
                ctl.point('P', "P0");
                let mut fut = Box::pin(ohkami::__verif_sync__::until_interrupt(Accept(ctl.clone())));
                match fut.as_mut().poll(&mut cx) {
                    Poll::Ready(None) => {
                        let mut st = ctl.m.lock().unwrap();
                        st.p_exited = true;
                        st.log.push("exit");
                        ctl.cv.notify_all();
                        return;
                    }
                    Poll::Ready(Some(())) => unreachable!(),
                    Poll::Pending => {
                        let seen = {
                            let mut st = ctl.m.lock().unwrap();
                            st.p_parked = true;
                            st.log.push("park");
                            ctl.cv.notify_all();
                            st.seen_at_poll_start
                        };
                        // parked: only a wake delivered since the poll began gets the loop going again
                        while wk.0.load(Ordering::SeqCst) == seen {
                            if stop.load(Ordering::SeqCst) {
                                return;
                            }
                            {
                                let mut st = ctl.m.lock().unwrap();
                                if st.spurious {
                                    st.spurious = false;
                                    st.log.push("re-poll without a wake");
                                    break;
                                }
                            }
                            std::thread::yield_now();
                        }
                    }
                }
            }
        })
    };
    unsafe {
        libc::raise(libc::SIGINT);
    }
    let deadline = Instant::now() + Duration::from_secs(20);
    let mut stuck: Option<String> = None;
    // grant steps in the scripted order; a grant for a thread that is finished/parked is skipped
    'script: for &h in schedule {
        let mut st = ctl.m.lock().unwrap();
        loop {
            let at = if h { st.waiting_h.is_some() } else { st.waiting_p.is_some() };
            let gone = if h { st.h_done } else { st.p_exited };
            if !h && !at && !gone && st.p_parked && !st.spurious && wk.0.load(Ordering::SeqCst) == st.seen_at_poll_start {
                // a step of the accept loop is granted while it is parked and not woken: it is polled again anyway
                st.spurious = true;
                st.p_parked = false;
                ctl.cv.notify_all();
            }
            if at {
                if h {
                    st.grant_h += 1
                } else {
                    st.grant_p += 1
                }
                ctl.cv.notify_all();
                loop {
                    let still = if h { st.grant_h > 0 } else { st.grant_p > 0 };
                    if !still {
                        break;
                    }
                    let (g, _) = ctl.cv.wait_timeout(st, Duration::from_millis(50)).unwrap();
                    st = g;
                    if Instant::now() > deadline {
                        stuck = Some("grant not consumed".into());
                        break 'script;
                    }
                }
                // the granted step has fully executed once that thread stands at its next point or is gone
                loop {
                    let at = if h { st.waiting_h.is_some() } else { st.waiting_p.is_some() };
                    let gone = if h { st.h_done } else { st.p_exited || st.p_parked };
                    if at || gone {
                        break;
                    }
                    let (g, _) = ctl.cv.wait_timeout(st, Duration::from_micros(200)).unwrap();
                    st = g;
                    if Instant::now() > deadline {
                        stuck = Some("step did not complete".into());
                        break 'script;
                    }
                }
                break;
            }
            if gone {
                break;
            }
            let (g, _) = ctl.cv.wait_timeout(st, Duration::from_micros(500)).unwrap();
            st = g;
            if Instant::now() > deadline {
                stuck = Some("thread never reached a point".into());
                break 'script;
            }
        }
    }
    // drain: everything runs freely to quiescence
    {
        let mut st = ctl.m.lock().unwrap();
        st.grant_h = 1_000_000;
        st.grant_p = 1_000_000;
        ctl.cv.notify_all();
    }
    let outcome = loop {
        if let Some(s) = stuck.take() {
            break SchedOutcome::Stuck(s);
        }
        let st = ctl.m.lock().unwrap();
        if st.h_done {
            if st.p_exited {
                break SchedOutcome::Exited;
            }
            if st.p_parked && st.waiting_p.is_none() {
                // quiescent: the handler is done, the loop is parked. Is a wake pending?
                if wk.0.load(Ordering::SeqCst) != st.seen_at_poll_start {
                    // it will re-poll; wait for that
                } else {
                    break SchedOutcome::Lost(st.log.clone());
                }
            }
        }
        drop(st);
        if Instant::now() > deadline {
            break SchedOutcome::Stuck("no quiescence within 20 s".into());
        }
        std::thread::yield_now();
    };
    stop.store(true, Ordering::SeqCst);
    {
        let mut st = ctl.m.lock().unwrap();
        st.active = false;
        st.grant_h = 1_000_000;
        st.grant_p = 1_000_000;
        ctl.cv.notify_all();
    }
    let _ = pt.join();
    // the handler thread may still be between its last point and returning; let it finish
    std::thread::sleep(Duration::from_micros(200));
    outcome
}

fn all_interleavings(h: usize, p: usize) -> Vec<Vec<bool>> {
    fn gen(h: usize, p: usize, cur: &mut Vec<bool>, out: &mut Vec<Vec<bool>>) {
        if h == 0 && p == 0 {
            out.push(cur.clone());
            return;
        }
        if h > 0 {
            cur.push(true);
            gen(h - 1, p, cur, out);
            cur.pop();
        }
        if p > 0 {
            cur.push(false);
            gen(h, p - 1, cur, out);
            cur.pop();
        }
    }
    let mut out = Vec::new();
    gen(h, p, &mut Vec::new(), &mut out);
    out
}

fn render(s: &[bool]) -> String {
    s.iter().map(|b| if *b { 'H' } else { 'P' }).collect()
}

// ---------------------------------------------------------------- part 3: the wait for in-flight sessions

/// What a wait for n sessions may do with its waker is not prescribed (the code under test re-wakes itself on every
/// poll; an implementation that stores the waker and lets the last session wake it is as good). So the harness is an
/// executor that owns every event: it polls only when the latest waker was woken (or for the first time), and a
/// session can finish *at* each operation of the future on its waker (`clone` = the moment it publishes one,
/// `wake`/`wake_by_ref`), between two polls, and while the executor is idle. Verdict: Ready exactly when no session
/// is left; idle with no session left and no wake pending = `howl` never returns.
mod drain {
    use ohkami::__verif_sync__::{VerifSession, VerifWaitGroup};
    use std::cell::RefCell;
    use std::future::Future;
    use std::task::{Context, Poll, RawWaker, RawWakerVTable, Waker};

    #[derive(Default)]
    struct State {
        sessions: Vec<VerifSession>,
        script: Vec<u8>,
        next: usize,
        current_gen: usize,
        hits: u64,
        log: Vec<String>,
    }
    thread_local! {
        static ST: RefCell<State> = RefCell::new(State::default());
    }

    /// an opportunity for sessions to finish; never holds the borrow while a session handle is dropped (its Drop may
    /// call back into a waker)
    fn opportunity(what: &str) {
        let n = ST.with(|st| {
            let mut st = st.borrow_mut();
            let k = st.next;
            st.next += 1;
            let n = st.script.get(k).copied().unwrap_or(0) as usize;
            let n = n.min(st.sessions.len());
            if n > 0 {
                st.log.push(format!("{what}: {n} session(s) finish"));
            }
            n
        });
        for _ in 0..n {
            let s = ST.with(|st| st.borrow_mut().sessions.pop());
            if let Some(s) = s {
                s.done()
            }
        }
    }

    fn raw(gen: usize) -> RawWaker {
        RawWaker::new(gen as *const (), &VTABLE)
    }
    fn hit(gen: usize) {
        ST.with(|st| {
            let mut st = st.borrow_mut();
            if st.current_gen == gen {
                st.hits += 1
            }
        })
    }
    static VTABLE: RawWakerVTable = RawWakerVTable::new(
        |d| {
            opportunity("waker cloned");
            raw(d as usize)
        },
        |d| {
            hit(d as usize);
            opportunity("waker woken");
        },
        |d| {
            hit(d as usize);
            opportunity("waker woken by ref");
        },
        |_| {},
    );

    pub enum Outcome {
        Ok { polls: u32 },
        ReadyWithSessionsLeft { left: usize, log: Vec<String> },
        NeverReturns { polls: u32, log: Vec<String> },
        Spins,
    }

    pub fn run(sessions: usize, script: &[u8]) -> Outcome {
        let wg = VerifWaitGroup::new();
        let handles: Vec<VerifSession> = (0..sessions).map(|_| wg.add()).collect();
        ST.with(|st| *st.borrow_mut() = State { sessions: handles, script: script.to_vec(), ..Default::default() });
        opportunity("before the first poll");
        let mut fut = Box::pin(wg.wait());
        let mut polls = 0u32;
        let left = || ST.with(|st| st.borrow().sessions.len());
        let take_log = || ST.with(|st| std::mem::take(&mut st.borrow_mut().log));
        loop {
            polls += 1;
            if polls > 5000 {
                return Outcome::Spins;
            }
            let gen = ST.with(|st| {
                let mut st = st.borrow_mut();
                st.current_gen += 1;
                st.hits = 0;
                st.current_gen
            });
            let waker = unsafe { Waker::from_raw(raw(gen)) };
            let mut cx = Context::from_waker(&waker);
            match fut.as_mut().poll(&mut cx) {
                Poll::Ready(()) => {
                    let l = left();
                    return if l == 0 { Outcome::Ok { polls } } else { Outcome::ReadyWithSessionsLeft { left: l, log: take_log() } };
                }
                Poll::Pending => {
                    opportunity("between two polls");
                    // once the script is used up the remaining sessions finish here, one per round
                    let exhausted = ST.with(|st| {
                        let st = st.borrow();
                        st.next >= st.script.len()
                    });
                    if exhausted {
                        if let Some(s) = ST.with(|st| st.borrow_mut().sessions.pop()) {
                            ST.with(|st| st.borrow_mut().log.push("after the script: 1 session finishes".into()));
                            s.done()
                        }
                    }
                    let woken = ST.with(|st| st.borrow().hits > 0);
                    if woken {
                        continue;
                    }
                    // idle: nothing will poll the future again unless a wake arrives; sessions go on finishing
                    loop {
                        let s = ST.with(|st| st.borrow_mut().sessions.pop());
                        match s {
                            Some(s) => {
                                ST.with(|st| st.borrow_mut().log.push("while the executor is idle: 1 session finishes".into()));
                                s.done();
                                if ST.with(|st| st.borrow().hits > 0) {
                                    break;
                                }
                            }
                            None => break,
                        }
                    }
                    if ST.with(|st| st.borrow().hits > 0) {
                        continue;
                    }
                    return Outcome::NeverReturns { polls, log: take_log() };
                }
            }
        }
    }
}

fn check_drain(sessions: usize, script: &[u8], obs: &mut Obs) {
    match drain::run(sessions, script) {
        drain::Outcome::Ok { polls } => obs.evals += polls as u64,
        drain::Outcome::ReadyWithSessionsLeft { left, log } => obs.fail("wait-returned-with-sessions-in-flight", format!("{sessions} sessions, script {script:?}: the wait became Ready while {left} session(s) had not finished; events {log:?}")),
        drain::Outcome::NeverReturns { polls, log } => obs.fail("wait-never-returns", format!("{sessions} sessions, script {script:?}: every session has finished, the waiting future is Pending after {polls} poll(s) and no wake of its latest waker is pending — `howl` never returns; events {log:?}")),
        drain::Outcome::Spins => obs.fail("wait-never-returns", format!("{sessions} sessions, script {script:?}: still Pending after 5000 polls although every session has finished")),
    }
}

// ---------------------------------------------------------------- part 2: child process

/// `ohv c18-child <port>`: a real server. Commands on stdin: `release <id>`. Events on stdout.
pub fn child_main(port: u16) -> ! {
    unsafe {
        libc::prctl(libc::PR_SET_PDEATHSIG, libc::SIGKILL);
    }
    use ohkami::prelude::*;
    use std::collections::HashSet;
    use std::io::{BufRead, Write};
    static RELEASED: OnceLock<Mutex<HashSet<u32>>> = OnceLock::new();
    RELEASED.get_or_init(|| Mutex::new(HashSet::new()));
    fn say(s: &str) {
        let out = std::io::stdout();
        let mut l = out.lock();
        let _ = writeln!(l, "{s}");
        let _ = l.flush();
    }
    ohkami::__verif_sched__::install(Box::new(|name| {
        if name == "L0" || name == "L1" || name == "A1" {
            say(name)
        }
    }));
    std::thread::spawn(|| {
        let stdin = std::io::stdin();
        for line in stdin.lock().lines().map_while(Result::ok) {
            if let Some(id) = line.strip_prefix("release ").and_then(|s| s.trim().parse::<u32>().ok()) {
                RELEASED.get().unwrap().lock().unwrap().insert(id);
            }
        }
        // stdin closed: the harness process is gone (killed by its supervisor, say) — do not outlive it
        std::process::exit(3);
    });
    async fn block(id: u32) -> String {
        say(&format!("start {id}"));
        loop {
            if RELEASED.get().unwrap().lock().unwrap().contains(&id) {
                break;
            }
            tokio::time::sleep(Duration::from_millis(1)).await;
        }
        say(&format!("handled {id}"));
        format!("done {id}")
    }
    let rt = tokio::runtime::Builder::new_current_thread().enable_all().build().unwrap();
    rt.block_on(async move {
        async fn boom(id: u32) -> String {
            say(&format!("start {id}"));
            loop {
                if RELEASED.get().unwrap().lock().unwrap().contains(&id) {
                    break;
                }
                tokio::time::sleep(Duration::from_millis(1)).await;
            }
            say(&format!("panicking {id}"));
            panic!("handler {id} panics while its session is in flight")
        }
        async fn whoami() -> String {
            format!("pid={}", std::process::id())
        }
        // keeps the (single) runtime thread busy: nothing else is polled meanwhile
        async fn spin(ms: u32) -> String {
            say("spinning");
            std::thread::sleep(Duration::from_millis(ms as u64));
            "spun".to_string()
        }
        async fn late(id: u32) -> String {
            format!("late {id}")
        }
        async fn ws(id: u32, ctx: ohkami::ws::WebSocketContext<'_>) -> ohkami::ws::WebSocket {
            ctx.upgrade(move |mut conn| async move {
                say(&format!("start {id}"));
                loop {
                    if RELEASED.get().unwrap().lock().unwrap().contains(&id) {
                        break;
                    }
                    tokio::time::sleep(Duration::from_millis(1)).await;
                }
                let _ = conn.send(format!("done {id}")).await;
                say(&format!("handled {id}"));
            })
        }
        let o = Ohkami::new(("/block/:id".GET(block), "/boom/:id".GET(boom), "/ws/:id".GET(ws), "/whoami".GET(whoami), "/spin/:ms".GET(spin), "/late/:id".GET(late)));
        // `listening` is printed before the bind happens inside howl; the parent retries its connects
        say("listening");
        o.howl(("127.0.0.1", port)).await;
        say("howl returned");
    });
    // what a real `main` does after `howl` returns
    std::process::exit(0)
}

struct Child {
    proc: std::process::Child,
    lines: std::sync::mpsc::Receiver<String>,
    seen: Vec<String>,
}
impl Child {
    fn wait_line(&mut self, want: &str, limit: Duration) -> bool {
        if self.seen.iter().any(|l| l == want) {
            return true;
        }
        let deadline = Instant::now() + limit;
        loop {
            let left = deadline.saturating_duration_since(Instant::now());
            match self.lines.recv_timeout(left) {
                Ok(l) => {
                    let hit = l == want;
                    self.seen.push(l);
                    if hit {
                        return true;
                    }
                }
                Err(_) => return false,
            }
        }
    }
    fn drain(&mut self) {
        while let Ok(l) = self.lines.try_recv() {
            self.seen.push(l)
        }
    }
    /// after the process has exited: everything it printed (the reader thread ends at EOF)
    fn drain_to_eof(&mut self) {
        loop {
            match self.lines.recv_timeout(Duration::from_secs(5)) {
                Ok(l) => self.seen.push(l),
                Err(_) => break,
            }
        }
    }
}

static PORT_SEQ: AtomicUsize = AtomicUsize::new(0);

fn run_sessions(sc: &SessionCase, obs: &mut Obs) {
    use std::io::{BufRead, Read, Write};
    let ws = sc.ws_linger;
    let before = if ws { 1 + (sc.before % 3) as usize } else { (sc.before % 7) as usize };
    let after = (sc.after % 4) as usize;
    let panic_mask = if ws { 0 } else { sc.panic_mask };
    let mut attempt = 0;
    let (mut child, port) = loop {
        attempt += 1;
        let port = 21000 + ((std::process::id() as usize * 131 + PORT_SEQ.fetch_add(1, Ordering::SeqCst) * 17) % 30000) as u16;
        let mut cmd = std::process::Command::new(std::env::current_exe().unwrap());
        if sc.sigint_ignored_at_start {
            use std::os::unix::process::CommandExt;
            unsafe {
                cmd.pre_exec(|| {
                    libc::signal(libc::SIGINT, libc::SIG_IGN);
                    Ok(())
                });
            }
        }
        let mut proc = cmd
            .args(["c18-child", &port.to_string()])
            .env("OHKAMI_KEEPALIVE_TIMEOUT", if ws { "1" } else { "30" })
            .stdin(std::process::Stdio::piped())
            .stdout(std::process::Stdio::piped())
            .stderr(std::process::Stdio::null())
            .spawn()
            .expect("spawn c18 child");
        let stdout = proc.stdout.take().unwrap();
        let (tx, rx) = std::sync::mpsc::channel();
        std::thread::spawn(move || {
            for l in std::io::BufReader::new(stdout).lines().map_while(Result::ok) {
                if tx.send(l).is_err() {
                    break;
                }
            }
        });
        let mut c = Child { proc, lines: rx, seen: vec![] };
        if !c.wait_line("listening", Duration::from_secs(10)) {
            let _ = c.proc.kill();
            let _ = c.proc.wait();
            if attempt > 3 {
                obs.fail("HARNESS-BUG c18-child-did-not-start", "child never printed `listening`".to_string());
                return;
            }
            continue;
        }
        // wait until the port accepts (bind happens inside howl)
        let t0 = Instant::now();
        let mut ok = false;
        while t0.elapsed() < Duration::from_secs(5) {
            if let Ok(Some(_)) = c.proc.try_wait() {
                break; // bind failed (port in use): try another port
            }
            if let Ok(mut s) = std::net::TcpStream::connect(("127.0.0.1", port)) {
                // a served request proves that the accept loop runs, i.e. that the interrupt handler is
                // installed (howl binds first and installs the handler afterwards: a SIGINT in between
                // would simply kill the process, which is not the subject of the property)
                let _ = s.set_read_timeout(Some(Duration::from_secs(5)));
                let _ = s.write_all(b"GET /whoami HTTP/1.1\r\nHost: t\r\nConnection: close\r\n\r\n");
                let mut got = Vec::new();
                let _ = s.read_to_end(&mut got);
                // the answer must come from *our* child (another worker's child may own this port)
                if String::from_utf8_lossy(&got).contains(&format!("pid={}", c.proc.id())) {
                    ok = true;
                    break;
                } else if !got.is_empty() {
                    break;
                }
            }
            std::thread::sleep(Duration::from_millis(2));
        }
        if ok {
            break (c, port);
        }
        let _ = c.proc.kill();
        let _ = c.proc.wait();
        if attempt > 5 {
            obs.fail("HARNESS-BUG c18-child-did-not-bind", "no free port found".to_string());
            return;
        }
    };
    let mut stdin = child.proc.stdin.take().unwrap();
    let finish = |child: &mut Child| {
        let _ = child.proc.kill();
        let _ = child.proc.wait();
    };
    // open the in-flight connections and start their requests
    let mut conns: Vec<std::net::TcpStream> = Vec::new();
    for id in 0..before {
        let mut s = match std::net::TcpStream::connect(("127.0.0.1", port)) {
            Ok(s) => s,
            Err(e) => {
                obs.fail("connect-refused-before-interrupt", format!("connection {id}: {e}"));
                finish(&mut child);
                return;
            }
        };
        let _ = s.set_read_timeout(Some(Duration::from_secs(10)));
        let route = if panic_mask & (1 << id) != 0 { "boom" } else { "block" };
        if ws {
            let _ = s.write_all(format!("GET /ws/{id} HTTP/1.1\r\nHost: t\r\nConnection: Upgrade\r\nUpgrade: websocket\r\nSec-WebSocket-Version: 13\r\nSec-WebSocket-Key: dGhlIHNhbXBsZSBub25jZQ==\r\n\r\n").as_bytes());
        } else {
            let _ = s.write_all(format!("GET /{route}/{id} HTTP/1.1\r\nHost: t\r\n\r\n").as_bytes());
        }
        if !child.wait_line(&format!("start {id}"), Duration::from_secs(10)) {
            obs.fail("HARNESS-BUG c18-handler-did-not-start", format!("handler {id} did not start"));
            finish(&mut child);
            return;
        }
        conns.push(s);
    }
    // idle keep-alive connections: one request served, the connection stays open
    let idle_n = if ws { 0 } else { (sc.idle_keepalive % 3) as usize };
    let mut idle_conns: Vec<std::net::TcpStream> = Vec::new();
    for k in 0..idle_n {
        let Ok(mut s) = std::net::TcpStream::connect(("127.0.0.1", port)) else {
            obs.fail("connect-refused-before-interrupt", format!("idle connection {k}"));
            finish(&mut child);
            return;
        };
        let _ = s.set_read_timeout(Some(Duration::from_secs(10)));
        let _ = s.write_all(b"GET /whoami HTTP/1.1\r\nHost: t\r\n\r\n");
        let mut got = Vec::new();
        let mut buf = [0u8; 1024];
        loop {
            if matches!(crate::oracle::http::parse_response(&got, false), Ok(r) if r.consumed <= got.len()) {
                break;
            }
            match s.read(&mut buf) {
                Ok(0) | Err(_) => break,
                Ok(n) => got.extend_from_slice(&buf[..n]),
            }
        }
        if !String::from_utf8_lossy(&got).contains("pid=") {
            obs.fail("HARNESS-BUG c18-idle-connection-not-served", format!("{:?}", String::from_utf8_lossy(&got)));
            finish(&mut child);
            return;
        }
        idle_conns.push(s);
    }
    if idle_n > 0 {
        obs.label("idle-keep-alive-sessions");
    }
    // late arrivals: the runtime thread is kept busy by one more in-flight session (`/spin`); meanwhile connections
    // arrive with their requests, and then the interrupt
    let late_n = if ws { 0 } else { (sc.late % 4) as usize };
    let mut spin_conn: Option<std::net::TcpStream> = None;
    let mut late_conns: Vec<std::net::TcpStream> = Vec::new();
    if late_n > 0 {
        obs.label("late-arrivals-with-the-interrupt");
        if let Ok(mut s) = std::net::TcpStream::connect(("127.0.0.1", port)) {
            let _ = s.set_read_timeout(Some(Duration::from_secs(10)));
            let _ = s.write_all(b"GET /spin/300 HTTP/1.1\r\nHost: t\r\nConnection: close\r\n\r\n");
            if !child.wait_line("spinning", Duration::from_secs(10)) {
                obs.fail("HARNESS-BUG c18-handler-did-not-start", "the spinning handler did not start".to_string());
                finish(&mut child);
                return;
            }
            spin_conn = Some(s);
            for id in 0..late_n {
                if let Ok(mut l) = std::net::TcpStream::connect(("127.0.0.1", port)) {
                    let _ = l.set_read_timeout(Some(Duration::from_secs(10)));
                    let _ = l.write_all(format!("GET /late/{id} HTTP/1.1\r\nHost: t\r\nConnection: close\r\n\r\n").as_bytes());
                    late_conns.push(l);
                }
            }
        }
    }
    let order = crate::harness::app::permutation(before, sc.release_seed);
    let early = if ws || late_n > 0 { 0 } else { (sc.release_early as usize).min(before) };
    let mut responses: Vec<Option<Vec<u8>>> = vec![None; before];
    let mut read_response = |conns: &mut Vec<std::net::TcpStream>, id: usize| -> Option<Vec<u8>> {
        let mut got = Vec::new();
        let mut buf = [0u8; 4096];
        if ws {
            // 101 head, then one unmasked text frame (0x81, length < 126, payload)
            loop {
                if let Some(h) = got.windows(4).position(|w| w == b"\r\n\r\n") {
                    let f = &got[h + 4..];
                    if f.len() >= 2 && f.len() >= 2 + (f[1] & 0x7f) as usize {
                        return Some(got);
                    }
                }
                match conns[id].read(&mut buf) {
                    Ok(0) | Err(_) => return if got.is_empty() { None } else { Some(got) },
                    Ok(n) => got.extend_from_slice(&buf[..n]),
                }
            }
        }
        loop {
            match crate::oracle::http::parse_response(&got, false) {
                Ok(r) if r.consumed <= got.len() => return Some(got),
                _ => {}
            }
            match conns[id].read(&mut buf) {
                Ok(0) | Err(_) => return if got.is_empty() { None } else { Some(got) },
                Ok(n) => got.extend_from_slice(&buf[..n]),
            }
        }
    };
    for &id in &order[..early] {
        let _ = writeln!(stdin, "release {id}");
        let _ = stdin.flush();
        responses[id] = read_response(&mut conns, id);
    }
    // the interrupt
    unsafe {
        libc::kill(child.proc.id() as i32, libc::SIGINT);
    }
    // the accept loop leaves (an event logged by the child from the hook inside howl, not a delay)
    if !child.wait_line("L1", Duration::from_secs(10)) {
        obs.fail("interrupt-not-noticed", format!("10 s after SIGINT the accept loop has not left (events: {:?})", child.seen));
        finish(&mut child);
        return;
    }
    // new connections are refused now: the listening socket is closed before L1. (The process is certainly still
    // there when sessions are in flight; without any, it may be gone and the port may belong to someone else.)
    for k in 0..after {
        match std::net::TcpStream::connect(("127.0.0.1", port)) {
            Err(_) => {}
            Ok(mut s) => {
                // accepted by the kernel: by whom? `/whoami` is answered at once by a serving process
                let _ = s.set_read_timeout(Some(Duration::from_millis(400)));
                let _ = s.write_all(b"GET /whoami HTTP/1.1\r\nHost: t\r\nConnection: close\r\n\r\n");
                let mut got = Vec::new();
                let mut b = [0u8; 256];
                while let Ok(n) = s.read(&mut b) {
                    if n == 0 {
                        break;
                    }
                    got.extend_from_slice(&b[..n]);
                }
                let text = String::from_utf8_lossy(&got);
                if text.contains(&format!("pid={}", child.proc.id())) {
                    obs.fail("served-after-shutdown-began", format!("connection attempt {k} after the accept loop left was served"));
                } else if got.is_empty() && before - early > 0 && matches!(child.proc.try_wait(), Ok(None)) {
                    // nobody answers, our server is alive and draining: its listening socket still takes connections
                    obs.fail("listening-socket-open-after-interrupt", format!("connection attempt {k} after the accept loop left was accepted (and left hanging) although the server had stopped accepting; {} session(s) in flight", before - early));
                }
            }
        }
    }
    if sc.second_sigint {
        obs.label("second-interrupt-while-draining");
        unsafe {
            libc::kill(child.proc.id() as i32, libc::SIGINT);
        }
    }
    // howl must not have returned while sessions are in flight
    if ws {
        // … however long they last: past the keep-alive timeout (1 s here) no HTTP session could still be open,
        // a WebSocket session is
        std::thread::sleep(Duration::from_millis(1700));
    }
    child.drain();
    let in_flight = before - early + idle_n;
    if in_flight > 0 && child.seen.iter().any(|l| l == "howl returned") {
        obs.fail(if ws { "howl-returned-with-websocket-sessions-in-flight" } else { "howl-returned-with-sessions-in-flight" }, format!("`howl` returned while {in_flight} session(s) were still blocked in their handlers (events: {:?})", child.seen));
    }
    // release the rest in the generated order; every in-flight request must get its complete response
    for &id in &order[early..] {
        let _ = writeln!(stdin, "release {id}");
        let _ = stdin.flush();
        responses[id] = read_response(&mut conns, id);
    }
    for (id, r) in responses.iter().enumerate() {
        if panic_mask & (1 << id) != 0 {
            continue; // a session whose handler panicked owes no response; it must only not keep `howl` from returning
        }
        let ok = if ws {
            r.as_ref().map_or(false, |b| {
                let want = format!("done {id}");
                b.starts_with(b"HTTP/1.1 101") && b.windows(4).position(|w| w == b"\r\n\r\n").map_or(false, |h| {
                    let f = &b[h + 4..];
                    f.len() >= 2 + want.len() && f[0] == 0x81 && f[1] as usize == want.len() && &f[2..2 + want.len()] == want.as_bytes()
                })
            })
        } else {
            r.as_ref().and_then(|b| crate::oracle::http::parse_response(b, false).ok()).map_or(false, |p| p.status == 200 && p.body == format!("done {id}").as_bytes())
        };
        if !ok {
            obs.fail("in-flight-session-cut-off", format!("session {id} was in flight at the interrupt but did not receive its complete response (got {:?}; events {:?})", r.as_ref().map(|b| String::from_utf8_lossy(b).into_owned()), child.seen));
        }
    }
    // the session that kept the runtime busy, and the late arrivals: whatever the accept loop took (A1 after the
    // handler's `spinning`) is a session in flight and gets its complete response
    let mut late_served = 0usize;
    if let Some(mut s) = spin_conn {
        let mut got = Vec::new();
        let _ = s.read_to_end(&mut got);
        if !crate::oracle::http::parse_response(&got, false).map_or(false, |p| p.status == 200 && p.body == b"spun") {
            obs.fail("in-flight-session-cut-off", format!("the session that was busy at the interrupt did not receive its complete response (got {:?}; events {:?})", String::from_utf8_lossy(&got), child.seen));
        }
        for (id, l) in late_conns.iter_mut().enumerate() {
            let mut got = Vec::new();
            let _ = l.read_to_end(&mut got);
            if crate::oracle::http::parse_response(&got, false).map_or(false, |p| p.status == 200 && p.body == format!("late {id}").as_bytes()) {
                late_served += 1;
            } else if !got.is_empty() {
                obs.fail("in-flight-session-cut-off", format!("late connection {id} received an incomplete response {:?}", String::from_utf8_lossy(&got)));
            }
        }
    }
    let late_total = late_conns.len();
    drop(late_conns);
    // the clients close; now howl must return and the process exit
    let mut open_conns = conns;
    open_conns.extend(idle_conns);
    // howl must not return while a session is still open? The statement: "returns exactly when all sessions that
    // were in flight have finished" — a session finishes when its connection ends. Check before closing:
    child.drain();
    // (sessions whose handler panicked have ended on the server side; their client sockets do not count)
    // (a WebSocket session ends when its handler returns: after the message nothing is open any more)
    let still_open = if ws { 0 } else { (0..before).filter(|id| panic_mask & (1 << id) == 0).count() + idle_n };
    if still_open > 0 && child.seen.iter().any(|l| l == "howl returned") {
        // keep-alive sessions are still open: returning now is early
        obs.fail("howl-returned-before-sessions-finished", format!("`howl` returned although {} keep-alive session(s) were still open (events: {:?})", still_open, child.seen));
    }
    open_conns.clear();
    let t0 = Instant::now();
    let mut exited = false;
    while t0.elapsed() < Duration::from_secs(12) {
        if let Ok(Some(_)) = child.proc.try_wait() {
            exited = true;
            break;
        }
        std::thread::sleep(Duration::from_millis(2));
    }
    if exited {
        child.drain_to_eof();
    } else {
        child.drain();
    }
    if late_total > 0 {
        let accepted_late = child.seen.iter().skip_while(|l| *l != "spinning").filter(|l| *l == "A1").count();
        if accepted_late > late_served {
            obs.fail("accepted-session-not-served", format!("the accept loop took {accepted_late} of the {late_total} connections that arrived together with the interrupt, but only {late_served} received a response before `howl` returned (events: {:?})", child.seen));
        }
    }
    if !exited {
        obs.fail("howl-did-not-return", format!("12 s after the last in-flight session finished `howl` has not returned (events: {:?})", child.seen));
    } else if !child.seen.iter().any(|l| l == "howl returned") {
        obs.fail("child-died", format!("the server process ended without `howl` returning (events: {:?})", child.seen));
    }
    finish(&mut child);
}

impl Property for C18 {
    type Case = Case;
    const ID: &'static str = "C18";
    const RULE: &'static str = "enumerated: every interleaving of the 4 steps of the real interrupt closure (H0 store flag, H1 take waker, H2 wake, H3 done — run on ctrlc's thread after a real raise(SIGINT)) with up to 9 steps of the accept loop (P0 poll begins, P1 accept returned Pending, P2 between flag load and waker publish; three polls) under a controller that grants one step at a time (hook H5) — 715 schedules, complete for that bound; generated: longer schedules (up to 24 grants) and child-process cases (a real howl with n ∈ 0–6 blocked in-flight sessions, real SIGINT, generated release order, 0–3 connection attempts after the accept loop left; some sessions' handlers panic while in flight; 0–2 further connections sit idle in keep-alive; a fifth of the cases sends a second SIGINT while draining; a quarter lets 1–3 connections (requests sent) and the interrupt arrive while the only runtime thread is busy in a handler — those the accept loop takes (hook point A1) must be served; a tenth of the children start with SIGINT ignored (inherited disposition); a tenth of the cases uses 1–3 WebSocket sessions, a keep-alive timeout of 1 s and lets 1.7 s pass after the interrupt before releasing them). Oracle part 1 (no wall clock): at quiescence the loop has exited or a wake was delivered since its last poll began; `parked ∧ flag set ∧ no wake` is the lost interrupt. Oracle part 2: every in-flight request receives its complete response although the process exits as soon as howl returns; howl has not returned while a session is blocked or open; it returns after the last one ended; attempts after the accept loop left are not served. Non-trivial = a schedule with a handler step between P1 and the end of that poll, or n ≥ 2 with a release order different from the accept order; distinct by case.";
    const ASSUMPTIONS: &'static [&'static str] = &[
        "sequentially consistent interleavings at the granularity of the hook points (the code uses SeqCst throughout)",
        "only the tokio runtime; the glommio variant (mutex-based) is not exercised",
        "WebSocket sessions (feature ws) are sessions in the sense of the statement: howl waits for them although they outlive the keep-alive timeout",
        "part 2 uses generous real-time limits (10–12 s against milliseconds of normal latency) only to decide that something never happens",
    ];

    fn new(_: Tier) -> Self {
        std::env::set_var("OHKAMI_KEEPALIVE_TIMEOUT", "30");
        C18
    }
    fn n_cases(&self, tier: Tier) -> u64 {
        tier.pick(3000, 40_000)
    }
    fn chunk(&self, _tier: Tier) -> u64 {
        60
    }
    fn max_workers(&self) -> usize {
        6
    }
    fn hang_secs(&self) -> u64 {
        120
    }
    fn shrink_budget(&self) -> (u32, u32) {
        // a failing child-process scenario waits out a 10–12 s limit on every evaluation
        (30, 20)
    }
    fn fail_fast(&self) -> bool {
        true
    }
    fn strategy(&self, _tier: Tier) -> BoxedStrategy<Case> {
        prop_oneof![
            5 => vec(prop::bool::weighted(0.3), 4..=24).prop_map(Case::Schedule),
            3 => (0u8..4, vec(prop_oneof![3 => Just(0u8), 2 => Just(1u8), 1 => 2u8..5], 0..=14)).prop_map(|(sessions, script)| Case::Drain { sessions, script }),
            1 => (0u8..7, 0u8..4, any::<u64>(), 0u8..3, prop_oneof![3 => Just(0u8), 2 => any::<u8>()], prop::bool::weighted(0.1), prop::bool::weighted(0.1), (prop_oneof![3 => Just(0u8), 1 => 1u8..=2], prop::bool::weighted(0.2), prop_oneof![3 => Just(0u8), 1 => 1u8..=3])).prop_map(|(before, after, release_seed, release_early, panic_mask, ws_linger, sigint_ignored_at_start, (idle_keepalive, second_sigint, late))| Case::Sessions(SessionCase { before, after, release_seed, release_early, panic_mask, ws_linger, sigint_ignored_at_start, idle_keepalive, second_sigint, late })),
        ]
        .boxed()
    }

    fn check(&self, case: &Case, obs: &mut Obs) {
        match case {
            Case::Schedule(s) => {
                obs.label("schedule");
                // a handler grant after some accept-loop grant: the signal arrives while a poll is in progress
                obs.nontrivial = s.windows(2).any(|w| !w[0] && w[1]);
                match run_schedule(s) {
                    SchedOutcome::Exited | SchedOutcome::WakePending => {}
                    SchedOutcome::Lost(log) => obs.fail("lost-interrupt", format!("schedule {}: the handler finished, the flag is set, the accept loop is parked and no wake is pending — it never observes the interrupt. Steps: {log:?}", render(s))),
                    SchedOutcome::Stuck(why) => obs.fail("HARNESS-BUG c18-controller-stuck", format!("schedule {}: {why}", render(s))),
                }
            }
            Case::Drain { sessions, script } => {
                obs.label("drain-wait");
                let n = 1 + (*sessions % 4) as usize;
                obs.nontrivial = script.iter().skip(1).any(|x| *x > 0);
                check_drain(n, script, obs);
            }
            Case::Sessions(sc) => {
                obs.label(if sc.ws_linger { "websocket-sessions" } else { "sessions" });
                if sc.sigint_ignored_at_start {
                    obs.label("sigint-ignored-at-start");
                }
                let before = if sc.ws_linger { 1 + (sc.before % 3) as usize } else { (sc.before % 7) as usize };
                let order = crate::harness::app::permutation(before, sc.release_seed);
                obs.nontrivial = before >= 2 && order.iter().enumerate().any(|(i, o)| i != *o);
                run_sessions(sc, obs);
            }
        }
    }

    fn enumerate(&self, _tier: Tier, obs: &mut Obs) -> Option<EnumReport> {
        let all = all_interleavings(4, 9);
        let mut n = 0u64;
        let mut nontrivial = 0u64;
        let mut lost = 0u64;
        let mut first_lost: Option<String> = None;
        for s in &all {
            n += 1;
            if s.windows(2).any(|w| !w[0] && w[1]) {
                nontrivial += 1
            }
            match run_schedule(s) {
                SchedOutcome::Exited | SchedOutcome::WakePending => {}
                SchedOutcome::Lost(log) => {
                    lost += 1;
                    if first_lost.is_none() {
                        first_lost = Some(format!("schedule {}: steps {log:?}", render(s)));
                    }
                }
                SchedOutcome::Stuck(why) => {
                    obs.fail("HARNESS-BUG c18-controller-stuck", format!("schedule {}: {why}", render(s)));
                    break;
                }
            }
        }
        // part 3, exhaustively: 1–3 sessions × every script of 7 opportunities in which each session finishes at one of
        // them (or after the script)
        let mut drain_n = 0u64;
        for sessions in 1..=3usize {
            let slots = 8usize; // 7 opportunities + "after the script"
            let total = slots.pow(sessions as u32);
            for code in 0..total {
                let mut script = vec![0u8; 7];
                let mut c = code;
                for _ in 0..sessions {
                    let at = c % slots;
                    c /= slots;
                    if at < 7 {
                        script[at] += 1
                    }
                }
                drain_n += 1;
                check_drain(sessions, &script, obs);
            }
        }
        n += drain_n;
        nontrivial += drain_n;
        if lost > 0 {
            obs.fail("lost-interrupt", format!("{lost} of {n} enumerated schedules lose the interrupt (the accept loop parks for ever although the flag is set); first: {}", first_lost.unwrap()));
        }
        Some(EnumReport {
            evaluations: n,
            distinct_nontrivial: nontrivial,
            exhaustive: true,
            note: format!("all {} interleavings of the 4 handler steps with 9 accept-loop steps (three polls) enumerated completely; plus all {drain_n} placements of the completions of 1–3 sessions over the first 7 waker/poll opportunities of the drain wait", n - drain_n),
            samples: vec![serde_json::json!({"Schedule": render(&all[all.len() / 3])}), serde_json::json!({"Schedule": render(&all[all.len() / 2])})],
        })
    }
}
