//! C12 — the JWT fang admits exactly the tokens signed with the configured key and valid now.

use crate::core::*;
use crate::harness::app::{log, Ev, M};
use crate::harness::drive::{self, FROZEN_NOW};
use ohkami::__verif__::VerifRouter;
use ohkami::fang::JWT;
use ohkami::prelude::*;
use proptest::collection::vec;
use proptest::prelude::*;
use serde::{Deserialize, Serialize};
use serde_json::{Map, Value};
use std::cmp::Ordering;

pub struct C12 {
    selftest: Result<(), String>,
}

pub const ALG_NAMES: [&str; 3] = ["HS256", "HS384", "HS512"];
/// the request buffer of the code under test (a longer head may be refused with any error: C02's assumption)
const REQUEST_BUFFER: usize = 1024;

// ---------------------------------------------------------------- case

#[derive(Debug, Clone, Serialize, Deserialize, PartialEq)]
pub struct HeaderSpec {
    /// members other than `alg`, in order (typ, cty, kid, …)
    pub members: Vec<(String, Value)>,
    /// `alg` is written before member number `alg_pos % (members + 1)`
    pub alg_pos: u8,
    /// 0 compact, 1 spaces after `:` and `,`, 2 newlines
    pub ws: u8,
}

#[derive(Debug, Clone, Serialize, Deserialize, PartialEq)]
pub enum Base {
    /// `JWT::issue` of the configuration itself
    Issued,
    /// the reference issuer: own header text, own payload text (0 sorted compact, 1 reversed member order, 2 with whitespace)
    Ref { header: HeaderSpec, payload_fmt: u8 },
}

#[derive(Debug, Clone, Serialize, Deserialize, PartialEq)]
pub enum KeyVar {
    Append(String),
    DropLast,
    SwapCase,
    Other(String),
}

#[derive(Debug, Clone, Serialize, Deserialize, PartialEq)]
pub enum PartsMut {
    /// only the first n (0..=2) parts
    Keep(u8),
    /// `h.p.` (the signature dropped, its dot kept)
    DropSigKeepDot,
    TrailingDot,
    LeadingDot,
    /// further parts after the signature (4–5 parts)
    Append(Vec<String>),
    /// the signature repeated as a fourth part
    RepeatSig,
    /// part i replaced by the empty string
    EmptyPart(u8),
    /// n dots and nothing else
    Dots(u8),
}

#[derive(Debug, Clone, Serialize, Deserialize, PartialEq)]
pub enum Mutation {
    None,
    /// one character of part `part % 3` (position counted from the start or from the end) replaced by `SUBST[with]`
    Subst {
        part: u8,
        pos: u16,
        from_end: bool,
        with: u8,
    },
    /// header and payload kept, signed with another key
    OtherKey(KeyVar),
    /// another of the three algorithms `(alg + by) % 3`: named in the header and/or used for the signature
    OtherAlg {
        by: u8,
        header_names_other: bool,
        signed_by_other: bool,
    },
    /// header names `ALG_VARIANTS[spelling]` (none, None, "", null, absent, hs256, RS256 …);
    /// sig: 0 empty, 1 absent (two parts), 2 the configured HMAC over the new `h.p`, 3 the base token's signature
    AlgHeader {
        spelling: u8,
        sig: u8,
    },
    Parts(PartsMut),
    /// signature text truncated (delta < 0) or extended (delta > 0) by |delta| characters, at its end or at its front
    SigChars {
        delta: i8,
        fill: u8,
        front: bool,
    },
    /// the MAC truncated / extended by |delta| bytes (at its end or at its front) and encoded canonically
    SigBytes {
        delta: i8,
        fill: u8,
        front: bool,
    },
    /// `=` padding appended to part `part % 3` (1–2 characters)
    Pad {
        part: u8,
        n: u8,
    },
    /// an arbitrary string instead of the token
    Replace(String),
    /// the last character of part `part % 3` replaced by one that differs only in the bits base64url leaves unused
    /// there (HS256 and HS512 signatures have 2 resp. 4 of them): decodes to the same bytes under a lenient reading
    TrailingBits {
        part: u8,
        bits: u8,
    },
}

#[derive(Debug, Clone, Serialize, Deserialize, PartialEq)]
pub enum Carrier {
    /// `Authorization: Bearer <token>`
    Bearer,
    Missing,
    /// the token alone
    NoPrefix,
    /// `Bearer<token>`
    NoSpace,
    /// `Bearer  <token>`
    DoubleSpace,
    /// another scheme word and one space (letter-case variants of Bearer, Basic, Token …)
    Scheme(String),
    /// `Bearer <token>` with a space after it (false) or before it (true): optional whitespace around a field value
    Padded(bool),
    /// an arbitrary string as the whole header value (the token is not used)
    Raw(String),
}

#[derive(Debug, Clone, Serialize, Deserialize)]
pub struct Case {
    pub secret: String,
    /// 0/1/2 = new_256/new_384/new_512, 3 = `JWT::default` (HS256)
    pub alg: u8,
    pub payload: Value,
    pub base: Base,
    pub mutation: Mutation,
    pub carrier: Carrier,
    pub method: M,
}

const SUBST: [char; 73] = [
    'A', 'B', 'C', 'D', 'E', 'F', 'G', 'H', 'I', 'J', 'K', 'L', 'M', 'N', 'O', 'P', 'Q', 'R', 'S', 'T', 'U', 'V', 'W', 'X', 'Y', 'Z', 'a', 'b', 'c', 'd', 'e', 'f', 'g', 'h', 'i', 'j', 'k', 'l', 'm', 'n', 'o', 'p', 'q', 'r', 's', 't', 'u', 'v', 'w',
    'x', 'y', 'z', '0', '1', '2', '3', '4', '5', '6', '7', '8', '9', '-', '_', '=', '+', '/', '.', ' ', '~', '%', '"', 'é',
];

/// what the header says instead of the configured algorithm; `None` = no `alg` member
fn alg_variant(spelling: u8, configured: &str) -> Option<Value> {
    Some(match spelling % 14 {
        0 => Value::from("none"),
        1 => Value::from("None"),
        2 => Value::from("NONE"),
        3 => Value::from("nOnE"),
        4 => Value::from(""),
        5 => Value::Null,
        6 => return None,
        7 => Value::from(configured.to_ascii_lowercase()),
        8 => Value::from(format!("{configured} ")),
        9 => Value::from(&configured[..4]),
        10 => Value::from(configured.replace("HS", "RS")),
        11 => Value::from(configured.replace("HS", "ES")),
        12 => Value::from(configured[2..].parse::<u64>().unwrap_or(256)),
        _ => Value::Array(vec![Value::from(configured)]),
    })
}

// ---------------------------------------------------------------- own base64url

pub mod b64url {
    pub const ALPHABET: &[u8; 64] = b"ABCDEFGHIJKLMNOPQRSTUVWXYZabcdefghijklmnopqrstuvwxyz0123456789-_";

    /// RFC 4648 §5 without padding
    pub fn encode(data: &[u8]) -> String {
        let mut out = String::with_capacity(data.len().div_ceil(3) * 4);
        for chunk in data.chunks(3) {
            let b = [chunk[0], *chunk.get(1).unwrap_or(&0), *chunk.get(2).unwrap_or(&0)];
            let n = (b[0] as u32) << 16 | (b[1] as u32) << 8 | b[2] as u32;
            out.push(ALPHABET[(n >> 18) as usize & 63] as char);
            out.push(ALPHABET[(n >> 12) as usize & 63] as char);
            if chunk.len() > 1 {
                out.push(ALPHABET[(n >> 6) as usize & 63] as char);
            }
            if chunk.len() > 2 {
                out.push(ALPHABET[n as usize & 63] as char);
            }
        }
        out
    }

    /// Lenient reading: up to two trailing `=` are dropped and unused trailing bits are ignored.
    /// `None`: a character outside the alphabet or an impossible length.
    pub fn decode_lenient(s: &str) -> Option<Vec<u8>> {
        let mut t = s.as_bytes();
        for _ in 0..2 {
            if let [rest @ .., b'='] = t {
                t = rest
            }
        }
        if t.len() % 4 == 1 {
            return None;
        }
        let mut out = Vec::with_capacity(t.len() * 3 / 4);
        let (mut acc, mut bits) = (0u32, 0u32);
        for c in t {
            let v = ALPHABET.iter().position(|a| a == c)? as u32;
            acc = (acc << 6 | v) & 0xffff;
            bits += 6;
            if bits >= 8 {
                bits -= 8;
                out.push((acc >> bits) as u8);
            }
        }
        Some(out)
    }

    /// the one spelling the encoder produces
    pub fn is_canonical(s: &str) -> bool {
        decode_lenient(s).map_or(false, |b| encode(&b) == s)
    }
}

pub fn mac(alg: usize, key: &[u8], msg: &[u8]) -> Vec<u8> {
    use hmac::{Hmac, Mac};
    macro_rules! go {
        ($h:ty) => {
            match Hmac::<$h>::new_from_slice(key) {
                Ok(mut m) => {
                    m.update(msg);
                    m.finalize().into_bytes().to_vec()
                }
                Err(_) => Vec::new(),
            }
        };
    }
    match alg % 3 {
        0 => go!(sha2::Sha256),
        1 => go!(sha2::Sha384),
        _ => go!(sha2::Sha512),
    }
}

fn hex(b: &[u8]) -> String {
    b.iter().map(|x| format!("{x:02x}")).collect()
}

/// RFC 4231 test case 2 and RFC 4648 vectors: the trusted base is what it claims to be
fn selftest() -> Result<(), String> {
    let want = [
        "5bdcc146bf60754e6a042426089575c75a003f089d2739839dec58b964ec3843",
        "af45d2e376484031617f78d2b58a6b1b9c7ef464f5a01b47e42ec3736322445e8e2240ca5e69e2c78b3239ecfab21649",
        "164b7a7bfcf819e2e395fbe73b56e0a387bd64222e831fd610270cd7ea2505549758bf75c05a994a6d034f65f8f0e6fdcaeab1a34d4a6b4b636e070a38bce737",
    ];
    for (i, w) in want.iter().enumerate() {
        let got = hex(&mac(i, b"Jefe", b"what do ya want for nothing?"));
        if got != *w {
            return Err(format!("HMAC self-test {}: {got} != {w}", ALG_NAMES[i]));
        }
    }
    for (plain, enc) in [("", ""), ("f", "Zg"), ("fo", "Zm8"), ("foo", "Zm9v"), ("foob", "Zm9vYg"), ("fooba", "Zm9vYmE"), ("foobar", "Zm9vYmFy"), ("\u{3ff}\u{3fe}", "z7_Pvg")] {
        if b64url::encode(plain.as_bytes()) != enc || b64url::decode_lenient(enc).as_deref() != Some(plain.as_bytes()) {
            return Err(format!("base64url self-test {plain:?}"));
        }
    }
    // the example of jwt.io (HS256, secret `secret`)
    let t = "eyJ0eXAiOiJKV1QiLCJhbGciOiJIUzI1NiJ9.eyJpYXQiOjE1MTYyMzkwMjIsImlkIjo0MiwibmFtZSI6ImthbmFydXMifQ";
    if b64url::encode(&mac(0, b"secret", t.as_bytes())) != "dt43rLwmy4_GA_84LMC1m5CwVc59P9as_nRFldVCH7g" {
        return Err("JWT self-test".into());
    }
    Ok(())
}

// ---------------------------------------------------------------- reference issuer

fn json_str(s: &str) -> String {
    Value::String(s.to_string()).to_string()
}
fn obj_text(members: &[(String, Value)], ws: u8) -> String {
    if members.is_empty() {
        return "{}".into();
    }
    let (open, sep, colon, close) = match ws % 3 {
        0 => ("{", ",", ":", "}"),
        1 => ("{ ", ", ", ": ", " }"),
        _ => ("{\n  ", ",\n  ", " : ", "\n}"),
    };
    let body = members.iter().map(|(k, v)| format!("{}{colon}{v}", json_str(k))).collect::<Vec<_>>().join(sep);
    format!("{open}{body}{close}")
}
fn header_text(spec: &HeaderSpec, alg: Option<Value>) -> String {
    let mut ms = spec.members.clone();
    if let Some(a) = alg {
        let at = spec.alg_pos as usize % (ms.len() + 1);
        ms.insert(at, ("alg".to_string(), a));
    }
    obj_text(&ms, spec.ws)
}
fn payload_text(payload: &Value, fmt: u8) -> String {
    match payload {
        Value::Object(o) => {
            let mut ms: Vec<(String, Value)> = o.iter().map(|(k, v)| (k.clone(), v.clone())).collect();
            if fmt % 3 == 1 {
                ms.reverse()
            }
            obj_text(&ms, fmt)
        }
        other => other.to_string(),
    }
}
fn sign(alg: usize, key: &[u8], h: &str, p: &str) -> String {
    b64url::encode(&mac(alg, key, format!("{h}.{p}").as_bytes()))
}
/// the header of the configuration's own tokens, as a spec (used when a mutation rewrites the header of an issued token)
fn issued_spec() -> HeaderSpec {
    HeaderSpec { members: vec![("typ".into(), Value::from("JWT"))], alg_pos: 1, ws: 0 }
}

// ---------------------------------------------------------------- reference verifier

#[derive(Debug, Clone, PartialEq)]
pub enum Verdict {
    /// the handler runs and sees this payload
    Accept(Value),
    /// refused; the reason names the first condition of the statement that does not hold
    Reject(&'static str),
    /// a documented don't-care region; if the handler runs it sees this payload
    Either(&'static str, Value),
}

fn cmp_now(n: &serde_json::Number, now: u64) -> Option<Ordering> {
    if let Some(u) = n.as_u64() {
        Some(u.cmp(&now))
    } else if n.as_i64().is_some() {
        Some(Ordering::Less)
    } else {
        n.as_f64().and_then(|f| f.partial_cmp(&(now as f64)))
    }
}

/// `(violations, don't-cares)` of the time claims of a payload
fn claims(payload: &Value, now: u64) -> (Vec<&'static str>, Vec<&'static str>) {
    let (mut bad, mut either) = (Vec::new(), Vec::new());
    let Value::Object(o) = payload else { return (bad, either) };
    for (name, k_int, k_other) in [("exp", "exp-passed", "exp-not-u64"), ("nbf", "nbf-in-future", "nbf-not-u64"), ("iat", "iat-in-future", "iat-not-u64")] {
        match o.get(name) {
            None => {}
            Some(Value::Number(n)) => {
                let admits = match (name, cmp_now(n, now)) {
                    ("exp", Some(Ordering::Greater)) => true,
                    ("exp", _) => false,
                    (_, Some(Ordering::Less | Ordering::Equal)) => true,
                    _ => false,
                };
                if !admits {
                    bad.push(if n.is_u64() { k_int } else { k_other })
                }
            }
            Some(_) => either.push("claim-not-a-number"),
        }
    }
    (bad, either)
}

/// The statement, literally: exactly three parts ∧ signature = HMAC_alg(secret, `h.p`) ∧ header's alg = configured ∧ claims admit now.
pub fn verify_token(token: &str, secret: &[u8], alg: usize, now: u64) -> Verdict {
    let parts: Vec<&str> = token.split('.').collect();
    if parts.len() < 3 {
        return Verdict::Reject("too-few-parts");
    }
    let (h, p, s) = (parts[0], parts[1], parts[2]);
    let Some(hb) = b64url::decode_lenient(h) else { return Verdict::Reject("header-not-base64url") };
    let Some(pb) = b64url::decode_lenient(p) else { return Verdict::Reject("payload-not-base64url") };
    let Some(sb) = b64url::decode_lenient(s) else { return Verdict::Reject("signature-not-base64url") };
    let Ok(hv) = serde_json::from_slice::<Value>(&hb) else { return Verdict::Reject("header-not-json") };
    let Ok(pv) = serde_json::from_slice::<Value>(&pb) else { return Verdict::Reject("payload-not-json") };
    let Some(named) = hv.as_object().and_then(|o| o.get("alg")) else { return Verdict::Reject("alg-missing") };
    match named.as_str() {
        Some(a) if a == ALG_NAMES[alg % 3] => {}
        Some(a) if a.eq_ignore_ascii_case("none") => return Verdict::Reject("alg-none"),
        _ => return Verdict::Reject("alg-mismatch"),
    }
    let want = mac(alg, secret, format!("{h}.{p}").as_bytes());
    if sb != want {
        return Verdict::Reject(if sb.len() < want.len() && (want.starts_with(&sb) || want.ends_with(&sb)) {
            "signature-truncated"
        } else if sb.len() > want.len() && (sb.starts_with(&want) || sb.ends_with(&want)) {
            "signature-extended"
        } else {
            "bad-signature"
        });
    }
    if parts.len() > 3 {
        return Verdict::Reject("extra-parts");
    }
    let (bad, claim_either) = claims(&pv, now);
    if let Some(b) = bad.first() {
        return Verdict::Reject(b);
    }
    // "any byte of its three parts altered … is refused": a signature part that decodes to the right MAC only under
    // a lenient reading (`=` appended, unused trailing bits set) is an altered byte of the token that would verify
    if !b64url::is_canonical(s) {
        return Verdict::Reject("signature-not-canonical-base64url");
    }
    // don't-care regions (header/payload parts written non-canonically *and* signed as written)
    if !(b64url::is_canonical(h) && b64url::is_canonical(p)) {
        return Verdict::Either("non-canonical-base64url", pv);
    }
    if hv.get("typ").is_some_and(|t| t != "JWT") {
        return Verdict::Either("typ-mismatch", pv);
    }
    if hv.get("cty").is_some() {
        return Verdict::Either("cty", pv);
    }
    if let Some(e) = claim_either.first() {
        return Verdict::Either(e, pv);
    }
    Verdict::Accept(pv)
}

fn verify_value_verbatim(value: &str, secret: &[u8], alg: usize, now: u64) -> Verdict {
    if let Some(tok) = value.strip_prefix("Bearer ") {
        return verify_token(tok, secret, alg, now);
    }
    let b = value.as_bytes();
    if b.len() >= 7 && b[..6].eq_ignore_ascii_case(b"bearer") && b[6] == b' ' {
        // the scheme's letter case: don't care
        return match verify_token(&value[7..], secret, alg, now) {
            Verdict::Accept(p) | Verdict::Either(_, p) => Verdict::Either("scheme-letter-case", p),
            Verdict::Reject(_) => Verdict::Reject("no-bearer-prefix"),
        };
    }
    Verdict::Reject("no-bearer-prefix")
}

/// The verdict on an `Authorization` field value. Optional whitespace around a field value is not part
/// of it (RFC 9110), the code under test reads the line verbatim (C02's soft class): where the two
/// readings differ both outcomes are accepted.
pub fn verify_value(value: Option<&str>, secret: &[u8], alg: usize, now: u64) -> Verdict {
    let Some(value) = value else { return Verdict::Reject("missing-header") };
    let a = verify_value_verbatim(value, secret, alg, now);
    let trimmed = value.trim_matches(|c| c == ' ' || c == '\t');
    if trimmed == value {
        return a;
    }
    let b = verify_value_verbatim(trimmed, secret, alg, now);
    match (a, b) {
        (Verdict::Reject(r), Verdict::Reject(_)) => Verdict::Reject(r),
        (Verdict::Accept(p), _) | (_, Verdict::Accept(p)) | (Verdict::Either(_, p), _) | (_, Verdict::Either(_, p)) => Verdict::Either("optional-whitespace", p),
    }
}

// ---------------------------------------------------------------- tokens of a case

fn split3(base: &str) -> (String, String, String) {
    let mut it = base.splitn(3, '.');
    (it.next().unwrap_or("").to_string(), it.next().unwrap_or("").to_string(), it.next().unwrap_or("").to_string())
}

fn other_key(secret: &str, kv: &KeyVar) -> String {
    match kv {
        KeyVar::Append(s) => format!("{secret}{s}"),
        KeyVar::DropLast => {
            let mut cs: Vec<char> = secret.chars().collect();
            cs.pop();
            cs.into_iter().collect()
        }
        KeyVar::SwapCase => secret.chars().map(|c| if c.is_ascii_lowercase() { c.to_ascii_uppercase() } else { c.to_ascii_lowercase() }).collect(),
        KeyVar::Other(s) => s.clone(),
    }
}

fn mutate(case: &Case, base: &str) -> String {
    let alg = alg_index(case.alg);
    let key = case.secret.as_bytes();
    let (h, p, s) = split3(base);
    let spec = match &case.base {
        Base::Issued => issued_spec(),
        Base::Ref { header, .. } => header.clone(),
    };
    match &case.mutation {
        Mutation::None => base.to_string(),
        Mutation::Subst { part, pos, from_end, with } => {
            let mut parts = [h, p, s];
            let t = &mut parts[*part as usize % 3];
            let mut cs: Vec<char> = t.chars().collect();
            if !cs.is_empty() {
                let i = *pos as usize % cs.len();
                let i = if *from_end { cs.len() - 1 - i } else { i };
                cs[i] = SUBST[*with as usize % SUBST.len()];
            }
            *t = cs.into_iter().collect();
            parts.join(".")
        }
        Mutation::OtherKey(kv) => format!("{h}.{p}.{}", sign(alg, other_key(&case.secret, kv).as_bytes(), &h, &p)),
        Mutation::OtherAlg { by, header_names_other, signed_by_other } => {
            let other = (alg + 1 + (*by as usize % 2)) % 3;
            let h2 = if *header_names_other { b64url::encode(header_text(&spec, Some(Value::from(ALG_NAMES[other]))).as_bytes()) } else { h.clone() };
            format!("{h2}.{p}.{}", sign(if *signed_by_other { other } else { alg }, key, &h2, &p))
        }
        Mutation::AlgHeader { spelling, sig } => {
            let h2 = b64url::encode(header_text(&spec, alg_variant(*spelling, ALG_NAMES[alg])).as_bytes());
            match sig % 4 {
                0 => format!("{h2}.{p}."),
                1 => format!("{h2}.{p}"),
                2 => format!("{h2}.{p}.{}", sign(alg, key, &h2, &p)),
                _ => format!("{h2}.{p}.{s}"),
            }
        }
        Mutation::Parts(pm) => match pm {
            PartsMut::Keep(n) => match n % 3 {
                0 => String::new(),
                1 => h,
                _ => format!("{h}.{p}"),
            },
            PartsMut::DropSigKeepDot => format!("{h}.{p}."),
            PartsMut::TrailingDot => format!("{base}."),
            PartsMut::LeadingDot => format!(".{base}"),
            PartsMut::Append(more) => {
                let mut t = base.to_string();
                for m in more {
                    t.push('.');
                    t.push_str(m);
                }
                t
            }
            PartsMut::RepeatSig => format!("{base}.{s}"),
            PartsMut::EmptyPart(i) => {
                let mut parts = [h, p, s];
                parts[*i as usize % 3].clear();
                parts.join(".")
            }
            PartsMut::Dots(n) => ".".repeat(*n as usize % 6),
        },
        Mutation::SigChars { delta, fill, front } => {
            let mut cs: Vec<char> = s.chars().collect();
            resize(&mut cs, *delta, SUBST[*fill as usize % 64], *front);
            format!("{h}.{p}.{}", cs.into_iter().collect::<String>())
        }
        Mutation::SigBytes { delta, fill, front } => {
            let mut b = b64url::decode_lenient(&s).unwrap_or_default();
            resize(&mut b, *delta, *fill, *front);
            format!("{h}.{p}.{}", b64url::encode(&b))
        }
        Mutation::Pad { part, n } => {
            let mut parts = [h, p, s];
            for _ in 0..(1 + *n % 2) {
                parts[*part as usize % 3].push('=');
            }
            parts.join(".")
        }
        Mutation::Replace(t) => t.clone(),
        Mutation::TrailingBits { part, bits } => {
            let mut parts = [h, p, s];
            let t = &mut parts[*part as usize % 3];
            let mask: usize = match t.len() % 4 {
                2 => 0xf,
                3 => 0x3,
                _ => 0,
            };
            if let Some(last) = t.pop() {
                let idx = b64url::ALPHABET.iter().position(|a| *a as char == last);
                match idx {
                    Some(i) if mask != 0 => {
                        // a different value of the unused bits (never the same character)
                        let low = (i & mask) ^ (1 + (*bits as usize % mask));
                        t.push(b64url::ALPHABET[(i & !mask) | (low & mask)] as char)
                    }
                    _ => t.push(last),
                }
            }
            parts.join(".")
        }
    }
}

/// shorten (delta < 0) or lengthen (delta > 0) at the end or at the front
fn resize<T: Clone>(v: &mut Vec<T>, delta: i8, fill: T, front: bool) {
    let n = delta.unsigned_abs() as usize;
    if front {
        v.reverse()
    }
    if delta < 0 {
        v.truncate(v.len().saturating_sub(n));
    } else {
        v.extend(std::iter::repeat(fill).take(n));
    }
    if front {
        v.reverse()
    }
}

fn carrier_value(c: &Carrier, token: &str) -> Option<String> {
    match c {
        Carrier::Bearer => Some(format!("Bearer {token}")),
        Carrier::Missing => None,
        Carrier::NoPrefix => Some(token.to_string()),
        Carrier::NoSpace => Some(format!("Bearer{token}")),
        Carrier::DoubleSpace => Some(format!("Bearer  {token}")),
        Carrier::Scheme(s) => Some(format!("{s} {token}")),
        Carrier::Padded(false) => Some(format!("Bearer {token} ")),
        Carrier::Padded(true) => Some(format!(" Bearer {token}")),
        Carrier::Raw(v) => Some(v.clone()),
    }
}

fn alg_index(a: u8) -> usize {
    match a % 4 {
        3 => 0,
        n => n as usize,
    }
}
fn make_jwt(a: u8, secret: String) -> JWT<Value> {
    match a % 4 {
        0 => JWT::new_256(secret),
        1 => JWT::new_384(secret),
        2 => JWT::new_512(secret),
        _ => JWT::default(secret),
    }
}

async fn echo(Context(payload): Context<'_, Value>) -> String {
    let s = payload.to_string();
    log(Ev::Handler(0, vec![s.clone()]));
    s
}

fn no_controls(s: &str) -> bool {
    !s.chars().any(|c| c.is_control())
}

// ---------------------------------------------------------------- generators

fn now_f() -> f64 {
    FROZEN_NOW as f64
}
/// values of a time claim that admit / do not admit the frozen now
fn claim_values(name: &str, admissible: bool) -> Vec<Value> {
    let now = FROZEN_NOW;
    let later: Vec<Value> = vec![
        Value::from(now + 1),
        Value::from(now + 2),
        Value::from(now + 3600),
        Value::from(now + 1_000_000_000),
        Value::from(u64::MAX),
        Value::from(now_f() + 0.5),
        Value::from(now_f() + 1.0),
        Value::from(now_f() + 1.5),
        Value::from(now_f() + 0.25),
        Value::from(1e18),
    ];
    let not_later: Vec<Value> = vec![
        Value::from(now),
        Value::from(now - 1),
        Value::from(now - 3600),
        Value::from(1u64),
        Value::from(0u64),
        Value::from(now_f()),
        Value::from(now_f() - 0.5),
        Value::from(now_f() - 1.0),
        Value::from(0.5),
        Value::from(-1i64),
        Value::from(-(now as i64)),
        Value::from(-0.5),
    ];
    // exp admits now iff it is later than now; nbf and iat admit now iff they are not later
    if (name == "exp") == admissible {
        later
    } else {
        not_later
    }
}

fn leaf() -> impl Strategy<Value = Value> {
    prop_oneof![
        3 => any::<i32>().prop_map(Value::from),
        1 => any::<u64>().prop_map(Value::from),
        3 => "[ -~]{0,12}".prop_map(Value::from),
        2 => "\\PC{0,8}".prop_map(Value::from),
        1 => any::<bool>().prop_map(Value::from),
        1 => Just(Value::Null),
        1 => (-8000i32..8000).prop_map(|k| Value::from(k as f64 / 8.0)),
    ]
}
fn member_value() -> impl Strategy<Value = Value> {
    prop_oneof![
        6 => leaf(),
        1 => vec(leaf(), 0..3).prop_map(Value::Array),
        // a nested object with a claim name inside: must not be read as a claim
        1 => (prop_oneof![Just("exp"), Just("nbf"), Just("iat"), Just("a")], leaf()).prop_map(|(k, v)| {
            let mut m = Map::new();
            m.insert(k.to_string(), v);
            Value::Object(m)
        }),
    ]
}
fn member_name() -> impl Strategy<Value = String> {
    prop_oneof![
        3 => "[a-z_]{1,8}",
        2 => prop_oneof![Just("sub"), Just("name"), Just("admin"), Just("user_id"), Just("alg"), Just("typ"), Just(""), Just("Exp"), Just("exp ")].prop_map(String::from),
        1 => "\\PC{1,5}",
    ]
}

/// (payload whose claims admit now, the same with exactly one claim replaced by an inadmissible value, free payload)
fn payload_strategy() -> impl Strategy<Value = (Value, Value, Value)> {
    let slot = |name: &'static str| prop_oneof![4 => Just(None), 6 => any::<prop::sample::Index>().prop_map(move |i| { let v = claim_values(name, true); Some(v[i.index(v.len())].clone()) })];
    let others = vec((member_name(), member_value()), 0..=4);
    let free_claim = |name: &'static str| {
        prop_oneof![
            4 => Just(None),
            3 => any::<prop::sample::Index>().prop_map(move |i| { let v = claim_values(name, true); Some(v[i.index(v.len())].clone()) }),
            3 => any::<prop::sample::Index>().prop_map(move |i| { let v = claim_values(name, false); Some(v[i.index(v.len())].clone()) }),
            1 => prop_oneof![Just(Value::Null), Just(Value::from("1709210097")), Just(Value::from(true)), Just(Value::Array(vec![])), Just(Value::from("x"))].prop_map(Some),
        ]
    };
    (others, slot("exp"), slot("nbf"), slot("iat"), 0usize..3, any::<prop::sample::Index>(), free_claim("exp"), free_claim("nbf"), free_claim("iat")).prop_map(|(others, e, n, i, which, idx, fe, fnb, fi)| {
        let mut m = Map::new();
        for (k, v) in others {
            if !matches!(k.as_str(), "exp" | "nbf" | "iat") {
                m.insert(k, v);
            }
        }
        let mut ok = m.clone();
        for (k, v) in [("exp", e), ("nbf", n), ("iat", i)] {
            if let Some(v) = v {
                ok.insert(k.to_string(), v);
            }
        }
        let mut bad = ok.clone();
        let name = ["exp", "nbf", "iat"][which];
        let vals = claim_values(name, false);
        bad.insert(name.to_string(), vals[idx.index(vals.len())].clone());
        let mut free = m;
        for (k, v) in [("exp", fe), ("nbf", fnb), ("iat", fi)] {
            if let Some(v) = v {
                free.insert(k.to_string(), v);
            }
        }
        (Value::Object(ok), Value::Object(bad), Value::Object(free))
    })
}

fn secret_strategy() -> impl Strategy<Value = String> {
    prop_oneof![
        1 => Just(String::new()),
        6 => "[ -~]{1,40}",
        3 => "\\PC{1,24}",
        1 => "(.|\\n){1,16}",
        // around the block sizes of SHA-256 (64) and SHA-384/512 (128): longer keys are hashed first
        2 => (prop_oneof![Just(63usize), Just(64), Just(65), Just(127), Just(128), Just(129)], "[a-zA-Z0-9]{129}").prop_map(|(n, s)| s[..n].to_string()),
        1 => "[a-z0-9]{200,3000}",
    ]
}

fn header_strategy() -> impl Strategy<Value = HeaderSpec> {
    let member = prop_oneof![
        6 => Just(("typ".to_string(), Value::from("JWT"))),
        1 => prop_oneof![Just(Value::from("jwt")), Just(Value::from("Jwt")), Just(Value::from("JOSE")), Just(Value::from("at+jwt")), Just(Value::from("")), Just(Value::from(5)), Just(Value::Null)].prop_map(|v| ("typ".to_string(), v)),
        1 => prop_oneof![Just(Value::from("JWT")), Just(Value::from("jwt")), Just(Value::from("json")), Just(Value::from(1))].prop_map(|v| ("cty".to_string(), v)),
        2 => "[a-z0-9-]{1,8}".prop_map(|v| ("kid".to_string(), Value::from(v))),
        2 => ("[a-z]{1,5}", leaf()).prop_map(|(k, v)| (format!("x-{k}"), v)),
        1 => ("\\PC{1,4}", leaf()),
    ];
    (vec(member, 0..=3), any::<u8>(), prop_oneof![4 => Just(0u8), 1 => Just(1u8), 1 => Just(2u8)]).prop_map(|(ms, alg_pos, ws)| {
        let mut members: Vec<(String, Value)> = Vec::new();
        for (k, v) in ms {
            if k != "alg" && !members.iter().any(|(n, _)| *n == k) {
                members.push((k, v));
            }
        }
        HeaderSpec { members, alg_pos, ws }
    })
}

fn garbage() -> impl Strategy<Value = String> {
    prop_oneof![
        3 => "[A-Za-z0-9_.-]{0,60}",
        2 => "[ -~]{0,40}".prop_map(|s| s.trim().to_string()),
        1 => "\\PC{0,20}".prop_map(|s| s.trim().to_string()),
        1 => "[A-Za-z0-9_-]{1,30}\\.[A-Za-z0-9_-]{1,30}\\.[A-Za-z0-9_-]{43}",
        1 => prop_oneof![Just(""), Just("e30.e30."), Just("e30.e30.e30"), Just(".."), Just("eyJhbGciOiJub25lIn0.e30."), Just("null.null.null")].prop_map(String::from),
    ]
}

fn mutation_strategy() -> impl Strategy<Value = Mutation> {
    let key_var = prop_oneof![
        2 => "[ -~]{1,3}".prop_map(KeyVar::Append),
        1 => Just(KeyVar::Append("\0".into())),
        2 => Just(KeyVar::DropLast),
        1 => Just(KeyVar::SwapCase),
        2 => "[ -~]{0,20}".prop_map(KeyVar::Other),
    ];
    let parts = prop_oneof![
        2 => (0u8..3).prop_map(PartsMut::Keep),
        1 => Just(PartsMut::DropSigKeepDot),
        2 => Just(PartsMut::TrailingDot),
        1 => Just(PartsMut::LeadingDot),
        4 => vec(prop_oneof![Just(String::new()), "[A-Za-z0-9_-]{1,12}", Just("e30".to_string()), "[ -~&&[^.]]{1,6}".prop_map(|s| s.trim().to_string())], 1..=2).prop_map(PartsMut::Append),
        1 => Just(PartsMut::RepeatSig),
        2 => (0u8..3).prop_map(PartsMut::EmptyPart),
        1 => (0u8..6).prop_map(PartsMut::Dots),
    ];
    prop_oneof![
        7 => (0u8..3, prop_oneof![3 => any::<u16>(), 1 => Just(0u16)], any::<bool>(), 0u8..(SUBST.len() as u8)).prop_map(|(part, pos, from_end, with)| Mutation::Subst { part, pos, from_end, with }),
        2 => key_var.prop_map(Mutation::OtherKey),
        2 => (0u8..2, any::<bool>(), any::<bool>()).prop_filter("no change", |(_, h, s)| *h || *s).prop_map(|(by, header_names_other, signed_by_other)| Mutation::OtherAlg { by, header_names_other, signed_by_other }),
        2 => (0u8..14, 0u8..4).prop_map(|(spelling, sig)| Mutation::AlgHeader { spelling, sig }),
        4 => parts.prop_map(Mutation::Parts),
        2 => (prop_oneof![-90i8..0, 1i8..6], any::<u8>(), prop::bool::weighted(0.3)).prop_map(|(delta, fill, front)| Mutation::SigChars { delta, fill, front }),
        2 => (prop_oneof![-64i8..0, 1i8..4], any::<u8>(), prop::bool::weighted(0.4)).prop_map(|(delta, fill, front)| Mutation::SigBytes { delta, fill, front }),
        1 => (0u8..3, 0u8..2).prop_map(|(part, n)| Mutation::Pad { part, n }),
        1 => (prop_oneof![1 => 0u8..2, 3 => Just(2u8)], any::<u8>()).prop_map(|(part, bits)| Mutation::TrailingBits { part, bits }),
        1 => garbage().prop_map(Mutation::Replace),
    ]
}

fn carrier_strategy() -> impl Strategy<Value = Carrier> {
    prop_oneof![
        3 => Just(Carrier::Missing),
        2 => Just(Carrier::NoPrefix),
        2 => Just(Carrier::NoSpace),
        1 => Just(Carrier::DoubleSpace),
        1 => any::<bool>().prop_map(Carrier::Padded),
        3 => prop_oneof![Just("bearer"), Just("BEARER"), Just("bEARER"), Just("Bearer:"), Just("Basic"), Just("Token"), Just("JWT"), Just("Bearer,"), Just("Bear")].prop_map(|s| Carrier::Scheme(s.to_string())),
        2 => prop_oneof![garbage(), garbage().prop_map(|g| format!("Bearer {g}")), Just("Bearer".to_string()), Just("Bearer ".to_string())].prop_map(Carrier::Raw),
    ]
}

fn mutation_label(m: &Mutation) -> &'static str {
    match m {
        Mutation::None => "none",
        Mutation::Subst { part, .. } => ["mut:subst-header", "mut:subst-payload", "mut:subst-signature"][*part as usize % 3],
        Mutation::OtherKey(_) => "mut:other-key",
        Mutation::OtherAlg { .. } => "mut:other-alg",
        Mutation::AlgHeader { .. } => "mut:alg-none-or-unknown",
        Mutation::Parts(_) => "mut:part-count",
        Mutation::SigChars { .. } | Mutation::SigBytes { .. } => "mut:signature-length",
        Mutation::Pad { .. } => "mut:padding",
        Mutation::Replace(_) => "mut:arbitrary-string",
        Mutation::TrailingBits { .. } => "mut:unused-trailing-bits",
    }
}
fn carrier_label(c: &Carrier) -> &'static str {
    match c {
        Carrier::Bearer => "bearer",
        Carrier::Missing => "carrier:missing-header",
        Carrier::NoPrefix | Carrier::NoSpace | Carrier::DoubleSpace => "carrier:no-bearer-prefix",
        Carrier::Scheme(_) => "carrier:scheme-variant",
        Carrier::Padded(_) => "carrier:optional-whitespace",
        Carrier::Raw(_) => "carrier:arbitrary-value",
    }
}

impl C12 {
    /// One request; the outcome is compared with the reference verdict.
    #[allow(clippy::too_many_arguments)]
    fn judge(&self, obs: &mut Obs, router: &VerifRouter, method: M, value: Option<&str>, want: &Verdict, variation: &str, ctx: &str) {
        obs.evals += 1;
        let mut headers = vec![("Host".to_string(), "t".to_string())];
        if let Some(v) = value {
            headers.push(("Authorization".to_string(), v.to_string()));
        }
        let oversized = drive::request_bytes(method.as_str(), "/", &headers, None).len() > REQUEST_BUFFER;
        let o = match panic::catch(std::panic::AssertUnwindSafe(|| drive::request(router, method.as_str(), "/", &headers, None))) {
            Ok(Ok(o)) => o,
            Ok(Err(e)) => {
                obs.fail("malformed-response", format!("{ctx}: {e}"));
                return;
            }
            Err(pi) => {
                obs.fail(pi.key(), format!("{ctx}: {}", pi.describe()));
                return;
            }
        };
        let ran: Vec<&String> = o.log.iter().filter_map(|e| if let Ev::Handler(_, v) = e { v.first() } else { None }).collect();
        let status = o.status();
        if o.res.is_none() {
            obs.fail("no-response", format!("{ctx}: connection closed without a response"));
            return;
        }
        if method == M::OPTIONS {
            // the documented bypass: the fang answers by itself, whatever the token
            if !ran.is_empty() {
                obs.fail("options:handler-ran", format!("{ctx}: the protected handler ran on an OPTIONS request"));
            }
            return;
        }
        let check_payload = |obs: &mut Obs, p: &Value| {
            if ran.len() != 1 {
                obs.fail("handler-ran-more-than-once", format!("{ctx}: handler ran {} times", ran.len()));
            }
            match serde_json::from_str::<Value>(ran[0]) {
                Ok(seen) if seen == *p => {}
                _ => obs.fail("payload-mismatch", format!("{ctx}: the handler observed {} but the signed payload is {p}", ran[0])),
            }
            if status != 200 {
                obs.fail("handler-ran-but-status", format!("{ctx}: the handler ran and the status is {status}"));
            }
        };
        match want {
            Verdict::Accept(p) => {
                if ran.is_empty() {
                    if oversized {
                        obs.ambiguous += 1;
                        obs.label("either:request-longer-than-buffer");
                    } else {
                        obs.fail(format!("refused:{variation}:{status}"), format!("{ctx}: the reference verifier accepts this token; observed {}", o.summary()));
                    }
                } else {
                    check_payload(obs, p);
                }
            }
            Verdict::Reject(why) => {
                if !ran.is_empty() {
                    obs.fail(format!("accepted:{why}"), format!("{ctx}: must be refused ({why}); the handler ran and observed {}", ran[0]));
                } else if status < 400 {
                    obs.fail("refused-without-error-status", format!("{ctx}: must be refused ({why}); handler did not run but the status is {status}"));
                }
            }
            Verdict::Either(_, p) => {
                obs.ambiguous += 1;
                if !ran.is_empty() {
                    check_payload(obs, p);
                } else if status < 400 {
                    obs.fail("refused-without-error-status", format!("{ctx}: handler did not run but the status is {status}"));
                }
            }
        }
    }
}

impl Property for C12 {
    type Case = Case;
    const ID: &'static str = "C12";
    const RULE: &'static str = "generated: secret (empty, ASCII, Unicode, control characters, lengths around the SHA block sizes, up to 3000) × HS256/384/512 (and JWT::default) × payload object (0–4 arbitrary members incl. nested objects carrying claim names; exp/nbf/iat absent or before/at/after the frozen now as u64, negative, fractional and float-typed numbers) × base token (JWT::issue of the configuration, or the reference issuer with header member order, extra members, typ/cty variants, whitespace, payload member order) × one mutation (single-character substitution at a sampled position of a part, other key, other algorithm in header and/or signature, alg none/unknown/missing with empty, absent, re-computed or original signature, 0–5 parts, empty parts, leading/trailing dot, signature shorter/longer by characters or bytes, padding, unused trailing bits of a part's last character, arbitrary string) × carrier (Bearer, missing header, no prefix, no space, other scheme words and letter cases, arbitrary value) × 7 methods. A router with the fang on the root and an echo handler is built per case; when the base token is reference-valid it is first sent unmodified (control), then the mutated request. Oracle: reference verifier of the statement (own base64url, RustCrypto HMAC checked against RFC 4231 vectors) on the field value ⇒ handler ran once with exactly the signed payload and 200 | handler did not run and status ≥ 400; tokens of JWT::issue must satisfy the reference verifier (up to their own time claims) and decode to the payload; OPTIONS: handler did not run. Non-trivial = reference-valid base token with exactly one deviation (mutation or carrier) that the reference refuses, or a correctly signed token with exactly one inadmissible claim; distinct by case.";
    const ASSUMPTIONS: &'static [&'static str] = &[
        "don't-care (either outcome, payload still checked): typ other than \"JWT\", any cty, letter case of the Bearer scheme, `=` padding or non-zero trailing bits in a header or payload part that was signed as written (in the signature part they are refused: an altered byte), time claims that are not numbers, optional whitespace around the field value",
        "a request longer than the 1 KiB request buffer may be refused (C02's assumption); it must still never be accepted wrongly",
        "HMAC-SHA2 (RustCrypto) and serde_json's parser are trusted base; floats in payloads have at most 15 significant digits so that JSON text round-trips exactly",
        "OPTIONS is answered by the fang itself (documented bypass): only `the handler did not run` is demanded",
        "the clock is frozen (hook H4)",
    ];

    fn new(_: Tier) -> Self {
        drive::freeze_clock();
        C12 { selftest: selftest() }
    }
    fn n_cases(&self, tier: Tier) -> u64 {
        tier.pick(600_000, 4_000_000)
    }
    fn chunk(&self, _tier: Tier) -> u64 {
        1000
    }
    /// "…admit the current time": with the freeze of hook H4 lifted, the clock the fang compares the claims with is the
    /// wall clock's whole second — sampled densely over 1.3 s (every phase of a second, at least one second border).
    fn enumerate(&self, _tier: Tier, obs: &mut Obs) -> Option<EnumReport> {
        use std::time::{Duration, Instant, SystemTime, UNIX_EPOCH};
        ohkami::util::__verif_clock__::freeze(0);
        let secs = || SystemTime::now().duration_since(UNIX_EPOCH).map(|d| d.as_secs()).unwrap_or(0);
        let t0 = Instant::now();
        let mut n = 0u64;
        let mut seen = std::collections::BTreeSet::new();
        while t0.elapsed() < Duration::from_millis(1300) {
            let a = secs();
            let t = ohkami::util::unix_timestamp();
            let b = secs();
            n += 1;
            // (a > b: the wall clock was stepped back between the two samples — no verdict)
            if a <= b && !(a <= t && t <= b) {
                obs.fail("clock:unix_timestamp-differs-from-wall-clock", format!("unix_timestamp() = {t} while the wall clock read {a} before and {b} after the call ({:?} after the first sample)", t0.elapsed()));
                break;
            }
            seen.insert(t);
            std::thread::sleep(Duration::from_micros(150));
        }
        drive::freeze_clock();
        Some(EnumReport {
            evaluations: n,
            distinct_nontrivial: seen.len() as u64,
            exhaustive: false,
            note: format!("clock: {n} samples of unix_timestamp() against the wall clock over 1.3 s, {} distinct seconds", seen.len()),
            samples: vec![serde_json::json!({"clock_samples": n, "seconds_seen": seen.iter().collect::<Vec<_>>()})],
        })
    }
    fn in_domain(&self, case: &Case) -> bool {
        let header_ok = match &case.base {
            Base::Issued => true,
            Base::Ref { header, .. } => header.members.iter().enumerate().all(|(i, (k, _))| k != "alg" && !header.members[..i].iter().any(|(n, _)| n == k)),
        };
        let mutation_ok = match &case.mutation {
            Mutation::Replace(s) => no_controls(s),
            Mutation::Parts(PartsMut::Append(v)) => v.iter().all(|s| no_controls(s)),
            _ => true,
        };
        let carrier_ok = match &case.carrier {
            Carrier::Scheme(s) => !s.is_empty() && s.bytes().all(|b| b.is_ascii_graphic()),
            Carrier::Raw(s) => no_controls(s),
            _ => true,
        };
        case.payload.is_object() && header_ok && mutation_ok && carrier_ok
    }

    fn strategy(&self, _tier: Tier) -> BoxedStrategy<Case> {
        let base = prop_oneof![
            2 => Just(Base::Issued),
            3 => (header_strategy(), 0u8..3).prop_map(|(header, payload_fmt)| Base::Ref { header, payload_fmt }),
        ];
        let method = prop_oneof![
            6 => Just(M::GET),
            2 => Just(M::POST),
            1 => Just(M::PUT),
            1 => Just(M::PATCH),
            1 => Just(M::DELETE),
            1 => Just(M::HEAD),
            1 => Just(M::OPTIONS),
        ];
        // plan: 0 valid, 1 one inadmissible claim, 2 one mutation, 3 one carrier deviation, 4 free combination
        let plan = prop_oneof![3 => Just(0u8), 4 => Just(1u8), 10 => Just(2u8), 2 => Just(3u8), 2 => Just(4u8)];
        (secret_strategy(), 0u8..4, payload_strategy(), base, mutation_strategy(), carrier_strategy(), method, plan, any::<bool>(), any::<bool>())
            .prop_map(|(secret, alg, (ok, bad, free), base, mutation, carrier, method, plan, free_mutation, free_carrier)| match plan {
                0 => Case { secret, alg, payload: ok, base, mutation: Mutation::None, carrier: Carrier::Bearer, method },
                1 => Case { secret, alg, payload: bad, base, mutation: Mutation::None, carrier: Carrier::Bearer, method },
                2 => Case { secret, alg, payload: ok, base, mutation, carrier: Carrier::Bearer, method },
                3 => Case { secret, alg, payload: ok, base, mutation: Mutation::None, carrier, method },
                _ => Case { secret, alg, payload: free, base, mutation: if free_mutation { mutation } else { Mutation::None }, carrier: if free_carrier { carrier } else { Carrier::Bearer }, method },
            })
            .boxed()
    }

    fn check(&self, case: &Case, obs: &mut Obs) {
        if let Err(e) = &self.selftest {
            obs.fail("HARNESS-BUG selftest", e.clone());
            return;
        }
        if !self.in_domain(case) {
            obs.label("out-of-domain");
            return;
        }
        let alg = alg_index(case.alg);
        let key = case.secret.as_bytes();
        let now = FROZEN_NOW;
        let jwt = make_jwt(case.alg, case.secret.clone());

        // ---- the base token
        let (base, variation) = match &case.base {
            Base::Issued => {
                let t: String = match panic::catch(std::panic::AssertUnwindSafe(|| jwt.clone().issue(case.payload.clone()))) {
                    Ok(t) => t.into(),
                    Err(pi) => {
                        obs.fail(format!("issue:{}", pi.key()), pi.describe());
                        return;
                    }
                };
                // `issue` against the independent HMAC: everything but the token's own time claims must hold
                let (bad_claims, _) = claims(&case.payload, now);
                match verify_token(&t, key, alg, now) {
                    Verdict::Accept(p) | Verdict::Either("claim-not-a-number", p) => {
                        if p != case.payload {
                            obs.fail("issue:payload-differs", format!("issued token {t} carries {p}, the payload is {}", case.payload));
                        }
                    }
                    Verdict::Reject(r) if bad_claims.first() == Some(&r) => {}
                    Verdict::Reject(r) => obs.fail(format!("issue:{r}"), format!("token {t} issued for {} with {} is refused by the reference verifier: {r}", case.payload, ALG_NAMES[alg])),
                    Verdict::Either(r, _) => obs.fail(format!("issue:{r}"), format!("token {t} issued by the configuration is not canonical: {r}")),
                }
                (t, "issued-token")
            }
            Base::Ref { header, payload_fmt } => {
                let h = b64url::encode(header_text(header, Some(Value::from(ALG_NAMES[alg]))).as_bytes());
                let p = b64url::encode(payload_text(&case.payload, *payload_fmt).as_bytes());
                let s = sign(alg, key, &h, &p);
                let plain = header.members.iter().all(|(k, v)| k == "typ" && v == "JWT");
                let variation = if !plain {
                    "reference-token:header-members"
                } else if header.alg_pos as usize % (header.members.len() + 1) != header.members.len() {
                    "reference-token:alg-first"
                } else if header.ws % 3 != 0 || payload_fmt % 3 != 0 {
                    "reference-token:json-layout"
                } else {
                    "reference-token"
                };
                (format!("{h}.{p}.{s}"), variation)
            }
        };
        let base_verdict = verify_token(&base, key, alg, now);
        let token = mutate(case, &base);
        let value = carrier_value(&case.carrier, &token);
        let want = verify_value(value.as_deref(), key, alg, now);

        // ---- classification
        let deviations = (case.mutation != Mutation::None) as u32 + (case.carrier != Carrier::Bearer) as u32;
        let (bad_claims, _) = claims(&case.payload, now);
        let plain_request = deviations == 0;
        if case.method == M::OPTIONS {
            obs.label("options");
        } else {
            match (&base_verdict, &want) {
                (Verdict::Accept(_), Verdict::Reject(_)) if deviations == 1 => {
                    obs.nontrivial = true;
                    obs.label(if case.mutation != Mutation::None { mutation_label(&case.mutation) } else { carrier_label(&case.carrier) });
                }
                (Verdict::Reject(r), Verdict::Reject(_)) if plain_request && bad_claims.len() == 1 && bad_claims[0] == *r => {
                    obs.nontrivial = true;
                    obs.label(match *r {
                        "exp-passed" => "claim:exp-passed",
                        "exp-not-u64" => "claim:exp-passed-not-u64",
                        "nbf-in-future" => "claim:nbf-in-future",
                        "nbf-not-u64" => "claim:nbf-in-future-not-u64",
                        "iat-in-future" => "claim:iat-in-future",
                        _ => "claim:iat-in-future-not-u64",
                    });
                }
                (_, Verdict::Accept(_)) => obs.label(if matches!(case.base, Base::Issued) { "valid:issued" } else { "valid:reference-issuer" }),
                (_, Verdict::Either(why, _)) => obs.label(match *why {
                    "typ-mismatch" => "either:typ",
                    "cty" => "either:cty",
                    "scheme-letter-case" => "either:scheme-letter-case",
                    "non-canonical-base64url" => "either:non-canonical-base64url",
                    "claim-not-a-number" => "either:claim-not-a-number",
                    _ => "either:optional-whitespace",
                }),
                _ => obs.label("several-deviations"),
            }
        }

        // ---- the application
        let router = match panic::catch(std::panic::AssertUnwindSafe(|| VerifRouter::new(Ohkami::with(jwt, "/".GET(echo).PUT(echo).POST(echo).PATCH(echo).DELETE(echo))))) {
            Ok(r) => r,
            Err(pi) => {
                obs.fail(format!("construction-{}", pi.key()), pi.describe());
                return;
            }
        };
        let cfg = format!("{} secret {:?}", ALG_NAMES[alg], truncate(&case.secret, 40));
        // control: the unmodified base token, when the reference accepts it and the case is about a deviation
        if !plain_request && matches!(base_verdict, Verdict::Accept(_)) {
            let v = format!("Bearer {base}");
            self.judge(obs, &router, M::GET, Some(&v), &base_verdict, variation, &format!("[{cfg}] control GET Authorization: {v}"));
        }
        let ctx = format!("[{cfg}] {} Authorization: {}", case.method.as_str(), value.as_deref().map_or("(none)".to_string(), |v| truncate(v, 700)));
        self.judge(obs, &router, case.method, value.as_deref(), &want, variation, &ctx);
        obs.evals = obs.evals.max(1);
    }
}

fn truncate(s: &str, n: usize) -> String {
    if s.chars().count() <= n {
        s.to_string()
    } else {
        format!("{}…({} chars)", s.chars().take(n).collect::<String>(), s.chars().count())
    }
}
