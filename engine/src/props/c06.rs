//! C06 — responses depend on the byte stream, not on how TCP segmented it.

use crate::core::*;
use crate::harness::drive::{self, ReadOutcome, ScriptedReader};
use crate::harness::echo;
use crate::harness::gen_req::WReq;
use crate::props::c05::{count_complete, diff_summary, echo_wreq, head_len, wants_close, wreq_in_domain};
use ohkami::__verif__::VerifRouter;
use proptest::collection::vec;
use proptest::prelude::*;
use serde::{Deserialize, Serialize};

pub struct C06 {
    router: VerifRouter,
}

#[derive(Debug, Clone, Serialize, Deserialize, PartialEq)]
pub enum CutKind {
    RequestLine,
    HeaderArea,
    BetweenCrLf,
    HeadBodyBorder,
    BodyFirst,
    BodyLast,
    BufferBorder,
    Anywhere,
}

#[derive(Debug, Clone, Serialize, Deserialize)]
pub struct Cut {
    pub request: u8,
    pub kind: CutKind,
    /// position inside the chosen area, as a fraction of 65536
    pub at: u16,
}

#[derive(Debug, Clone, Serialize, Deserialize)]
pub struct Case {
    pub requests: Vec<WReq>,
    pub cuts: Vec<Cut>,
    /// per request border: no cut there (the end of request i and the start of i+1 share a read)
    pub coalesce: Vec<bool>,
    pub real_session: bool,
    /// the stream starts with an empty line (CRLF) before the first request line — what some clients send after a
    /// body. Whatever the server makes of it, it must make the same of it under every segmentation
    #[serde(default)]
    pub leading_crlf: bool,
    /// n > 0: one request arrives in pieces of n bytes (a slow or byte-wise writing client: tens to hundreds of reads
    /// for one head); (request index, piece size)
    #[serde(default)]
    pub trickle: Option<(u8, u8)>,
}

fn resolve_cut(bytes: &[u8], c: &Cut) -> Option<usize> {
    let hl = head_len(bytes);
    let frac = |lo: usize, hi: usize| -> Option<usize> {
        if hi <= lo {
            None
        } else {
            Some(lo + ((c.at as usize * (hi - lo)) >> 16))
        }
    };
    let rl_end = bytes.windows(2).position(|w| w == b"\r\n").map(|i| i + 2).unwrap_or(hl);
    let p = match c.kind {
        CutKind::RequestLine => frac(1, rl_end)?,
        CutKind::HeaderArea => frac(rl_end, hl.saturating_sub(1))?,
        CutKind::BetweenCrLf => {
            let crs: Vec<usize> = bytes[..hl].iter().enumerate().filter(|(_, b)| **b == b'\r').map(|(i, _)| i + 1).collect();
            if crs.is_empty() {
                return None;
            }
            crs[(c.at as usize * crs.len()) >> 16]
        }
        CutKind::HeadBodyBorder => hl,
        CutKind::BodyFirst => hl + 1,
        CutKind::BodyLast => bytes.len().checked_sub(1)?,
        CutKind::BufferBorder => 1024,
        CutKind::Anywhere => frac(1, bytes.len())?,
    };
    if p == 0 || p >= bytes.len() {
        None
    } else {
        Some(p)
    }
}

/// Simulates which bytes the request buffer receives: the first request whose buffer holds bytes of the next request.
fn buffer_overread(requests: &[Vec<u8>], segments: &[Vec<u8>]) -> Option<usize> {
    const BUF: usize = 1024;
    // remaining length of each segment, consumed front to back
    let mut seg_left: std::collections::VecDeque<usize> = segments.iter().map(|s| s.len()).collect();
    let mut take = |want: usize, seg_left: &mut std::collections::VecDeque<usize>| -> usize {
        // one read: at most `want` bytes from the current segment
        match seg_left.front_mut() {
            None => 0,
            Some(left) => {
                let n = (*left).min(want);
                *left -= n;
                if *left == 0 {
                    seg_left.pop_front();
                }
                n
            }
        }
    };
    let mut pos = 0usize;
    for (index, req) in requests.iter().enumerate() {
        let start = pos;
        let end = start + req.len();
        let head_end = start + head_len(req);
        // buffer reads: the first one, then on until the head's end is inside what was read (or the buffer is full)
        let mut filled = take(BUF, &mut seg_left);
        if filled == 0 {
            return None;
        }
        while start + filled < head_end && filled < BUF {
            let n = take(BUF - filled, &mut seg_left);
            if n == 0 {
                break;
            }
            filled += n;
        }
        if start + filled > end {
            return Some(index);
        }
        // the rest of the body is read with its exact length, in as many reads as it takes
        let mut got = start + filled;
        while got < end {
            let n = take(end - got, &mut seg_left);
            if n == 0 {
                return None;
            }
            got += n;
        }
        pos = end;
    }
    None
}

impl C06 {
    fn run(&self, segments: Vec<Vec<u8>>, n: usize) -> Result<Vec<u8>, String> {
        let mut reader = ScriptedReader::new(segments);
        let ex = drive::drive_conn(&self.router, &mut reader, n * 4 + 6)?;
        Ok(ex.iter().filter(|e| e.outcome != ReadOutcome::Closed).flat_map(|e| e.wire.iter().copied()).collect())
    }
}

impl Property for C06 {
    type Case = Case;
    const ID: &'static str = "C06";
    const RULE: &'static str = "generated: 1–3 requests as in C05 (echo application), their bytes concatenated, and a segmentation: in 8 % of the cases one request trickled in pieces of 1–64 bytes (tens to hundreds of reads for one head), else 0–4 cut points per case biased to the request line, header names/values, between CR and LF, exactly the head/body border, one byte into / before the end of the body, the 1 KiB buffer border, anywhere; request borders either cut or coalesced (two requests in one read); 5 % of the streams start with an empty line, 5 % carry a header value that ends in a bare LF. A scripted AsyncRead returns one segment per call (at most the caller's capacity) and EOF after the last; a share of cases also runs through the real Session::manage over a socketpair, each segment written only after the server consumed the previous one (FIONREAD pacing). Oracle (metamorphic): the response byte stream equals the one under the canonical segmentation (one segment per request). Non-trivial = at least one cut strictly inside a request or one coalesced border; distinct by case.";
    const ASSUMPTIONS: &'static [&'static str] = &[
        "request heads stay below the 1 KiB buffer",
        "sequences with Connection: close only as the last request",
        "deviations are classified by the segmentation alone: `coalesced-requests` (simulating the reads, some read that fills the 1 KiB request buffer reaches beyond the end of its request; a request that follows a body tail in the same segment is not this class), `head-split` (a cut strictly inside a head), `body-or-border-split` (everything else)",
    ];

    fn new(_: Tier) -> Self {
        drive::freeze_clock();
        std::env::set_var("OHKAMI_KEEPALIVE_TIMEOUT", "6");
        C06 { router: echo::echo_router() }
    }
    fn n_cases(&self, tier: Tier) -> u64 {
        tier.pick(150_000, 800_000)
    }
    fn chunk(&self, _tier: Tier) -> u64 {
        2000
    }
    fn fail_fast(&self) -> bool {
        // a request that gets no answer through the real session costs seconds of waiting per case
        true
    }
    fn in_domain(&self, case: &Case) -> bool {
        // (a header value may end in a bare LF: not well-formed, but the code under test accepts it, frames it like any
        // other line, and must do so under every segmentation)
        let without_bare_lf = |w: &crate::harness::gen_req::WReq| {
            let mut w = w.clone();
            for (_, v) in w.headers.iter_mut() {
                if v.ends_with('\n') {
                    v.pop();
                }
            }
            w
        };
        !case.requests.is_empty() && case.requests.len() <= 3 && case.requests.iter().all(|w| wreq_in_domain(&without_bare_lf(w))) && case.requests[..case.requests.len() - 1].iter().all(|w| wants_close(w) == Some(false))
    }
    fn strategy(&self, tier: Tier) -> BoxedStrategy<Case> {
        let kind = prop_oneof![
            2 => Just(CutKind::RequestLine),
            3 => Just(CutKind::HeaderArea),
            2 => Just(CutKind::BetweenCrLf),
            2 => Just(CutKind::HeadBodyBorder),
            2 => Just(CutKind::BodyFirst),
            2 => Just(CutKind::BodyLast),
            1 => Just(CutKind::BufferBorder),
            3 => Just(CutKind::Anywhere),
        ];
        let cut = (0u8..3, kind, any::<u16>()).prop_map(|(request, kind, at)| Cut { request, kind, at });
        (vec(echo_wreq(), 1..=3), vec(cut, 0..=4), vec(prop::bool::weighted(0.3), 2), prop::bool::weighted(tier.pick(0.03, 0.15)), prop::bool::weighted(0.05), prop::option::weighted(0.05, any::<prop::sample::Index>()),
            prop::option::weighted(0.08, (0u8..3, prop_oneof![3 => 1u8..=3, 3 => 4u8..=16, 2 => 17u8..=64])))
            .prop_map(|(mut requests, cuts, coalesce, real_session, leading_crlf, bare_lf, trickle)| {
                // the refused requests C05 adds to its sequences are not this check's subject
                for w in requests.iter_mut() {
                    w.headers.retain(|(n, v)| !n.contains('\r') && !(n.eq_ignore_ascii_case("Content-Length") && v.parse::<u64>().is_err()));
                    if let Some(i) = w.target.find(" HTTP/1.0\r\n") {
                        w.target.truncate(i)
                    }
                }
                // a header value that ends in a bare LF (on a line that is not the last one of the head)
                if let Some(ix) = bare_lf {
                    let w = &mut requests[0];
                    if w.headers.len() >= 2 {
                        let i = ix.index(w.headers.len() - 1);
                        if !w.headers[i].0.eq_ignore_ascii_case("Connection") {
                            w.headers[i].1.push('\n');
                        }
                    }
                }
                // Connection: close only on the last request
                let n = requests.len();
                for w in requests[..n - 1].iter_mut() {
                    w.headers.retain(|(h, _)| !h.eq_ignore_ascii_case("Connection"));
                }
                Case { requests, cuts, coalesce, real_session, leading_crlf, trickle }
            })
            .boxed()
    }

    fn check(&self, case: &Case, obs: &mut Obs) {
        if !self.in_domain(case) {
            obs.label("out-of-domain");
            return;
        }
        let mut bytes: Vec<Vec<u8>> = case.requests.iter().map(|w| w.to_bytes()).collect();
        if case.leading_crlf {
            obs.label("leading-empty-line");
            bytes[0].splice(0..0, *b"\r\n");
        }
        let n = bytes.len();
        let heads: Vec<bool> = case.requests.iter().map(|w| w.method == "HEAD").collect();
        // absolute cut set
        let mut starts = vec![0usize];
        for b in &bytes {
            starts.push(starts.last().unwrap() + b.len());
        }
        let total = *starts.last().unwrap();
        let mut cutset: std::collections::BTreeSet<usize> = std::collections::BTreeSet::new();
        let mut head_split = false;
        let mut inside = false;
        for c in &case.cuts {
            let i = c.request as usize % n;
            if let Some(p) = resolve_cut(&bytes[i], c) {
                cutset.insert(starts[i] + p);
                inside = true;
                if p < head_len(&bytes[i]) {
                    head_split = true
                }
            }
        }
        if let Some((r, step)) = case.trickle {
            let (i, step) = (r as usize % n, step.max(1) as usize);
            obs.label("trickled-request");
            let mut p = step;
            // through the real session every piece costs a millisecond of pacing, and the session has a time limit of its
            // own: there only the head and the first bytes of the body arrive piecewise, and at most 300 pieces
            let upto = if case.real_session { bytes[i].len().min(head_len(&bytes[i]) + 64).min(300 * step) } else { bytes[i].len() };
            while p < upto {
                cutset.insert(starts[i] + p);
                p += step;
            }
            if bytes[i].len() > step {
                inside = true;
                head_split = true;
            }
        }
        let mut coalesced = false;
        for i in 1..n {
            if case.coalesce.get(i - 1).copied().unwrap_or(false) {
                coalesced = true
            } else {
                cutset.insert(starts[i]);
            }
        }
        let all: Vec<u8> = bytes.iter().flat_map(|b| b.iter().copied()).collect();
        let mut segments: Vec<Vec<u8>> = Vec::new();
        let mut prev = 0;
        for c in cutset.iter().copied().chain(std::iter::once(total)) {
            if c > prev {
                segments.push(all[prev..c].to_vec());
                prev = c;
            }
        }
        // The recorded finding (bytes of the next request discarded) needs more than a coalesced border: the reads
        // that fill the 1 KiB request buffer (the first read of a request and the reads that complete its head) must
        // reach beyond the request's end. A body tail is read with an exact length, so a following request in the
        // same segment as a body tail is *not* that shape and stays strictly checked.
        obs.nontrivial = inside || coalesced;
        // … and it excuses only what comes *after* the request whose buffer held the foreign bytes: that request itself
        // (and everything before it) must be answered as under the canonical segmentation
        let overread_at = if coalesced { buffer_overread(&bytes, &segments) } else { None };
        let coalesced = overread_at.is_some();
        obs.evals = segments.len() as u64;
        let class = if coalesced {
            "coalesced-requests"
        } else if head_split {
            "head-split"
        } else {
            "body-or-border-split"
        };
        obs.label(class);
        let canonical = match self.run(bytes.clone(), n) {
            Ok(v) => v,
            Err(e) => {
                obs.fail("HARNESS-BUG executor", e);
                return;
            }
        };
        if !case.leading_crlf && count_complete(&canonical, &heads) != n {
            obs.fail("canonical-segmentation-incomplete", format!("{} complete responses for {n} requests delivered one per read", count_complete(&canonical, &heads)));
            return;
        }
        match panic::catch(std::panic::AssertUnwindSafe(|| self.run(segments.clone(), n))) {
            Ok(Ok(got)) => {
                if got != canonical {
                    let d = diff_summary(&got, &canonical);
                    // bytes of the canonical stream that answer the requests up to and including the over-reading one
                    let class = match overread_at {
                        Some(i) => {
                            let mut keep = 0usize;
                            for k in 0..=i {
                                match crate::oracle::http::parse_response(&canonical[keep..], heads[k]) {
                                    Ok(r) => keep += r.consumed,
                                    Err(_) => break,
                                }
                            }
                            if got.len() >= keep && got[..keep] == canonical[..keep] {
                                class
                            } else {
                                "coalesced-border:response-before-the-border-differs"
                            }
                        }
                        None => class,
                    };
                    obs.fail(format!("{class}:responses-differ"), format!("segments of sizes {:?} (requests of {:?} bytes, heads {:?}): {}", segments.iter().map(|s| s.len()).collect::<Vec<_>>(), bytes.iter().map(|b| b.len()).collect::<Vec<_>>(), bytes.iter().map(|b| head_len(b)).collect::<Vec<_>>(), d.1));
                }
            }
            Ok(Err(e)) => obs.fail("HARNESS-BUG executor", e),
            Err(pi) => obs.fail(format!("{class}:{}", pi.key()), pi.describe()),
        }
        if case.real_session {
            obs.label("real-session");
            let wait = vec![false; segments.len()];
            let heads2 = heads.clone();
            match crate::harness::sock::run_session(&self.router, &segments, &wait, move |b| count_complete(b, &heads2)) {
                Err(e) => obs.fail(format!("{class}:real-session:did-not-end"), e),
                Ok(got) => {
                    if got != canonical {
                        let d = diff_summary(&got, &canonical);
                        obs.fail(format!("{class}:real-session:responses-differ"), format!("through Session::manage over a socketpair, segments {:?}: {}", segments.iter().map(|s| s.len()).collect::<Vec<_>>(), d.1));
                    }
                }
            }
        }
    }
}
