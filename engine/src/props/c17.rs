//! C17 — server-sent event streams deliver every message intact and end properly.

use crate::core::*;
use crate::harness::drive;
use crate::oracle::sse;
use ohkami::__verif__::{Routing, VerifRouter};
use ohkami::prelude::*;
use ohkami::sse::DataStream;
use proptest::collection::vec;
use proptest::prelude::*;
use serde::{Deserialize, Serialize};
use std::cell::RefCell;
use std::future::Future;
use std::pin::Pin;
use std::task::{Context, Poll};

pub struct C17 {
    router: VerifRouter,
}

#[derive(Debug, Clone, Serialize, Deserialize)]
pub struct Case {
    pub messages: Vec<String>,
    /// number of times the producer yields (returns Pending) before pushing message i
    pub yields_before: Vec<u8>,
    /// yields after the last push, before the producer completes
    pub yields_after: u8,
    /// 0: `DataStream::new` (queue handle); 1: a hand-written `Stream` converted with `DataStream::from`
    pub kind: u8,
    /// the sink accepts at most this many bytes per `write` call (None: everything at once)
    #[serde(default)]
    pub short_write: Option<u16>,
}

thread_local! {
    static CURRENT: RefCell<Option<Case>> = const { RefCell::new(None) };
}

/// returns Pending `n` times, waking itself each time (the harness executor re-polls on wake)
struct YieldN(u8);
impl Future for YieldN {
    type Output = ();
    fn poll(mut self: Pin<&mut Self>, cx: &mut Context<'_>) -> Poll<()> {
        if self.0 == 0 {
            Poll::Ready(())
        } else {
            self.0 -= 1;
            cx.waker().wake_by_ref();
            Poll::Pending
        }
    }
}

struct Scripted {
    case: Case,
    next: usize,
    yielded: u8,
    after: u8,
}
impl ohkami::util::Stream for Scripted {
    type Item = String;
    fn poll_next(mut self: Pin<&mut Self>, cx: &mut Context<'_>) -> Poll<Option<String>> {
        let i = self.next;
        if i < self.case.messages.len() {
            let want = self.case.yields_before.get(i).copied().unwrap_or(0);
            if self.yielded < want {
                self.yielded += 1;
                cx.waker().wake_by_ref();
                return Poll::Pending;
            }
            self.yielded = 0;
            self.next += 1;
            Poll::Ready(Some(self.case.messages[i].clone()))
        } else if self.after < self.case.yields_after {
            self.after += 1;
            cx.waker().wake_by_ref();
            Poll::Pending
        } else {
            Poll::Ready(None)
        }
    }
}

async fn handler() -> DataStream<String> {
    let case = CURRENT.with(|c| c.borrow().clone()).expect("harness: no current case");
    if case.kind % 2 == 0 {
        DataStream::new(move |mut s| async move {
            for (i, m) in case.messages.iter().enumerate() {
                YieldN(case.yields_before.get(i).copied().unwrap_or(0)).await;
                s.send(m.clone());
            }
            YieldN(case.yields_after).await;
        })
    } else {
        DataStream::from(Scripted { case, next: 0, yielded: 0, after: 0 })
    }
}

fn message() -> impl Strategy<Value = String> {
    prop_oneof![
        2 => Just(String::new()),
        4 => "[ -~]{0,30}",
        3 => "\\PC{0,20}",
        3 => "[a-z ]{0,6}(\\n|\\r\\n|\\r)[a-z ]{0,6}",
        2 => "(\\n|\\r|\\r\\n|[a-z]| ){0,10}",
        1 => "( |  )[a-z]{1,5}",
        2 => prop_oneof![Just("data: x".to_string()), Just("event: hack".to_string()), Just(": comment".to_string()), Just("id: 7".to_string()), Just("retry: 1".to_string()), Just("a\revent: hack".to_string()), Just("a\r\rid: 1".to_string()), Just("x\n\ndata: injected".to_string()), Just("data".to_string()), Just(":".to_string())],
        1 => "[a-z]{200,600}",
        1 => "(.|\\n|\\r){0,40}",
    ]
}

impl Property for C17 {
    type Case = Case;
    const ID: &'static str = "C17";
    const RULE: &'static str = "generated: 0–12 messages over all Unicode with \"\", LF, CR, CRLF, leading spaces and data:/event:/id:/: look-alikes over-represented × a producer schedule (0–3 Pending polls before each push, 0–3 after the last; bursts; completion with a non-empty queue) × two producer kinds (queue handle of DataStream::new, a hand-written Stream through DataStream::from). The handler's stream is sent through the real router and serializer on the harness's own executor, so the schedule is exactly the script. Oracle: independent response parser → strict chunk decoder (cross-checked with the chunked_transfer crate) → independent WHATWG event-stream parser: the data payloads equal the messages with CRLF/CR/LF normalised to LF, in order; no other field, event type or id appears; the stream ends with the zero chunk. Non-trivial = ≥ 2 messages with a yield between two pushes, or a message containing a line break; distinct by case.";
    const ASSUMPTIONS: &'static [&'static str] = &[
        "messages contain no NUL (the event-stream format cannot carry it in ids; data is unaffected but kept out for clarity)",
        "a quarter of the cases write into a sink that accepts only 1–100 bytes per write call; what arrives must be the same stream",
        "yield = a Pending poll that wakes itself; an executor that re-polls on wake reproduces any pace of the producer as far as the consumer can observe",
    ];

    fn new(_: Tier) -> Self {
        drive::freeze_clock();
        let mut o = Ohkami::new(());
        Routing::<()>::apply("/sse".GET(handler), &mut o);
        C17 { router: VerifRouter::new(o) }
    }
    fn n_cases(&self, tier: Tier) -> u64 {
        tier.pick(800_000, 4_000_000)
    }
    fn chunk(&self, _tier: Tier) -> u64 {
        5000
    }
    fn in_domain(&self, case: &Case) -> bool {
        case.messages.iter().all(|m| !m.contains('\0')) && case.yields_before.iter().all(|y| *y <= 8) && case.yields_after <= 8
    }
    fn strategy(&self, _tier: Tier) -> BoxedStrategy<Case> {
        (vec(message(), 0..=12), vec(prop_oneof![3 => Just(0u8), 2 => Just(1u8), 1 => 2u8..4], 12), 0u8..4, 0u8..2, prop::option::weighted(0.25, prop_oneof![1u16..=8, 9u16..=100]))
            .prop_map(|(messages, yields_before, yields_after, kind, short_write)| Case { messages: messages.into_iter().map(|m| m.replace('\0', "")).collect(), yields_before, yields_after, kind, short_write })
            .boxed()
    }

    fn check(&self, case: &Case, obs: &mut Obs) {
        if !self.in_domain(case) {
            return;
        }
        let n = case.messages.len();
        let yield_between = (1..n).any(|i| case.yields_before.get(i).copied().unwrap_or(0) > 0);
        let has_break = case.messages.iter().any(|m| m.contains('\n') || m.contains('\r'));
        obs.nontrivial = (n >= 2 && yield_between) || has_break;
        if has_break {
            obs.label("line-break")
        }
        if case.messages.iter().any(|m| m.contains('\r') && !m.replace("\r\n", "").contains('\r')) {
            obs.label("crlf-only")
        }
        obs.label(if case.kind % 2 == 0 { "queue-handle" } else { "custom-stream" });
        CURRENT.with(|c| *c.borrow_mut() = Some(case.clone()));
        if case.short_write.is_some() {
            obs.label("short-writes")
        }
        let before = drive::set_write_limit(case.short_write.map(|n| n as usize));
        let ran = drive::request(&self.router, "GET", "/sse", &[("Host".into(), "t".into())], None);
        drive::set_write_limit(before);
        let o = match ran {
            Ok(o) => o,
            Err(e) => {
                let key = if e.contains("zero chunk") || e.contains("chunk") { "chunked-framing" } else { "malformed-response" };
                obs.fail(key, e);
                return;
            }
        };
        let Some(res) = &o.res else {
            obs.fail("no-response", "connection closed".to_string());
            return;
        };
        if res.status != 200 || !res.chunked {
            obs.fail("not-a-chunked-200", format!("status {} chunked {}", res.status, res.chunked));
            return;
        }
        if res.get("Content-Type").map(|v| v.starts_with("text/event-stream")) != Some(true) {
            obs.fail("content-type", format!("{:?}", res.get("Content-Type")));
        }
        // second opinion on the chunk decoder
        {
            use std::io::Read;
            let head_end = o.wire.windows(4).position(|w| w == b"\r\n\r\n").map(|i| i + 4).unwrap_or(0);
            let mut dec = chunked_transfer::Decoder::new(&o.wire[head_end..]);
            let mut v = Vec::new();
            if dec.read_to_end(&mut v).is_err() || v != res.body {
                obs.fail("HARNESS-BUG chunk-decoder-vs-chunked_transfer", format!("{} vs {} bytes", v.len(), res.body.len()));
                return;
            }
        }
        let Ok(text) = std::str::from_utf8(&res.body) else {
            obs.fail("event-stream-not-utf8", "the de-chunked body is not UTF-8".to_string());
            return;
        };
        let parsed = sse::parse(text);
        let want: Vec<String> = case.messages.iter().map(|m| sse::normalise(m)).collect();
        let got: Vec<String> = parsed.events.iter().map(|e| e.data.clone()).collect();
        let lone_cr = case.messages.iter().any(|m| m.replace("\r\n", "").contains('\r'));
        let tag = if lone_cr { "message-with-lone-CR" } else { "plain" };
        if parsed.trailing_incomplete {
            obs.fail(format!("{tag}:unterminated-event"), format!("the stream ends inside an event: {:?}", &text[text.len().saturating_sub(60)..]));
        }
        if got != want {
            let what = if got.len() < want.len() {
                "lost-or-merged"
            } else if got.len() > want.len() {
                "duplicated-or-split"
            } else {
                "content-differs"
            };
            let i = got.iter().zip(&want).position(|(a, b)| a != b).unwrap_or(got.len().min(want.len()));
            obs.fail(format!("{tag}:{what}"), format!("{} messages sent, {} events decoded; first difference at #{i}: decoded {:?}, sent {:?} (normalised {:?})", want.len(), got.len(), got.get(i), case.messages.get(i), want.get(i)));
        }
        if parsed.events.iter().any(|e| !e.event.is_empty() || e.id.is_some() || e.retry.is_some()) || !parsed.unknown_fields.is_empty() {
            obs.fail(format!("{tag}:field-injection"), format!("fields other than data appear: events {:?}, unknown fields {:?}", parsed.events.iter().filter(|e| !e.event.is_empty() || e.id.is_some() || e.retry.is_some()).collect::<Vec<_>>(), parsed.unknown_fields));
        }
    }
}
