//! C17 — server-sent event streams deliver every message intact and end properly.

use crate::core::*;
use crate::harness::drive;
use crate::oracle::sse;
use ohkami::__verif__::{Routing, VerifRouter};
use ohkami::prelude::*;
use ohkami::sse::DataStream;
use proptest::collection::vec;
use proptest::prelude::*;
use serde::{Deserialize, Serialize};
use std::cell::RefCell;
use std::future::Future;
use std::pin::Pin;
use std::task::{Context, Poll};

pub struct C17 {
    router: VerifRouter,
}

#[derive(Debug, Clone, Serialize, Deserialize)]
pub struct Case {
    pub messages: Vec<String>,
    /// number of times the producer yields (returns Pending) before pushing message i
    pub yields_before: Vec<u8>,
    /// yields after the last push, before the producer completes
    pub yields_after: u8,
    /// 0: `DataStream::new` (queue handle); 1: a hand-written `Stream` converted with `DataStream::from`; 2 / 3: a queue /
    /// a hand-written stream behind `StreamExt::filter`; 4: hand-written `.chain(queue)`; 5: a stream of the application's own
    /// `sse::Data` type; 6: a `Response` built by the handler (`with_stream`, `set_stream_raw`); 7: `once(..).chain(..)`
    pub kind: u8,
    /// the sink accepts at most this many bytes per `write` call (None: everything at once)
    #[serde(default)]
    pub short_write: Option<u16>,
    /// kinds with a filter: number of items the filter rejects that the producer emits before message i (last entry:
    /// after the last message)
    #[serde(default)]
    pub rejects: Vec<u8>,
}

thread_local! {
    static CURRENT: RefCell<Option<Case>> = const { RefCell::new(None) };
}

/// returns Pending `n` times, waking itself each time (the harness executor re-polls on wake)
struct YieldN(u8);
impl Future for YieldN {
    type Output = ();
    fn poll(mut self: Pin<&mut Self>, cx: &mut Context<'_>) -> Poll<()> {
        if self.0 == 0 {
            Poll::Ready(())
        } else {
            self.0 -= 1;
            cx.waker().wake_by_ref();
            Poll::Pending
        }
    }
}

/// a hand-written stream: item i after `items[i].0` Pending polls, then `after` Pending polls, then the end
struct Scripted<T> {
    items: std::collections::VecDeque<(u8, T)>,
    yielded: u8,
    after: u8,
}
impl<T: Unpin> ohkami::util::Stream for Scripted<T> {
    type Item = T;
    fn poll_next(mut self: Pin<&mut Self>, cx: &mut Context<'_>) -> Poll<Option<T>> {
        let this = &mut *self;
        if let Some((want, _)) = this.items.front() {
            if this.yielded < *want {
                this.yielded += 1;
                cx.waker().wake_by_ref();
                return Poll::Pending;
            }
            this.yielded = 0;
            Poll::Ready(this.items.pop_front().map(|(_, m)| m))
        } else if this.after > 0 {
            this.after -= 1;
            cx.waker().wake_by_ref();
            Poll::Pending
        } else {
            Poll::Ready(None)
        }
    }
}

/// a message type of the application's own (`sse::Data`): what goes on the wire is its `encode()`
#[derive(Clone)]
struct Msg(String);
impl ohkami::sse::Data for Msg {
    fn encode(self) -> String {
        self.0
    }
}
impl ohkami::openapi::Schema for Msg {
    fn schema() -> impl Into<ohkami::openapi::schema::SchemaRef> {
        ohkami::openapi::string()
    }
}

const DROP: char = '\0';
fn rejected(s: &String) -> bool {
    s.starts_with(DROP)
}

/// the items the underlying producer emits: the messages, and (kinds with a filter) items the filter rejects in between
fn items(case: &Case, with_rejects: bool) -> (Vec<(u8, String)>, u8) {
    let mut v = Vec::new();
    for (i, m) in case.messages.iter().enumerate() {
        let y = case.yields_before.get(i).copied().unwrap_or(0);
        let r = if with_rejects { case.rejects.get(i).copied().unwrap_or(0) } else { 0 };
        for k in 0..r {
            v.push((if k == 0 { y } else { 0 }, format!("{DROP}rejected {i}.{k}")));
        }
        v.push((if r == 0 { y } else { 0 }, m.clone()));
    }
    if with_rejects {
        for k in 0..case.rejects.get(case.messages.len()).copied().unwrap_or(0) {
            v.push((0, format!("{DROP}rejected last.{k}")));
        }
    }
    (v, case.yields_after)
}
fn scripted(items: Vec<(u8, String)>, after: u8) -> Scripted<String> {
    Scripted { items: items.into(), yielded: 0, after }
}
async fn produce(mut q: ohkami::util::stream::impls::Queue<String>, items: Vec<(u8, String)>, after: u8) {
    for (y, m) in items {
        YieldN(y).await;
        q.push(m);
    }
    YieldN(after).await;
}

fn current() -> Case {
    CURRENT.with(|c| c.borrow().clone()).expect("harness: no current case")
}

async fn handler() -> DataStream<String> {
    use ohkami::util::{stream, StreamExt};
    let case = current();
    match case.kind % 8 {
        0 => {
            let (it, after) = items(&case, false);
            DataStream::new(move |mut s| async move {
                for (y, m) in it {
                    YieldN(y).await;
                    s.send(m);
                }
                YieldN(after).await;
            })
        }
        1 => {
            let (it, after) = items(&case, false);
            DataStream::from(scripted(it, after))
        }
        2 => {
            let (it, after) = items(&case, true);
            DataStream::from(stream::queue(move |q| produce(q, it, after)).filter(|m: &String| !rejected(m)))
        }
        3 => {
            let (it, after) = items(&case, true);
            DataStream::from(scripted(it, after).filter(|m: &String| !rejected(m)))
        }
        4 => {
            // first half from a hand-written stream, second half from a queue, chained
            let (mut it, after) = items(&case, false);
            let second = it.split_off(it.len() / 2);
            DataStream::from(scripted(it, 0).chain(stream::queue(move |q| produce(q, second, after))))
        }
        7 => {
            let (mut it, after) = items(&case, false);
            if it.is_empty() {
                DataStream::from(scripted(it, after))
            } else {
                let (_, first) = it.remove(0);
                DataStream::from(stream::once(first).chain(scripted(it, after)))
            }
        }
        _ => unreachable!("kinds 5 and 6 have routes of their own"),
    }
}
/// kind 5: a stream of the application's own message type
async fn handler_typed() -> DataStream<Msg> {
    let case = current();
    let (it, after) = items(&case, false);
    if case.yields_after % 2 == 0 {
        DataStream::new(move |mut s| async move {
            for (y, m) in it {
                YieldN(y).await;
                s.send(Msg(m));
            }
            YieldN(after).await;
        })
    } else {
        DataStream::from(Scripted { items: it.into_iter().map(|(y, m)| (y, Msg(m))).collect(), yielded: 0, after })
    }
}
/// kind 6: a response the handler builds itself (`with_stream` / `set_stream_raw`)
async fn handler_response() -> Response {
    let case = current();
    let (it, after) = items(&case, false);
    if case.yields_after % 2 == 0 {
        Response::OK().with_stream(Scripted { items: it.into_iter().map(|(y, m)| (y, Msg(m))).collect(), yielded: 0, after })
    } else {
        let mut res = Response::Created();
        res.set_stream_raw(Box::pin(scripted(it, after)));
        res.status = Status::OK;
        res
    }
}

fn message() -> impl Strategy<Value = String> {
    prop_oneof![
        2 => Just(String::new()),
        4 => "[ -~]{0,30}",
        3 => "\\PC{0,20}",
        3 => "[a-z ]{0,6}(\\n|\\r\\n|\\r)[a-z ]{0,6}",
        2 => "(\\n|\\r|\\r\\n|[a-z]| ){0,10}",
        1 => "( |  )[a-z]{1,5}",
        2 => prop_oneof![Just("data: x".to_string()), Just("event: hack".to_string()), Just(": comment".to_string()), Just("id: 7".to_string()), Just("retry: 1".to_string()), Just("a\revent: hack".to_string()), Just("a\r\rid: 1".to_string()), Just("x\n\ndata: injected".to_string()), Just("data".to_string()), Just(":".to_string())],
        1 => "[a-z]{200,600}",
        1 => "(.|\\n|\\r){0,40}",
    ]
}

impl Property for C17 {
    type Case = Case;
    const ID: &'static str = "C17";
    const RULE: &'static str = "generated: 0–12 messages over all Unicode with \"\", LF, CR, CRLF, leading spaces and data:/event:/id:/: look-alikes over-represented × a producer schedule (0–3 Pending polls before each push, 0–3 after the last; bursts; completion with a non-empty queue) × eight producer kinds (queue handle of DataStream::new; a hand-written Stream through DataStream::from; either behind StreamExt::filter with 0–2 rejected items between the messages and after the last; hand-written.chain(queue); once(..).chain(..); a stream of the application's own sse::Data type; a Response the handler builds with with_stream / set_stream_raw). The handler's stream is sent through the real router and serializer on the harness's own executor, so the schedule is exactly the script. Oracle: independent response parser → strict chunk decoder (cross-checked with the chunked_transfer crate) → independent WHATWG event-stream parser: the data payloads equal the messages with CRLF/CR/LF normalised to LF, in order; no other field, event type or id appears; the stream ends with the zero chunk. Non-trivial = ≥ 2 messages with a yield between two pushes, or a message containing a line break; distinct by case.";
    const ASSUMPTIONS: &'static [&'static str] = &[
        "messages contain no NUL (the event-stream format cannot carry it in ids; data is unaffected but kept out for clarity)",
        "a quarter of the cases write into a sink that accepts only 1–100 bytes per write call; what arrives must be the same stream",
        "yield = a Pending poll that wakes itself; an executor that re-polls on wake reproduces any pace of the producer as far as the consumer can observe",
    ];

    fn new(_: Tier) -> Self {
        drive::freeze_clock();
        let mut o = Ohkami::new(());
        Routing::<()>::apply("/sse".GET(handler), &mut o);
        Routing::<()>::apply("/sse-typed".GET(handler_typed), &mut o);
        Routing::<()>::apply("/sse-response".GET(handler_response), &mut o);
        C17 { router: VerifRouter::new(o) }
    }
    fn n_cases(&self, tier: Tier) -> u64 {
        tier.pick(800_000, 4_000_000)
    }
    fn chunk(&self, _tier: Tier) -> u64 {
        5000
    }
    fn in_domain(&self, case: &Case) -> bool {
        case.messages.iter().all(|m| !m.contains('\0')) && case.yields_before.iter().all(|y| *y <= 8) && case.yields_after <= 8 && case.rejects.iter().all(|r| *r <= 4)
    }
    fn strategy(&self, _tier: Tier) -> BoxedStrategy<Case> {
        (vec(message(), 0..=12), vec(prop_oneof![3 => Just(0u8), 2 => Just(1u8), 1 => 2u8..4], 12), 0u8..4, prop_oneof![2 => Just(0u8), 2 => Just(1u8), 6 => 2u8..8], prop::option::weighted(0.25, prop_oneof![1u16..=8, 9u16..=100]), vec(prop_oneof![3 => Just(0u8), 2 => Just(1u8), 1 => Just(2u8)], 13))
            .prop_map(|(messages, yields_before, yields_after, kind, short_write, rejects)| Case { messages: messages.into_iter().map(|m| m.replace('\0', "")).collect(), yields_before, yields_after, kind, short_write, rejects: if kind == 2 || kind == 3 { rejects } else { Vec::new() } })
            .boxed()
    }

    fn check(&self, case: &Case, obs: &mut Obs) {
        if !self.in_domain(case) {
            return;
        }
        let n = case.messages.len();
        let yield_between = (1..n).any(|i| case.yields_before.get(i).copied().unwrap_or(0) > 0);
        let has_break = case.messages.iter().any(|m| m.contains('\n') || m.contains('\r'));
        obs.nontrivial = (n >= 2 && yield_between) || has_break;
        if has_break {
            obs.label("line-break")
        }
        if case.messages.iter().any(|m| m.contains('\r') && !m.replace("\r\n", "").contains('\r')) {
            obs.label("crlf-only")
        }
        obs.label(["queue-handle", "custom-stream", "queue+filter", "custom-stream+filter", "chain", "own-data-type", "handler-built-response", "once+chain"][case.kind as usize % 8]);
        CURRENT.with(|c| *c.borrow_mut() = Some(case.clone()));
        if case.short_write.is_some() {
            obs.label("short-writes")
        }
        let before = drive::set_write_limit(case.short_write.map(|n| n as usize));
        let route = match case.kind % 8 {
            5 => "/sse-typed",
            6 => "/sse-response",
            _ => "/sse",
        };
        let ran = drive::request(&self.router, "GET", route, &[("Host".into(), "t".into())], None);
        drive::set_write_limit(before);
        let o = match ran {
            Ok(o) => o,
            Err(e) => {
                let key = if e.contains("zero chunk") || e.contains("chunk") { "chunked-framing" } else { "malformed-response" };
                obs.fail(key, e);
                return;
            }
        };
        let Some(res) = &o.res else {
            obs.fail("no-response", "connection closed".to_string());
            return;
        };
        if res.status != 200 || !res.chunked {
            obs.fail("not-a-chunked-200", format!("status {} chunked {}", res.status, res.chunked));
            return;
        }
        if res.get("Content-Type").map(|v| v.starts_with("text/event-stream")) != Some(true) {
            obs.fail("content-type", format!("{:?}", res.get("Content-Type")));
        }
        // second opinion on the chunk decoder
        {
            use std::io::Read;
            let head_end = o.wire.windows(4).position(|w| w == b"\r\n\r\n").map(|i| i + 4).unwrap_or(0);
            let mut dec = chunked_transfer::Decoder::new(&o.wire[head_end..]);
            let mut v = Vec::new();
            if dec.read_to_end(&mut v).is_err() || v != res.body {
                obs.fail("HARNESS-BUG chunk-decoder-vs-chunked_transfer", format!("{} vs {} bytes", v.len(), res.body.len()));
                return;
            }
        }
        let Ok(text) = std::str::from_utf8(&res.body) else {
            obs.fail("event-stream-not-utf8", "the de-chunked body is not UTF-8".to_string());
            return;
        };
        let parsed = sse::parse(text);
        let want: Vec<String> = case.messages.iter().map(|m| sse::normalise(m)).collect();
        let got: Vec<String> = parsed.events.iter().map(|e| e.data.clone()).collect();
        let lone_cr = case.messages.iter().any(|m| m.replace("\r\n", "").contains('\r'));
        let tag = if lone_cr { "message-with-lone-CR" } else { "plain" };
        if parsed.trailing_incomplete {
            obs.fail(format!("{tag}:unterminated-event"), format!("the stream ends inside an event: {:?}", &text[text.len().saturating_sub(60)..]));
        }
        if got != want {
            let what = if got.len() < want.len() {
                "lost-or-merged"
            } else if got.len() > want.len() {
                "duplicated-or-split"
            } else {
                "content-differs"
            };
            let i = got.iter().zip(&want).position(|(a, b)| a != b).unwrap_or(got.len().min(want.len()));
            obs.fail(format!("{tag}:{what}"), format!("{} messages sent, {} events decoded; first difference at #{i}: decoded {:?}, sent {:?} (normalised {:?})", want.len(), got.len(), got.get(i), case.messages.get(i), want.get(i)));
        }
        if parsed.events.iter().any(|e| !e.event.is_empty() || e.id.is_some() || e.retry.is_some()) || !parsed.unknown_fields.is_empty() {
            obs.fail(format!("{tag}:field-injection"), format!("fields other than data appear: events {:?}, unknown fields {:?}", parsed.events.iter().filter(|e| !e.event.is_empty() || e.id.is_some() || e.retry.is_some()).collect::<Vec<_>>(), parsed.unknown_fields));
        }
    }
}
