//! C10 — multipart/form-data bodies decode to exactly the submitted fields and files.
#![allow(dead_code)] // target types exist to be decoded into; not every field is read back

use crate::core::*;
use crate::harness::hex::HexBytes;
use ohkami_lib::serde_multipart::{from_bytes, File};
use proptest::collection::vec;
use proptest::prelude::*;
use serde::{Deserialize, Serialize};
use std::collections::BTreeMap;

pub struct C10;

// ---------------------------------------------------------------- the case: a form + encoder choices + target type

/// per part encoder choices, bitwise:
/// bits 0–1 header-name spelling (canonical, lower, UPPER, Mixed), bit 2 Content-Type before
/// Content-Disposition, bit 3 add Content-Transfer-Encoding, bit 4 add Content-Length,
/// bit 5 (text parts) add `Content-Type: text/plain; charset=UTF-8`, bit 6 extra headers first
type Style = u8;

#[derive(Debug, Clone, Serialize, Deserialize, PartialEq)]
pub struct FileIn {
    pub filename: String,
    pub mime: Option<String>,
    pub content: HexBytes,
    pub style: Style,
}

#[derive(Debug, Clone, Serialize, Deserialize, PartialEq)]
pub enum Item {
    Text { name: String, text: String, style: Style },
    /// 1–4 consecutive files under one name
    Files { name: String, files: Vec<FileIn> },
    /// the browser's "no file chosen" part: `filename=""`, empty content
    NoFile { name: String, mime: Option<String>, style: Style },
}
impl Item {
    fn name(&self) -> &str {
        match self {
            Item::Text { name, .. } | Item::Files { name, .. } | Item::NoFile { name, .. } => name,
        }
    }
    fn parts(&self) -> usize {
        match self {
            Item::Files { files, .. } => files.len(),
            _ => 1,
        }
    }
}

#[derive(Debug, Clone, Serialize, Deserialize)]
pub struct Case {
    /// index into the compiled catalogue of target types
    pub ty: u8,
    pub items: Vec<Item>,
    pub boundary: String,
    /// CRLF after the close delimiter (both are conforming)
    pub final_crlf: bool,
    /// how the form was made ("fit" or the misfit applied); informational
    pub shape: String,
    /// run the case even if it has a shape the generator is steered around (regression files only)
    #[serde(default)]
    pub run_excluded: bool,
}

// ---------------------------------------------------------------- catalogue of target types

#[derive(Clone, Copy, Debug, PartialEq)]
enum Kind {
    Str,
    OptStr,
    File,
    OptFile,
    VecFile,
}
impl Kind {
    fn tag(&self) -> &'static str {
        match self {
            Kind::Str => "String",
            Kind::OptStr => "Option<String>",
            Kind::File => "File",
            Kind::OptFile => "Option<File>",
            Kind::VecFile => "Vec<File>",
        }
    }
}

/// a decoded file, owned
#[derive(Debug, Clone, PartialEq)]
struct GotFile {
    filename: String,
    mimetype: String,
    content: Vec<u8>,
}
#[derive(Debug, Clone, PartialEq)]
enum Val {
    Str(String),
    OptStr(Option<String>),
    File(GotFile),
    OptFile(Option<GotFile>),
    VecFile(Vec<GotFile>),
}
enum Decoded {
    Fields(Vec<Val>),
    Map(BTreeMap<String, String>),
}

trait ToVal {
    fn to_val(&self) -> Val;
}
fn own(f: &File<'_>) -> GotFile {
    GotFile { filename: f.filename.to_string(), mimetype: f.mimetype.to_string(), content: f.content.to_vec() }
}
impl ToVal for String {
    fn to_val(&self) -> Val {
        Val::Str(self.clone())
    }
}
impl ToVal for &str {
    fn to_val(&self) -> Val {
        Val::Str(self.to_string())
    }
}
impl ToVal for Option<String> {
    fn to_val(&self) -> Val {
        Val::OptStr(self.clone())
    }
}
impl ToVal for Option<&str> {
    fn to_val(&self) -> Val {
        Val::OptStr(self.map(|s| s.to_string()))
    }
}
impl ToVal for File<'_> {
    fn to_val(&self) -> Val {
        Val::File(own(self))
    }
}
impl ToVal for Option<File<'_>> {
    fn to_val(&self) -> Val {
        Val::OptFile(self.as_ref().map(own))
    }
}
impl ToVal for Vec<File<'_>> {
    fn to_val(&self) -> Val {
        Val::VecFile(self.iter().map(own).collect())
    }
}

#[derive(Deserialize, Debug)]
struct T0 {
    s: String,
}
#[derive(Deserialize, Debug)]
struct T1<'a> {
    s: &'a str,
    o: Option<String>,
}
#[derive(Deserialize, Debug)]
struct T2<'a> {
    #[serde(borrow)]
    f: File<'a>,
}
#[derive(Deserialize, Debug)]
struct T3<'a> {
    #[serde(borrow)]
    o: Option<File<'a>>,
}
#[derive(Deserialize, Debug)]
struct T4<'a> {
    #[serde(borrow)]
    v: Vec<File<'a>>,
}
/// the shape of the crate's own documentation example
#[derive(Deserialize, Debug)]
struct T5<'a> {
    #[serde(rename = "user-name")]
    user_name: &'a str,
    #[serde(borrow)]
    password: Option<&'a str>,
    #[serde(rename = "user-icon", borrow)]
    user_icon: Option<File<'a>>,
    #[serde(rename = "pet-photos", borrow)]
    pet_photos: Vec<File<'a>>,
}
#[derive(Deserialize, Debug)]
struct T6<'a> {
    #[serde(borrow)]
    v: Vec<File<'a>>,
    s: String,
    #[serde(borrow)]
    f: File<'a>,
}
#[derive(Deserialize, Debug)]
struct T7<'a> {
    #[serde(borrow)]
    f: File<'a>,
    #[serde(borrow)]
    v: Vec<File<'a>>,
    #[serde(borrow)]
    o: Option<File<'a>>,
    #[serde(borrow)]
    s: Option<&'a str>,
}
#[derive(Deserialize, Debug)]
struct T8<'a> {
    #[serde(rename = "名前 x")]
    n: String,
    #[serde(rename = "file[]", borrow)]
    fs: Vec<File<'a>>,
    #[serde(rename = "a;b=c")]
    q: Option<String>,
}
#[derive(Deserialize, Debug)]
struct T9<'a> {
    t: String,
    #[serde(borrow)]
    f: File<'a>,
    u: &'a str,
    #[serde(borrow)]
    g: File<'a>,
}

macro_rules! catalogue {
    ($( $idx:literal => $T:ty { $( $name:literal : $field:ident : $kind:ident ),* } ),* $(,)?) => {
        /// field names (as on the wire) and kinds of catalogue entry `ty`; `None` = the string map
        fn spec(ty: usize) -> Option<&'static [(&'static str, Kind)]> {
            match ty {
                $( $idx => Some(&[ $( ($name, Kind::$kind) ),* ]), )*
                _ => None,
            }
        }
        fn decode_as(ty: usize, body: &[u8]) -> Result<Decoded, String> {
            match ty {
                $( $idx => from_bytes::<$T>(body).map(|v| Decoded::Fields(vec![ $( v.$field.to_val() ),* ])).map_err(|e| e.to_string()), )*
                _ => from_bytes::<BTreeMap<String, String>>(body).map(Decoded::Map).map_err(|e| e.to_string()),
            }
        }
    };
}
catalogue! {
    0 => T0 { "s": s: Str },
    1 => T1 { "s": s: Str, "o": o: OptStr },
    2 => T2 { "f": f: File },
    3 => T3 { "o": o: OptFile },
    4 => T4 { "v": v: VecFile },
    5 => T5 { "user-name": user_name: Str, "password": password: OptStr, "user-icon": user_icon: OptFile, "pet-photos": pet_photos: VecFile },
    6 => T6 { "v": v: VecFile, "s": s: Str, "f": f: File },
    7 => T7 { "f": f: File, "v": v: VecFile, "o": o: OptFile, "s": s: OptStr },
    8 => T8 { "名前 x": n: Str, "file[]": fs: VecFile, "a;b=c": q: OptStr },
    9 => T9 { "t": t: Str, "f": f: File, "u": u: Str, "g": g: File },
}
/// entries 0..=9 are structs, entry 10 is `BTreeMap<String, String>`
const N_TYPES: usize = 11;
const UNKNOWN_NAMES: [&str; 3] = ["zz", "extra field", "csrf-token"];

// ---------------------------------------------------------------- independent RFC 7578 encoder

const BCHARS_NOSPACE: &str = "0123456789abcdefghijklmnopqrstuvwxyzABCDEFGHIJKLMNOPQRSTUVWXYZ'()+_,-./:=?";

fn recase(canon: &str, how: u8) -> String {
    match how & 3 {
        0 => canon.to_string(),
        1 => canon.to_ascii_lowercase(),
        2 => canon.to_ascii_uppercase(),
        _ => {
            // "Content-disposition": only the first letter in upper case
            let l = canon.to_ascii_lowercase();
            let mut c = l.chars();
            match c.next() {
                Some(f) => f.to_ascii_uppercase().to_string() + c.as_str(),
                None => l,
            }
        }
    }
}

fn encode_part(out: &mut Vec<u8>, boundary: &str, name: &str, filename: Option<&str>, mime: Option<&str>, content: &[u8], style: Style) {
    let is_text = filename.is_none();
    out.extend_from_slice(b"--");
    out.extend_from_slice(boundary.as_bytes());
    out.extend_from_slice(b"\r\n");
    let hn = |canon: &str| recase(canon, style);
    let mut cd = format!("{}: form-data; name=\"{}\"", hn("Content-Disposition"), name);
    if let Some(f) = filename {
        cd.push_str(&format!("; filename=\"{f}\""));
    }
    let ct = match mime {
        Some(m) => Some(format!("{}: {}", hn("Content-Type"), m)),
        None if is_text && style & 32 != 0 => Some(format!("{}: text/plain; charset=UTF-8", hn("Content-Type"))),
        None => None,
    };
    let mut extra = Vec::new();
    if style & 8 != 0 {
        extra.push(format!("{}: {}", hn("Content-Transfer-Encoding"), if is_text { "8bit" } else { "binary" }));
    }
    if style & 16 != 0 {
        extra.push(format!("{}: {}", hn("Content-Length"), content.len()));
    }
    let mut lines: Vec<String> = Vec::new();
    if style & 64 != 0 {
        lines.extend(extra.iter().cloned());
    }
    if style & 4 != 0 {
        lines.extend(ct.iter().cloned());
        lines.push(cd);
    } else {
        lines.push(cd);
        lines.extend(ct.iter().cloned());
    }
    if style & 64 == 0 {
        lines.extend(extra);
    }
    for l in lines {
        out.extend_from_slice(l.as_bytes());
        out.extend_from_slice(b"\r\n");
    }
    out.extend_from_slice(b"\r\n");
    out.extend_from_slice(content);
    out.extend_from_slice(b"\r\n");
}

pub fn encode(case: &Case) -> Vec<u8> {
    let mut out = Vec::new();
    let b = &case.boundary;
    for item in &case.items {
        match item {
            Item::Text { name, text, style } => encode_part(&mut out, b, name, None, None, text.as_bytes(), *style),
            Item::Files { name, files } => {
                for f in files {
                    encode_part(&mut out, b, name, Some(&f.filename), f.mime.as_deref(), &f.content.0, f.style)
                }
            }
            Item::NoFile { name, mime, style } => encode_part(&mut out, b, name, Some(""), mime.as_deref(), b"", *style),
        }
    }
    out.extend_from_slice(b"--");
    out.extend_from_slice(b.as_bytes());
    out.extend_from_slice(b"--");
    if case.final_crlf {
        out.extend_from_slice(b"\r\n");
    }
    out
}

/// Self-check of the encoder by a strict splitter written from RFC 2046 §5.1.1 (delimiter = CRLF "--" boundary):
/// the body must fall apart into exactly the contents that were put in.
fn encoder_self_check(case: &Case, body: &[u8]) -> Result<(), String> {
    let mut want: Vec<&[u8]> = Vec::new();
    for item in &case.items {
        match item {
            Item::Text { text, .. } => want.push(text.as_bytes()),
            Item::Files { files, .. } => files.iter().for_each(|f| want.push(&f.content.0)),
            Item::NoFile { .. } => want.push(b""),
        }
    }
    let dash = [b"--", case.boundary.as_bytes()].concat();
    let delim = [b"\r\n--", case.boundary.as_bytes()].concat();
    if !body.starts_with(&dash) {
        return Err("body does not start with the dash-boundary".into());
    }
    let mut rest = &body[dash.len()..];
    let mut got: Vec<&[u8]> = Vec::new();
    loop {
        if rest.starts_with(b"--") {
            let tail = &rest[2..];
            if !(tail.is_empty() || tail == b"\r\n") {
                return Err("bytes after the close delimiter".into());
            }
            break;
        }
        if !rest.starts_with(b"\r\n") {
            return Err("delimiter not followed by CRLF or --".into());
        }
        rest = &rest[2..];
        // headers end at the first empty line
        let head_end = if rest.starts_with(b"\r\n") { Some(0) } else { rest.windows(4).position(|w| w == b"\r\n\r\n").map(|i| i + 2) };
        let Some(he) = head_end else { return Err("part without end of headers".into()) };
        rest = &rest[he + 2..];
        let Some(at) = rest.windows(delim.len()).position(|w| w == &delim[..]) else { return Err("part without closing delimiter".into()) };
        got.push(&rest[..at]);
        rest = &rest[at + delim.len()..];
    }
    if got != want {
        return Err(format!("the splitter sees {} parts, the form has {}", got.len(), want.len()));
    }
    Ok(())
}

// ---------------------------------------------------------------- domain

fn contains(hay: &[u8], needle: &[u8]) -> bool {
    !needle.is_empty() && hay.len() >= needle.len() && hay.windows(needle.len()).any(|w| w == needle)
}
fn bad_quoted(s: &str) -> bool {
    s.chars().any(|c| c == '"' || c == '\\' || c == '\r' || c == '\n')
}
fn bad_mime(m: &str) -> bool {
    m.is_empty() || !m.bytes().all(|b| (0x20..0x7f).contains(&b)) || m.starts_with(' ') || m.ends_with(' ') || m.eq_ignore_ascii_case("multipart/mixed")
}
fn haystacks(items: &[Item]) -> Vec<&[u8]> {
    let mut h: Vec<&[u8]> = Vec::new();
    for it in items {
        h.push(it.name().as_bytes());
        match it {
            Item::Text { text, .. } => h.push(text.as_bytes()),
            Item::Files { files, .. } => {
                for f in files {
                    h.push(f.filename.as_bytes());
                    h.push(&f.content.0);
                    if let Some(m) = &f.mime {
                        h.push(m.as_bytes())
                    }
                }
            }
            Item::NoFile { mime, .. } => {
                if let Some(m) = mime {
                    h.push(m.as_bytes())
                }
            }
        }
    }
    h
}

/// why the case is outside the domain the property quantifies over (`None` = inside)
fn domain_error(case: &Case) -> Option<&'static str> {
    if case.ty as usize >= N_TYPES {
        return Some("type index");
    }
    let b = &case.boundary;
    if b.is_empty() || b.len() > 70 || b.ends_with(' ') || !b.chars().all(|c| c == ' ' || BCHARS_NOSPACE.contains(c)) {
        return Some("boundary is not 1–70 bchars");
    }
    if case.items.iter().map(|i| i.parts()).sum::<usize>() > 12 {
        return Some("too many parts");
    }
    for (i, it) in case.items.iter().enumerate() {
        if it.name().is_empty() || bad_quoted(it.name()) {
            return Some("field name");
        }
        match it {
            Item::Text { .. } => {}
            Item::Files { name, files } => {
                if files.is_empty() || files.len() > 4 {
                    return Some("file group size");
                }
                for f in files {
                    if f.filename.is_empty() || bad_quoted(&f.filename) {
                        return Some("filename");
                    }
                    if f.mime.as_deref().map_or(false, bad_mime) {
                        return Some("media type");
                    }
                }
                // two adjacent groups of one name are one group of a different size
                if let Some(Item::Files { name: n2, .. }) = case.items.get(i + 1) {
                    if n2 == name {
                        return Some("adjacent file groups of one name");
                    }
                }
            }
            Item::NoFile { name, mime, .. } => {
                if mime.as_deref().map_or(false, bad_mime) {
                    return Some("media type");
                }
                if case.items.iter().filter(|o| o.name() == name).count() != 1 {
                    return Some("no-file-chosen part not alone under its name");
                }
            }
        }
    }
    if haystacks(&case.items).iter().any(|h| contains(h, b.as_bytes())) {
        return Some("boundary occurs in a content");
    }
    None
}

// ---------------------------------------------------------------- oracle

#[derive(Debug, Clone, PartialEq)]
struct WantFile {
    filename: String,
    mime: Option<String>,
    content: Vec<u8>,
}
#[derive(Debug, Clone, PartialEq)]
enum WantVal {
    Str(String),
    OptStr(Option<String>),
    File(WantFile),
    OptFile(Option<WantFile>),
    VecFile(Vec<WantFile>),
}
enum Want {
    /// this value, nothing else
    Exactly(WantVal),
    /// the statement is silent: this ("absent/empty") value or an error
    Either(WantVal),
    /// the form does not fit the field
    MustErr(&'static str),
}

fn want_file(f: &FileIn) -> WantFile {
    WantFile { filename: f.filename.clone(), mime: f.mime.clone(), content: f.content.0.clone() }
}

fn want_for(kind: Kind, groups: &[&Item]) -> Want {
    use Want::*;
    if groups.len() >= 2 {
        return MustErr("duplicate");
    }
    match (kind, groups.first()) {
        (Kind::Str, None) => MustErr("absent"),
        (Kind::Str, Some(Item::Text { text, .. })) => Exactly(WantVal::Str(text.clone())),
        (Kind::Str, Some(Item::Files { .. })) => MustErr("file"),
        (Kind::Str, Some(Item::NoFile { .. })) => Either(WantVal::Str(String::new())),

        (Kind::OptStr, None) => Exactly(WantVal::OptStr(None)),
        (Kind::OptStr, Some(Item::Text { text, .. })) => Exactly(WantVal::OptStr(if text.is_empty() { None } else { Some(text.clone()) })),
        (Kind::OptStr, Some(Item::Files { .. })) => MustErr("file"),
        (Kind::OptStr, Some(Item::NoFile { .. })) => Either(WantVal::OptStr(None)),

        (Kind::File, None) => MustErr("absent"),
        (Kind::File, Some(Item::Text { .. })) => MustErr("text"),
        (Kind::File, Some(Item::Files { files, .. })) if files.len() == 1 => Exactly(WantVal::File(want_file(&files[0]))),
        (Kind::File, Some(Item::Files { .. })) => MustErr("multiple-files"),
        // no absent value exists for `File`: an error, or the empty file the part literally is
        (Kind::File, Some(Item::NoFile { mime, .. })) => Either(WantVal::File(WantFile { filename: String::new(), mime: mime.clone(), content: Vec::new() })),

        (Kind::OptFile, None) => Exactly(WantVal::OptFile(None)),
        (Kind::OptFile, Some(Item::Text { text, .. })) if text.is_empty() => Either(WantVal::OptFile(None)),
        (Kind::OptFile, Some(Item::Text { .. })) => MustErr("text"),
        (Kind::OptFile, Some(Item::Files { files, .. })) if files.len() == 1 => Exactly(WantVal::OptFile(Some(want_file(&files[0])))),
        (Kind::OptFile, Some(Item::Files { .. })) => MustErr("multiple-files"),
        (Kind::OptFile, Some(Item::NoFile { .. })) => Exactly(WantVal::OptFile(None)),

        (Kind::VecFile, None) => Either(WantVal::VecFile(vec![])),
        (Kind::VecFile, Some(Item::Text { text, .. })) if text.is_empty() => Either(WantVal::VecFile(vec![])),
        (Kind::VecFile, Some(Item::Text { .. })) => MustErr("text"),
        (Kind::VecFile, Some(Item::Files { files, .. })) => Exactly(WantVal::VecFile(files.iter().map(want_file).collect())),
        (Kind::VecFile, Some(Item::NoFile { .. })) => Exactly(WantVal::VecFile(vec![])),
    }
}

fn short(b: &[u8]) -> String {
    let s = b[..b.len().min(48)].escape_ascii().to_string();
    if b.len() > 48 {
        format!("{s}…({} bytes)", b.len())
    } else {
        s
    }
}

/// error text → signature: payloads between backticks dropped, digits collapsed
fn norm_err(e: &str) -> String {
    let mut out = String::new();
    let mut in_tick = false;
    for ch in e.chars() {
        if ch == '`' {
            in_tick = !in_tick;
            out.push('`');
        } else if !in_tick {
            out.push(ch)
        }
    }
    panic::stem(&out)
}

fn cmp_file(kind: Kind, want: &WantFile, got: &GotFile, obs: &mut Obs) {
    let k = kind.tag();
    if got.filename != want.filename {
        obs.fail(format!("wrong-value:{k}:filename"), format!("filename {:?} submitted, {:?} decoded", want.filename, got.filename));
    }
    let mime_ok = match &want.mime {
        Some(m) => got.mimetype == *m,
        // no Content-Type on the part: "" (absent) or RFC 7578's default
        None => got.mimetype.is_empty() || got.mimetype == "text/plain",
    };
    if !mime_ok {
        obs.fail(format!("wrong-value:{k}:mimetype"), format!("media type {:?} submitted, {:?} decoded", want.mime, got.mimetype));
    }
    if got.content != want.content {
        let how = if want.content.starts_with(&got.content) {
            "truncated"
        } else if got.content.starts_with(&want.content) {
            "overlong"
        } else if got.content.len() == want.content.len() {
            "altered"
        } else {
            "differs"
        };
        obs.fail(format!("wrong-value:{k}:content:{how}"), format!("file {:?}: content {} submitted, {} decoded", want.filename, short(&want.content), short(&got.content)));
    }
}

fn cmp_val(name: &str, kind: Kind, want: &WantVal, got: &Val, obs: &mut Obs) {
    let k = kind.tag();
    match (want, got) {
        (WantVal::Str(w), Val::Str(g)) => {
            if w != g {
                obs.fail(format!("wrong-value:{k}:text"), format!("field {name:?}: text {w:?} submitted, {g:?} decoded"));
            }
        }
        (WantVal::OptStr(w), Val::OptStr(g)) => match (w, g) {
            (None, None) => {}
            (Some(w), Some(g)) => {
                if w != g {
                    obs.fail(format!("wrong-value:{k}:text"), format!("field {name:?}: text {w:?} submitted, {g:?} decoded"));
                }
            }
            (None, Some(g)) => obs.fail(format!("wrong-value:{k}:some-for-absent-or-empty"), format!("field {name:?}: absent/empty in the form, Some({g:?}) decoded")),
            (Some(w), None) => obs.fail(format!("wrong-value:{k}:none-for-present"), format!("field {name:?}: text {w:?} submitted, None decoded")),
        },
        (WantVal::File(w), Val::File(g)) => cmp_file(kind, w, g, obs),
        (WantVal::OptFile(w), Val::OptFile(g)) => match (w, g) {
            (None, None) => {}
            (Some(w), Some(g)) => cmp_file(kind, w, g, obs),
            (None, Some(g)) => obs.fail(format!("wrong-value:{k}:some-for-absent-or-empty"), format!("field {name:?}: no file in the form, Some(file {:?}) decoded", g.filename)),
            (Some(w), None) => obs.fail(format!("wrong-value:{k}:none-for-present"), format!("field {name:?}: file {:?} submitted, None decoded", w.filename)),
        },
        (WantVal::VecFile(w), Val::VecFile(g)) => {
            if w.len() != g.len() {
                obs.fail(format!("wrong-value:{k}:count"), format!("field {name:?}: {} files submitted, {} decoded ({:?})", w.len(), g.len(), g.iter().map(|f| &f.filename).collect::<Vec<_>>()));
            } else if w.iter().zip(g).all(|(w, g)| w.filename == g.filename && w.content == g.content) {
                w.iter().zip(g).for_each(|(w, g)| cmp_file(kind, w, g, obs));
            } else {
                // same multiset in another order?
                let mut used = vec![false; g.len()];
                let perm = w.iter().all(|wf| {
                    let hit = g.iter().enumerate().position(|(i, gf)| !used[i] && gf.filename == wf.filename && gf.content == wf.content);
                    hit.map(|i| used[i] = true).is_some()
                });
                if perm {
                    obs.fail(format!("wrong-value:{k}:order"), format!("field {name:?}: submitted {:?}, decoded {:?}", w.iter().map(|f| &f.filename).collect::<Vec<_>>(), g.iter().map(|f| &f.filename).collect::<Vec<_>>()));
                } else {
                    w.iter().zip(g).for_each(|(w, g)| cmp_file(kind, w, g, obs));
                }
            }
        }
        _ => obs.fail("HARNESS-BUG catalogue kind mismatch", format!("field {name:?} of kind {k}: decoded {got:?}")),
    }
}

// ---------------------------------------------------------------- generators

fn boundary_strategy() -> impl Strategy<Value = String> {
    let bc: Vec<char> = BCHARS_NOSPACE.chars().collect();
    let bc2 = bc.clone();
    let ch = prop_oneof![8 => prop::sample::select(bc), 1 => Just(' '), 2 => Just('-')];
    let body = |lo: usize, hi: usize| vec(ch.clone(), lo..=hi);
    prop_oneof![
        2 => body(0, 0),
        5 => body(1, 12),
        3 => body(13, 40),
        2 => body(41, 68),
        2 => body(68, 69),
        // what browsers and curl send
        2 => "[0-9A-Za-z]{16}".prop_map(|s| format!("----WebKitFormBoundary{s}").chars().collect::<Vec<char>>()),
        1 => "[0-9a-f]{16}".prop_map(|s| format!("------------------------{s}").chars().collect::<Vec<char>>()),
    ]
    .prop_flat_map(move |body| {
        // last character is never a space
        (Just(body), prop::sample::select(bc2.clone())).prop_map(|(mut b, last)| {
            b.truncate(69);
            b.push(last);
            b.into_iter().collect::<String>()
        })
    })
}

/// if `b` occurs in a content, extend it (prefixes of the old boundary stay prefixes of the new one)
fn repair_boundary(mut b: String, items: &[Item]) -> String {
    let hs = haystacks(items);
    let occurs = |cand: &str| hs.iter().any(|h| contains(h, cand.as_bytes()));
    let mut guard = 0;
    while occurs(&b) && guard < 200 {
        guard += 1;
        if b.len() >= 70 {
            b = format!("xYz{guard}qQ7");
            continue;
        }
        match BCHARS_NOSPACE.chars().find(|c| !occurs(&format!("{b}{c}"))) {
            Some(c) => b.push(c),
            None => b.push('q'),
        }
    }
    b
}

fn bytes_of_tokens(toks: Vec<Vec<u8>>) -> Vec<u8> {
    toks.concat()
}

/// file contents over all bytes; CR, LF, `--`, NUL and proper prefixes of the boundary over-represented
fn content_strategy(b: &str) -> BoxedStrategy<Vec<u8>> {
    let bb = b.as_bytes().to_vec();
    let n = bb.len().max(1);
    let (b1, b2, b3) = (bb.clone(), bb.clone(), bb.clone());
    let tok = prop_oneof![
        6 => any::<u8>().prop_map(|x| vec![x]),
        2 => Just(b"\r".to_vec()),
        2 => Just(b"\n".to_vec()),
        2 => Just(b"\r\n".to_vec()),
        2 => Just(b"--".to_vec()),
        1 => Just(b"-".to_vec()),
        2 => Just(vec![0u8]),
        1 => (0x80u8..=0xff).prop_map(|x| vec![x]),
        2 => (0..n).prop_map(move |k| b1[..k.min(b1.len())].to_vec()),
        2 => (0..n).prop_map(move |k| [&b"\r\n--"[..], &b2[..k.min(b2.len())]].concat()),
        1 => (0..n).prop_map(move |k| [&b"--"[..], &b3[..k.min(b3.len())]].concat()),
    ];
    prop_oneof![
        2 => Just(Vec::new()),
        10 => vec(tok.clone(), 1..10).prop_map(bytes_of_tokens),
        1 => vec(tok, 30..120).prop_map(bytes_of_tokens),
        1 => vec(any::<u8>(), 300..1500),
    ]
    .boxed()
}

/// UTF-8 texts including empty, CR/LF, `--` and boundary prefixes
fn text_strategy(b: &str) -> BoxedStrategy<String> {
    let bs = b.to_string();
    let n = bs.len().max(1);
    let (b1, b2) = (bs.clone(), bs.clone());
    let tok = prop_oneof![
        5 => "[ -~]{1,6}",
        3 => "\\PC{1,4}",
        1 => Just("\r".to_string()),
        1 => Just("\n".to_string()),
        2 => Just("\r\n".to_string()),
        1 => Just("--".to_string()),
        1 => (0..n).prop_map(move |k| b1[..k.min(b1.len())].to_string()),
        1 => (0..n).prop_map(move |k| format!("\r\n--{}", &b2[..k.min(b2.len())])),
    ];
    prop_oneof![
        2 => Just(String::new()),
        8 => vec(tok.clone(), 1..6).prop_map(|t| t.concat()),
        1 => vec(tok, 20..60).prop_map(|t| t.concat()),
    ]
    .boxed()
}
fn nonempty_text(b: &str) -> BoxedStrategy<String> {
    text_strategy(b).prop_map(|t| if t.is_empty() { "x".to_string() } else { t }).boxed()
}

fn filename_strategy() -> impl Strategy<Value = String> {
    prop_oneof![
        5 => "[a-zA-Z0-9_-]{1,10}\\.[a-z]{1,4}",
        2 => "[ -~]{1,16}",
        2 => "\\PC{1,10}",
        1 => Just("C:/fake path/写真 (1).jpg".to_string()),
    ]
    .prop_map(|s| {
        let t: String = s.chars().filter(|c| !matches!(c, '"' | '\\' | '\r' | '\n')).collect();
        if t.is_empty() {
            "f".to_string()
        } else {
            t
        }
    })
}
fn mime_strategy() -> impl Strategy<Value = Option<String>> {
    prop_oneof![
        2 => Just(None),
        5 => prop::sample::select(vec!["text/plain", "application/octet-stream", "image/png", "text/plain; charset=utf-8", "application/x-www-form-urlencoded", "text/html", "application/vnd.ms-excel"]).prop_map(|s| Some(s.to_string())),
        2 => "[a-z]{1,8}/[a-z0-9.+-]{1,12}".prop_map(Some),
    ]
    .prop_map(|m| m.filter(|m| !bad_mime(m)))
}
fn file_strategy(b: &str) -> BoxedStrategy<FileIn> {
    (filename_strategy(), mime_strategy(), content_strategy(b), any::<u8>()).prop_map(|(filename, mime, content, style)| FileIn { filename, mime, content: HexBytes(content), style: style & 0x7f }).boxed()
}
fn files_item(name: &str, b: &str, lo: usize, hi: usize) -> BoxedStrategy<Option<Item>> {
    let name = name.to_string();
    vec(file_strategy(b), lo..=hi).prop_map(move |files| Some(Item::Files { name: name.clone(), files })).boxed()
}
fn text_item(name: &str, text: BoxedStrategy<String>) -> BoxedStrategy<Option<Item>> {
    let name = name.to_string();
    (text, any::<u8>()).prop_map(move |(text, style)| Some(Item::Text { name: name.clone(), text, style: style & 0x7f })).boxed()
}
fn nofile_item(name: &str) -> BoxedStrategy<Option<Item>> {
    let name = name.to_string();
    (prop_oneof![3 => Just(Some("application/octet-stream".to_string())), 1 => Just(None)], any::<u8>()).prop_map(move |(mime, style)| Some(Item::NoFile { name: name.clone(), mime, style: style & 0x7f })).boxed()
}

/// an item that fits a field of this kind (or `None` = no part at all)
fn fitting(name: &str, kind: Kind, b: &str) -> BoxedStrategy<Option<Item>> {
    let absent = || Just(None::<Item>).boxed();
    match kind {
        Kind::Str => text_item(name, text_strategy(b)),
        Kind::OptStr => prop_oneof![1 => absent(), 1 => text_item(name, Just(String::new()).boxed()), 4 => text_item(name, nonempty_text(b))].boxed(),
        Kind::File => files_item(name, b, 1, 1),
        Kind::OptFile => prop_oneof![1 => absent(), 2 => nofile_item(name), 4 => files_item(name, b, 1, 1)].boxed(),
        Kind::VecFile => prop_oneof![1 => absent(), 3 => nofile_item(name), 4 => files_item(name, b, 1, 1), 6 => files_item(name, b, 2, 4)].boxed(),
    }
}

#[derive(Debug, Clone)]
enum Misfit {
    None,
    Drop,
    SwapKind,
    TooManyFiles,
    DuplicateText,
    NoFileIntoFile,
    /// a text part under the name of a file field, directly before / after the field's file part(s)
    TextBesideFiles,
}

#[derive(Debug, Clone)]
struct Raw {
    ty: usize,
    boundary: String,
    final_crlf: bool,
    fitted: Vec<Option<Item>>,
    unknown: Vec<Item>,
    misfit: Misfit,
    pick: prop::sample::Index,
    spare_files: Vec<FileIn>,
    spare_text: String,
}

fn assemble(raw: Raw) -> (Vec<Item>, String, Option<(String, String, bool)>) {
    let Raw { ty, fitted, unknown, misfit, pick, spare_files, spare_text, .. } = raw;
    let mut slots = fitted;
    let mut shape = "fit".to_string();
    let mut tail: Vec<Item> = Vec::new();
    let mut beside: Option<(String, String, bool)> = None;
    if let Some(fields) = spec(ty) {
        if !fields.is_empty() {
            let i = pick.index(fields.len());
            let (fname, kind) = fields[i];
            match misfit {
                Misfit::None => {}
                Misfit::Drop => {
                    slots[i] = None;
                    shape = format!("drop:{}", kind.tag());
                }
                Misfit::SwapKind => {
                    slots[i] = Some(match kind {
                        Kind::Str | Kind::OptStr => Item::Files { name: fname.to_string(), files: spare_files.iter().take(1).cloned().collect() },
                        _ => Item::Text { name: fname.to_string(), text: spare_text.clone(), style: 0 },
                    });
                    shape = format!("swap-kind:{}", kind.tag());
                }
                Misfit::TooManyFiles => {
                    if matches!(kind, Kind::File | Kind::OptFile) && spare_files.len() >= 2 {
                        slots[i] = Some(Item::Files { name: fname.to_string(), files: spare_files.clone() });
                        shape = format!("too-many-files:{}", kind.tag());
                    }
                }
                Misfit::DuplicateText => {
                    if let Some(Item::Text { name, .. }) = &slots[i] {
                        tail.push(Item::Text { name: name.clone(), text: spare_text.clone(), style: 3 });
                        shape = format!("duplicate:{}", kind.tag());
                    }
                }
                Misfit::TextBesideFiles => {
                    // (placed after the permutation, so that the two really are neighbours)
                    if let Some((j, _)) = fields.iter().enumerate().filter(|(j, _)| matches!(slots[*j], Some(Item::Files { .. }))).nth(0) {
                        let j = if matches!(slots[i], Some(Item::Files { .. })) { i } else { j };
                        beside = Some((fields[j].0.to_string(), spare_text.clone(), pick.index(2) == 0));
                        shape = format!("text-beside-files:{}", fields[j].1.tag());
                    }
                }
                Misfit::NoFileIntoFile => {
                    if kind == Kind::File {
                        slots[i] = Some(Item::NoFile { name: fname.to_string(), mime: Some("application/octet-stream".into()), style: 0 });
                        shape = "no-file-chosen-into-File".into();
                    }
                }
            }
        }
    }
    let mut items: Vec<Item> = slots.into_iter().flatten().collect();
    items.extend(unknown);
    items.extend(tail);
    (items, shape, beside)
}

/// deterministic permutation driven by generated keys (shrinks toward the identity)
fn permute(items: Vec<Item>, keys: &[u8]) -> Vec<Item> {
    let mut tagged: Vec<(u8, usize, Item)> = items.into_iter().enumerate().map(|(i, it)| (keys.get(i).copied().unwrap_or(0), i, it)).collect();
    tagged.sort_by_key(|(k, i, _)| (*k, *i));
    tagged.into_iter().map(|(_, _, it)| it).collect()
}

fn case_strategy() -> BoxedStrategy<Case> {
    (0..N_TYPES, boundary_strategy(), prop::bool::weighted(0.7))
        .prop_flat_map(|(ty, boundary, final_crlf)| {
            let b = boundary.as_str();
            let fitted: BoxedStrategy<Vec<Option<Item>>> = match spec(ty) {
                Some(fields) => fields.iter().map(|(n, k)| fitting(n, *k, b)).collect::<Vec<_>>().boxed(),
                // the string map: 0–5 text fields under arbitrary names
                None => vec(("[a-z]{1,6}|\\PC{1,5}", text_strategy(b), any::<u8>()), 0..=5)
                    .prop_map(|v| {
                        let mut seen = std::collections::BTreeSet::new();
                        v.into_iter()
                            .filter_map(|(name, text, style)| {
                                let name: String = name.chars().filter(|c| !matches!(c, '"' | '\\' | '\r' | '\n')).collect();
                                (!name.is_empty() && seen.insert(name.clone())).then(|| Some(Item::Text { name, text, style: style & 0x7f }))
                            })
                            .collect::<Vec<_>>()
                    })
                    .boxed(),
            };
            let unknown_one = (prop::sample::select(UNKNOWN_NAMES.to_vec()), prop_oneof![12 => Just(0u8), 8 => Just(1u8), 1 => Just(2u8)], text_strategy(b), vec(file_strategy(b), 1..=2), any::<u8>()).prop_map(|(name, which, text, files, style)| match which {
                0 => Item::Text { name: name.to_string(), text, style: style & 0x7f },
                1 => Item::Files { name: name.to_string(), files },
                _ => Item::NoFile { name: name.to_string(), mime: None, style: style & 0x7f },
            })
            .boxed();
            let unknown = prop_oneof![24 => Just(0usize), 3 => Just(1usize), 1 => Just(2usize)].prop_flat_map(move |n| vec(unknown_one.clone(), n)).prop_map(|mut v| {
                // one item per unknown name (a no-file-chosen part is alone under its name)
                let mut seen = std::collections::BTreeSet::new();
                v.retain(|it| seen.insert(it.name().to_string()));
                v
            });
            let misfit = prop_oneof![
                30 => Just(Misfit::None),
                3 => Just(Misfit::Drop),
                3 => Just(Misfit::SwapKind),
                2 => Just(Misfit::TooManyFiles),
                2 => Just(Misfit::DuplicateText),
                1 => Just(Misfit::NoFileIntoFile),
                2 => Just(Misfit::TextBesideFiles),
            ];
            (Just((ty, boundary.clone(), final_crlf)), fitted, unknown, misfit, any::<prop::sample::Index>(), vec(file_strategy(b), 2..=3), nonempty_text(b), vec(any::<u8>(), 8..=8))
        })
        .prop_map(|((ty, boundary, final_crlf), fitted, unknown, misfit, pick, spare_files, spare_text, keys)| {
            let raw = Raw { ty, boundary: boundary.clone(), final_crlf, fitted, unknown, misfit, pick, spare_files, spare_text };
            let (items, shape, beside) = assemble(raw);
            let mut items = permute(items, &keys);
            if let Some((name, text, before)) = beside {
                if let Some(j) = items.iter().position(|it| matches!(it, Item::Files { .. }) && it.name() == name) {
                    items.insert(if before { j } else { j + 1 }, Item::Text { name, text, style: 0 });
                }
            }
            // keep the form at 0–6 parts where the type allows it
            while items.iter().map(|i| i.parts()).sum::<usize>() > 6 {
                let Some(Item::Files { files, .. }) = items.iter_mut().filter(|i| i.parts() > 2).max_by_key(|i| i.parts()) else { break };
                files.pop();
            }
            // adjacent file groups of one name cannot arise (one group per name), a duplicate text is never a file
            let boundary = repair_boundary(boundary, &items);
            Case { ty: ty as u8, items, boundary, final_crlf, shape, run_excluded: false }
        })
        .boxed()
}

// ---------------------------------------------------------------- the property

impl Property for C10 {
    type Case = Case;
    const ID: &'static str = "C10";
    const RULE: &'static str = "generated: a target type from a compiled catalogue of 11 (structs with String/&str, Option<String>/Option<&str>, File, Option<File>, Vec<File> fields in several orders and under non-identifier names, and a string map) and a form of 0–6 parts made to fit it: text fields (UTF-8 incl. empty, CR, LF, CRLF, `--`, boundary prefixes) and files (filename, optional media type, content over all bytes with CR, LF, `--`, NUL, high bytes and proper prefixes of the boundary — also after CRLF-- — over-represented; empty files; 1–4 consecutive files under one name; the browser's no-file-chosen part alone under its name), fields in any order, 0–2 parts under names the type does not have; in a quarter of the cases one deliberate misfit (required part dropped, text where a file belongs and vice versa, several files for a single-file field, a text field twice, a text part under the name of a file field directly before or after its file parts). An independent RFC 7578 encoder (self-checked by a strict RFC 2046 splitter) writes the body: boundary over bchars of length 1–70 occurring in no name, filename, media type or content; header names in four spellings; Content-Type before or after Content-Disposition; optional Content-Transfer-Encoding / Content-Length / text/plain part headers; close delimiter with or without CRLF. Oracle: the decoded struct equals the form field by field (text, filename, media type, bytes, order of same-name files) under the absent/empty conventions; a misfit must be Err. Non-trivial = a file whose content contains CR, LF or `--` or ends in CR/LF, or several files under one name, or an empty file; distinct by case.";
    const ASSUMPTIONS: &'static [&'static str] = &[
        "field names and filenames contain no '\"', '\\', CR, LF (encoders disagree on escaping them); real files have a non-empty filename; media types are printable ASCII other than multipart/mixed (documented as unsupported)",
        "the boundary occurs in no content, text, name, filename or media type (stronger than RFC 2046, which only forbids CRLF--boundary)",
        "Content-Disposition is written as browsers write it: `form-data; name=\"…\"[; filename=\"…\"]` with quoted values and `; ` separators",
        "the no-file-chosen part occurs only alone under its name; same-name files are consecutive",
        "where the statement is silent both outcomes are accepted and counted ambiguous: no part at all / an empty text for Vec<File>, an empty text for Option<File>, a no-file-chosen part for a text field, parts under names the target type does not have, repeated names in the string map",
        "a part without Content-Type decodes to media type \"\" or \"text/plain\"",
        "steered around (confirmed process abort, kept as regression candidate): a no-file-chosen part meeting a non-optional File field or a name the type does not have",
    ];

    fn new(_: Tier) -> Self {
        C10
    }
    fn n_cases(&self, tier: Tier) -> u64 {
        tier.pick(300_000, 3_000_000)
    }
    fn chunk(&self, _tier: Tier) -> u64 {
        5000
    }
    fn in_domain(&self, case: &Case) -> bool {
        domain_error(case).is_none()
    }
    fn strategy(&self, _tier: Tier) -> BoxedStrategy<Case> {
        case_strategy()
    }

    fn check(&self, case: &Case, obs: &mut Obs) {
        if domain_error(case).is_some() {
            obs.label("out-of-domain");
            return;
        }
        let ty = case.ty as usize;
        let fields = spec(ty);

        // ---- expectation, computed from the form alone
        let mut must_err: Option<String> = None;
        let mut may_err = false;
        let mut excluded: Option<&'static str> = None;
        let mut wants: Vec<(&'static str, Kind, WantVal)> = Vec::new();
        let mut want_map: Option<BTreeMap<String, String>> = None;
        let mut map_loose = false;
        match fields {
            Some(fields) => {
                for (name, kind) in fields {
                    let groups: Vec<&Item> = case.items.iter().filter(|i| i.name() == *name).collect();
                    if *kind == Kind::File && matches!(groups[..], [Item::NoFile { .. }]) {
                        excluded = Some("no-file-chosen-into-File");
                    }
                    match want_for(*kind, &groups) {
                        Want::Exactly(v) => wants.push((name, *kind, v)),
                        Want::Either(v) => {
                            may_err = true;
                            wants.push((name, *kind, v))
                        }
                        Want::MustErr(shape) => {
                            must_err.get_or_insert(format!("{}:{shape}", kind.tag()));
                        }
                    }
                }
                for it in case.items.iter().filter(|i| !fields.iter().any(|(n, _)| *n == i.name())) {
                    // the statement does not say whether a part the type has no field for is a misfit
                    may_err = true;
                    obs.label("unknown-part");
                    if matches!(it, Item::NoFile { .. }) {
                        excluded = Some("no-file-chosen-into-unknown-field");
                    }
                }
            }
            None => {
                let mut m = BTreeMap::new();
                for it in &case.items {
                    match it {
                        Item::Text { name, text, .. } => {
                            if m.insert(name.clone(), text.clone()).is_some() {
                                map_loose = true;
                            }
                        }
                        Item::Files { .. } => {
                            must_err.get_or_insert("Map<String,String>:file".to_string());
                        }
                        Item::NoFile { .. } => map_loose = true,
                    }
                }
                may_err = map_loose;
                want_map = Some(m);
            }
        }
        if let Some(what) = excluded {
            // (repaired in /repo: these shapes no longer abort, so they stay in the stream)
            if false && !case.run_excluded {
                obs.excluded.push(what);
                return;
            }
        }

        // ---- classes and non-triviality
        let all_files = || case.items.iter().filter_map(|i| if let Item::Files { files, .. } = i { Some(files) } else { None }).flatten();
        let tricky = all_files().any(|f| {
            let c = &f.content.0;
            c.contains(&b'\r') || c.contains(&b'\n') || contains(c, b"--")
        });
        let multi = case.items.iter().any(|i| i.parts() > 1);
        let empty_file = all_files().any(|f| f.content.0.is_empty());
        obs.nontrivial = tricky || multi || empty_file;
        if tricky {
            obs.label("file-content-with-CR/LF/--")
        }
        if all_files().any(|f| (1..case.boundary.len()).any(|k| k >= 2 && contains(&f.content.0, &case.boundary.as_bytes()[..k]))) {
            obs.label("file-content-with-boundary-prefix")
        }
        if multi {
            obs.label("several-files-under-one-name")
        }
        if empty_file {
            obs.label("empty-file")
        }
        if case.items.iter().any(|i| matches!(i, Item::NoFile { .. })) {
            obs.label("no-file-chosen")
        }
        if case.items.is_empty() {
            obs.label("zero-parts")
        }
        obs.label(if must_err.is_some() {
            "expect-err(misfit)"
        } else if may_err {
            "expect-either"
        } else {
            "expect-ok(fit)"
        });

        // ---- encode, decode
        let body = encode(case);
        if let Err(e) = encoder_self_check(case, &body) {
            obs.fail("HARNESS-BUG encoder", e);
            return;
        }
        let decoded = match panic::catch(std::panic::AssertUnwindSafe(|| decode_as(ty, &body))) {
            Ok(d) => d,
            Err(pi) => {
                obs.fail(pi.key(), format!("{}; body {:?}", pi.describe(), short(&body)));
                return;
            }
        };

        // ---- compare
        match (decoded, must_err) {
            (Err(_), Some(_)) => {}
            (Ok(_), Some(shape)) => obs.fail(format!("misfit-accepted:{shape}"), format!("form {:?} does not fit catalogue type {ty} ({shape}), yet decoding returned Ok", case.shape)),
            (Err(e), None) => {
                if may_err {
                    obs.ambiguous += 1;
                } else {
                    let zero = if case.items.is_empty() { ":zero-parts" } else { "" };
                    obs.fail(format!("refused:{}{zero}", norm_err(&e)), format!("the form fits catalogue type {ty}, decoding returned Err({e:?}); body {:?}", short(&body)));
                }
            }
            (Ok(Decoded::Fields(vals)), None) => {
                if vals.len() != wants.len() {
                    obs.fail("HARNESS-BUG catalogue arity", format!("{} values for {} fields", vals.len(), wants.len()));
                    return;
                }
                if may_err {
                    obs.ambiguous += 1;
                }
                for ((name, kind, want), got) in wants.iter().zip(&vals) {
                    cmp_val(name, *kind, want, got, obs);
                }
            }
            (Ok(Decoded::Map(got)), None) => {
                let want = want_map.unwrap_or_default();
                if map_loose {
                    obs.ambiguous += 1;
                    // every decoded entry must still be a submitted text under that name
                    for (k, v) in &got {
                        let ok = case.items.iter().any(|i| match i {
                            Item::Text { name, text, .. } => name == k && text == v,
                            Item::NoFile { name, .. } => name == k && v.is_empty(),
                            _ => false,
                        });
                        if !ok {
                            obs.fail("wrong-value:Map<String,String>:text", format!("entry {k:?} = {v:?} was not submitted"));
                        }
                    }
                } else if got != want {
                    obs.fail("wrong-value:Map<String,String>:text", format!("submitted {want:?}, decoded {got:?}"));
                }
            }
        }
    }
}
