//! C08 — network-facing decoders are total and memory-safe on arbitrary bytes.
#![allow(dead_code)] // target types exist to be decoded into; not every field is read back

use crate::core::exec::block_on;
use crate::core::*;
use crate::harness::drive::ScriptedReader;
use crate::harness::hex::HexBytes;
use ohkami::__verif__::{Routing, VerifRequest, VerifRouter};
use ohkami::prelude::*;
use ohkami_lib::serde_multipart::File;
use proptest::collection::vec;
use proptest::prelude::*;
use serde::de::{self, DeserializeSeed, Deserializer, EnumAccess, IgnoredAny, MapAccess, SeqAccess, VariantAccess, Visitor};
use serde::{Deserialize, Serialize};
use std::borrow::Cow;
use std::cell::RefCell;
use std::collections::{BTreeMap, HashMap};
use std::marker::PhantomData;
use std::panic::AssertUnwindSafe;

pub struct C08 {
    router: VerifRouter,
}

#[derive(Debug, Clone, Serialize, Deserialize)]
pub struct Case {
    /// target decoder (index into `DECODERS`, taken modulo)
    pub dec: u8,
    /// target type (index into the decoder's family, taken modulo)
    pub ty: u16,
    pub bytes: HexBytes,
    /// how the bytes were made; informational
    pub origin: String,
    /// run the case even if it has a shape the check is steered around (regression files only)
    #[serde(default)]
    pub run_excluded: bool,
}

pub const DECODERS: [&str; 8] = ["urlencoded", "query", "cookie", "multipart", "setcookie", "percent", "utf8", "path"];

// ---------------------------------------------------------------- what a decoded value is inspected for

#[derive(Default)]
struct Rep {
    lo: usize,
    hi: usize,
    /// strings / borrowed slices looked at
    strings: u32,
    borrowed: u32,
    bad_utf8: Option<String>,
    outside: Option<String>,
    endless: bool,
}
impl Rep {
    fn over(input: &[u8]) -> Rep {
        let lo = input.as_ptr() as usize;
        Rep { lo, hi: lo + input.len(), ..Default::default() }
    }
    fn utf8(&mut self, what: &str, bytes: &[u8]) {
        self.strings += 1;
        if std::str::from_utf8(std::hint::black_box(bytes)).is_err() && self.bad_utf8.is_none() {
            self.bad_utf8 = Some(format!("{what} holds {:?}", bytes[..bytes.len().min(40)].escape_ascii().to_string()));
        }
    }
    fn inside(&mut self, what: &str, ptr: *const u8, len: usize) {
        self.borrowed += 1;
        // an empty slice has no bytes to lie anywhere (defaults such as `""` are static)
        if len == 0 {
            return;
        }
        let p = ptr as usize;
        if !(p >= self.lo && p + len <= self.hi) && self.outside.is_none() {
            self.outside = Some(format!("{what}: {len} bytes at offset {} of an input of {} bytes", p as i128 - self.lo as i128, self.hi - self.lo));
        }
    }
    fn owned_str(&mut self, what: &str, s: &str) {
        self.utf8(what, s.as_bytes())
    }
    fn borrowed_str(&mut self, what: &str, s: &str) {
        self.utf8(what, s.as_bytes());
        self.inside(what, s.as_ptr(), s.len())
    }
    fn borrowed_bytes(&mut self, what: &str, b: &[u8]) {
        self.inside(what, b.as_ptr(), b.len())
    }
}

trait Inspect {
    fn look(&self, r: &mut Rep);
}
macro_rules! inspect_nothing {
    ($($T:ty),* $(,)?) => { $( impl Inspect for $T { fn look(&self, _: &mut Rep) {} } )* };
}
inspect_nothing!(bool, i8, i16, i32, i64, i128, u8, u16, u32, u64, u128, f32, f64, char, (), IgnoredAny);
impl Inspect for String {
    fn look(&self, r: &mut Rep) {
        r.owned_str("String", self)
    }
}
impl Inspect for &str {
    fn look(&self, r: &mut Rep) {
        r.borrowed_str("&str", self)
    }
}
impl Inspect for &[u8] {
    fn look(&self, r: &mut Rep) {
        r.borrowed_bytes("&[u8]", self)
    }
}
impl Inspect for Cow<'_, str> {
    fn look(&self, r: &mut Rep) {
        match self {
            Cow::Borrowed(s) => r.borrowed_str("Cow<str>::Borrowed", s),
            Cow::Owned(s) => r.owned_str("Cow<str>::Owned", s),
        }
    }
}
impl Inspect for Cow<'_, [u8]> {
    fn look(&self, r: &mut Rep) {
        if let Cow::Borrowed(b) = self {
            r.borrowed_bytes("Cow<[u8]>::Borrowed", b)
        }
    }
}
impl<T: Inspect> Inspect for Option<T> {
    fn look(&self, r: &mut Rep) {
        if let Some(v) = self {
            v.look(r)
        }
    }
}
impl<T: Inspect> Inspect for Vec<T> {
    fn look(&self, r: &mut Rep) {
        self.iter().for_each(|v| v.look(r))
    }
}
impl<T: Inspect> Inspect for Box<T> {
    fn look(&self, r: &mut Rep) {
        (**self).look(r)
    }
}
impl<A: Inspect, B: Inspect> Inspect for (A, B) {
    fn look(&self, r: &mut Rep) {
        self.0.look(r);
        self.1.look(r)
    }
}
impl<T: Inspect, const N: usize> Inspect for [T; N] {
    fn look(&self, r: &mut Rep) {
        self.iter().for_each(|v| v.look(r))
    }
}
impl<K: Inspect, V: Inspect> Inspect for BTreeMap<K, V> {
    fn look(&self, r: &mut Rep) {
        for (k, v) in self {
            k.look(r);
            v.look(r)
        }
    }
}
impl<K: Inspect, V: Inspect> Inspect for HashMap<K, V> {
    fn look(&self, r: &mut Rep) {
        for (k, v) in self {
            k.look(r);
            v.look(r)
        }
    }
}
impl Inspect for File<'_> {
    fn look(&self, r: &mut Rep) {
        r.borrowed_str("File.filename", self.filename);
        r.borrowed_str("File.mimetype", self.mimetype);
        r.borrowed_bytes("File.content", self.content)
    }
}

// ---------------------------------------------------------------- target types: derived

#[derive(Deserialize, Debug)]
struct One<T> {
    a: T,
}
impl<T: Inspect> Inspect for One<T> {
    fn look(&self, r: &mut Rep) {
        self.a.look(r)
    }
}
#[derive(Deserialize, Debug)]
struct Two<T, U> {
    a: T,
    b: U,
}
impl<T: Inspect, U: Inspect> Inspect for Two<T, U> {
    fn look(&self, r: &mut Rep) {
        self.a.look(r);
        self.b.look(r)
    }
}
#[derive(Deserialize, Debug)]
struct CowS<'a> {
    #[serde(borrow)]
    a: Cow<'a, str>,
}
#[derive(Deserialize, Debug)]
struct CowB<'a> {
    #[serde(borrow)]
    a: Cow<'a, [u8]>,
}
#[derive(Deserialize, Debug)]
struct FileS<'a> {
    #[serde(borrow)]
    a: File<'a>,
}
#[derive(Deserialize, Debug)]
struct VecFileS<'a> {
    #[serde(borrow)]
    a: Vec<File<'a>>,
}
#[derive(Deserialize, Debug)]
struct OptFileS<'a> {
    #[serde(borrow)]
    a: Option<File<'a>>,
}
#[derive(Deserialize, Debug)]
struct Form<'a> {
    a: &'a str,
    #[serde(borrow)]
    b: Option<File<'a>>,
    #[serde(borrow)]
    x: Vec<File<'a>>,
}
macro_rules! inspect_fields {
    ($( $T:ty { $($f:ident),* } ),* $(,)?) => { $( impl Inspect for $T { fn look(&self, r: &mut Rep) { $( self.$f.look(r); )* } } )* };
}
inspect_fields!(CowS<'_> { a }, CowB<'_> { a }, FileS<'_> { a }, VecFileS<'_> { a }, OptFileS<'_> { a }, Form<'_> { a, b, x }, Inner { x, y }, Deny { a }, Flat { a, rest }, Defaults { a, b, c });

#[derive(Deserialize, Debug)]
struct Unit;
#[derive(Deserialize, Debug)]
enum UnitEnum {
    A,
    B,
    #[serde(rename = "c-d")]
    CD,
}
#[derive(Deserialize, Debug)]
enum DataEnum {
    U,
    N(u32),
    T(u8, u8),
    S { x: u8 },
}
#[derive(Deserialize, Debug)]
struct NewU32(u32);
#[derive(Deserialize, Debug)]
struct NewString(String);
#[derive(Deserialize, Debug)]
struct TupleStruct(u8, String);
#[derive(Deserialize, Debug)]
struct Inner {
    x: u32,
    y: Option<String>,
}
#[derive(Deserialize, Debug)]
#[serde(deny_unknown_fields)]
struct Deny {
    a: String,
}
#[derive(Deserialize, Debug)]
struct Flat {
    a: Option<u32>,
    #[serde(flatten)]
    rest: BTreeMap<String, String>,
}
#[derive(Deserialize, Debug)]
#[serde(untagged)]
enum Untagged {
    N(u32),
    S(String),
}
#[derive(Deserialize, Debug)]
struct Defaults {
    #[serde(default)]
    a: u8,
    #[serde(default)]
    b: String,
    c: Option<bool>,
}
inspect_nothing!(Unit, UnitEnum, DataEnum, NewU32);
impl Inspect for NewString {
    fn look(&self, r: &mut Rep) {
        self.0.look(r)
    }
}
impl Inspect for TupleStruct {
    fn look(&self, r: &mut Rep) {
        self.1.look(r)
    }
}
impl Inspect for Untagged {
    fn look(&self, r: &mut Rep) {
        if let Untagged::S(s) = self {
            s.look(r)
        }
    }
}

// ---------------------------------------------------------------- target types: hand-written probes

/// everything a decoder can hand to a visitor; borrowed data keeps its address
#[derive(Debug)]
enum Got<'a> {
    Scalar,
    Unit,
    None,
    BorrowedStr(&'a str),
    /// `visit_str`: only valid during the call — validity recorded on the spot
    TransientStr { valid: bool, sample: String },
    OwnedStr(String),
    BorrowedBytes(&'a [u8]),
    TransientBytes,
    OwnedBytes,
    Some(Box<Got<'a>>),
    Newtype(Box<Got<'a>>),
    Seq(Vec<Got<'a>>),
    Map(Vec<(Got<'a>, Got<'a>)>),
    Enum(Box<Got<'a>>),
    /// more than 100 000 elements out of a finite input
    Endless,
}
impl Inspect for Got<'_> {
    fn look(&self, r: &mut Rep) {
        match self {
            Got::BorrowedStr(s) => r.borrowed_str("visit_borrowed_str", s),
            Got::TransientStr { valid, sample } => {
                r.strings += 1;
                if !valid && r.bad_utf8.is_none() {
                    r.bad_utf8 = Some(format!("visit_str was handed {sample:?}"));
                }
            }
            Got::OwnedStr(s) => r.owned_str("visit_string", s),
            Got::BorrowedBytes(b) => r.borrowed_bytes("visit_borrowed_bytes", b),
            Got::Some(g) | Got::Newtype(g) | Got::Enum(g) => g.look(r),
            Got::Seq(v) => v.iter().for_each(|g| g.look(r)),
            Got::Map(v) => v.iter().for_each(|(k, g)| {
                k.look(r);
                g.look(r)
            }),
            Got::Endless => r.endless = true,
            _ => {}
        }
    }
}

const H_ANY: u8 = 0;
const H_STR: u8 = 1;
const H_STRING: u8 = 2;
const H_BYTES: u8 = 3;
const H_BYTE_BUF: u8 = 4;
const H_OPTION: u8 = 5;
const H_UNIT: u8 = 6;
const H_NEWTYPE: u8 = 7;
const H_SEQ: u8 = 8;
const H_TUPLE: u8 = 9;
const H_MAP: u8 = 10;
const H_MAP_ANY: u8 = 11;
const H_STRUCT: u8 = 12;
const H_ENUM: u8 = 13;
const H_IDENT: u8 = 14;
const H_IGNORED: u8 = 15;
const H_CHAR: u8 = 16;
const H_TUPLE_STRUCT: u8 = 17;
const H_UNIT_STRUCT: u8 = 18;

/// asks the decoder through the serde entry point `H` and records what comes back
#[derive(Debug)]
struct Probe<'a, const H: u8>(Got<'a>);
impl<const H: u8> Inspect for Probe<'_, H> {
    fn look(&self, r: &mut Rep) {
        self.0.look(r)
    }
}

/// `VH` = the entry point used for the values of a map
struct GotVisitor<'a, const VH: u8>(PhantomData<&'a ()>);
impl<'de, const VH: u8> Visitor<'de> for GotVisitor<'de, VH> {
    type Value = Got<'de>;
    fn expecting(&self, f: &mut std::fmt::Formatter) -> std::fmt::Result {
        f.write_str("anything")
    }
    fn visit_bool<E>(self, _: bool) -> Result<Got<'de>, E> {
        Ok(Got::Scalar)
    }
    fn visit_i64<E>(self, _: i64) -> Result<Got<'de>, E> {
        Ok(Got::Scalar)
    }
    fn visit_u64<E>(self, _: u64) -> Result<Got<'de>, E> {
        Ok(Got::Scalar)
    }
    fn visit_i128<E>(self, _: i128) -> Result<Got<'de>, E> {
        Ok(Got::Scalar)
    }
    fn visit_u128<E>(self, _: u128) -> Result<Got<'de>, E> {
        Ok(Got::Scalar)
    }
    fn visit_f64<E>(self, _: f64) -> Result<Got<'de>, E> {
        Ok(Got::Scalar)
    }
    fn visit_char<E>(self, _: char) -> Result<Got<'de>, E> {
        Ok(Got::Scalar)
    }
    fn visit_str<E>(self, v: &str) -> Result<Got<'de>, E> {
        let valid = std::str::from_utf8(std::hint::black_box(v.as_bytes())).is_ok();
        Ok(Got::TransientStr { valid, sample: if valid { String::new() } else { v.as_bytes()[..v.len().min(40)].escape_ascii().to_string() } })
    }
    fn visit_borrowed_str<E>(self, v: &'de str) -> Result<Got<'de>, E> {
        Ok(Got::BorrowedStr(v))
    }
    fn visit_string<E>(self, v: String) -> Result<Got<'de>, E> {
        Ok(Got::OwnedStr(v))
    }
    fn visit_bytes<E>(self, _: &[u8]) -> Result<Got<'de>, E> {
        Ok(Got::TransientBytes)
    }
    fn visit_borrowed_bytes<E>(self, v: &'de [u8]) -> Result<Got<'de>, E> {
        Ok(Got::BorrowedBytes(v))
    }
    fn visit_byte_buf<E>(self, _: Vec<u8>) -> Result<Got<'de>, E> {
        Ok(Got::OwnedBytes)
    }
    fn visit_none<E>(self) -> Result<Got<'de>, E> {
        Ok(Got::None)
    }
    fn visit_some<D: Deserializer<'de>>(self, d: D) -> Result<Got<'de>, D::Error> {
        Ok(Got::Some(Box::new(Probe::<H_ANY>::deserialize(d)?.0)))
    }
    fn visit_unit<E>(self) -> Result<Got<'de>, E> {
        Ok(Got::Unit)
    }
    fn visit_newtype_struct<D: Deserializer<'de>>(self, d: D) -> Result<Got<'de>, D::Error> {
        Ok(Got::Newtype(Box::new(Probe::<H_ANY>::deserialize(d)?.0)))
    }
    fn visit_seq<A: SeqAccess<'de>>(self, mut seq: A) -> Result<Got<'de>, A::Error> {
        let mut v = Vec::new();
        while let Some(e) = seq.next_element::<Probe<H_ANY>>()? {
            v.push(e.0);
            if v.len() > 100_000 {
                return Ok(Got::Endless);
            }
        }
        Ok(Got::Seq(v))
    }
    fn visit_map<A: MapAccess<'de>>(self, mut map: A) -> Result<Got<'de>, A::Error> {
        let mut v = Vec::new();
        // keys are asked for as identifiers/strings, as every derived and std map type does
        while let Some(k) = map.next_key::<Probe<H_STR>>()? {
            let val = map.next_value_seed(ProbeSeed::<VH>(PhantomData))?;
            v.push((k.0, val));
            if v.len() > 100_000 {
                return Ok(Got::Endless);
            }
        }
        Ok(Got::Map(v))
    }
    fn visit_enum<A: EnumAccess<'de>>(self, data: A) -> Result<Got<'de>, A::Error> {
        let (tag, variant) = data.variant::<Probe<H_IDENT>>()?;
        variant.unit_variant()?;
        Ok(Got::Enum(Box::new(tag.0)))
    }
}
struct ProbeSeed<'a, const H: u8>(PhantomData<&'a ()>);
impl<'de, const H: u8> DeserializeSeed<'de> for ProbeSeed<'de, H> {
    type Value = Got<'de>;
    fn deserialize<D: Deserializer<'de>>(self, d: D) -> Result<Got<'de>, D::Error> {
        probe::<D, H>(d)
    }
}
fn probe<'de, D: Deserializer<'de>, const H: u8>(d: D) -> Result<Got<'de>, D::Error> {
    let v = GotVisitor::<H_STR>(PhantomData);
    match H {
        H_STR => d.deserialize_str(v),
        H_STRING => d.deserialize_string(v),
        H_BYTES => d.deserialize_bytes(v),
        H_BYTE_BUF => d.deserialize_byte_buf(v),
        H_OPTION => d.deserialize_option(v),
        H_UNIT => d.deserialize_unit(v),
        H_UNIT_STRUCT => d.deserialize_unit_struct("U", v),
        H_NEWTYPE => d.deserialize_newtype_struct("N", v),
        H_SEQ => d.deserialize_seq(v),
        H_TUPLE => d.deserialize_tuple(2, v),
        H_TUPLE_STRUCT => d.deserialize_tuple_struct("T", 2, v),
        H_MAP => d.deserialize_map(v),
        H_MAP_ANY => d.deserialize_map(GotVisitor::<H_ANY>(PhantomData)),
        H_STRUCT => d.deserialize_struct("S", &["a", "b"], v),
        H_ENUM => d.deserialize_enum("E", &["A", "B"], v),
        H_IDENT => d.deserialize_identifier(v),
        H_IGNORED => d.deserialize_ignored_any(v),
        H_CHAR => d.deserialize_char(v),
        _ => d.deserialize_any(v),
    }
}
impl<'de, const H: u8> Deserialize<'de> for Probe<'de, H> {
    fn deserialize<D: Deserializer<'de>>(d: D) -> Result<Self, D::Error> {
        probe::<D, H>(d).map(Probe)
    }
}

/// a byte buffer asked for through `deserialize_byte_buf`
#[derive(Debug)]
struct ByteBuf(Vec<u8>);
inspect_nothing!(ByteBuf);
impl<'de> Deserialize<'de> for ByteBuf {
    fn deserialize<D: Deserializer<'de>>(d: D) -> Result<Self, D::Error> {
        struct V;
        impl<'de> Visitor<'de> for V {
            type Value = ByteBuf;
            fn expecting(&self, f: &mut std::fmt::Formatter) -> std::fmt::Result {
                f.write_str("bytes")
            }
            fn visit_bytes<E>(self, v: &[u8]) -> Result<ByteBuf, E> {
                Ok(ByteBuf(v.to_vec()))
            }
            fn visit_byte_buf<E>(self, v: Vec<u8>) -> Result<ByteBuf, E> {
                Ok(ByteBuf(v))
            }
            fn visit_str<E>(self, v: &str) -> Result<ByteBuf, E> {
                Ok(ByteBuf(v.as_bytes().to_vec()))
            }
            fn visit_seq<A: SeqAccess<'de>>(self, mut seq: A) -> Result<ByteBuf, A::Error> {
                let mut v = Vec::new();
                while let Some(b) = seq.next_element::<u8>()? {
                    v.push(b);
                    if v.len() > 100_000 {
                        return Err(de::Error::custom("probe: endless sequence"));
                    }
                }
                Ok(ByteBuf(v))
            }
        }
        d.deserialize_byte_buf(V)
    }
}

// ---------------------------------------------------------------- serde decoders × family

enum Outcome {
    Ok,
    Err(String),
    Panic(panic::PanicInfo),
}

trait Dec {
    fn run<'a, T: Deserialize<'a>>(input: &'a [u8]) -> Result<T, String>;
}
struct Urlencoded;
impl Dec for Urlencoded {
    fn run<'a, T: Deserialize<'a>>(input: &'a [u8]) -> Result<T, String> {
        ohkami_lib::serde_urlencoded::from_bytes::<T>(input).map_err(|e| e.to_string())
    }
}
struct CookieD;
impl Dec for CookieD {
    fn run<'a, T: Deserialize<'a>>(input: &'a [u8]) -> Result<T, String> {
        // the caller hands over the bytes of a `str`
        ohkami_lib::serde_cookie::from_str::<T>(std::str::from_utf8(input).unwrap_or("")).map_err(|e| e.to_string())
    }
}
struct MultipartD;
impl Dec for MultipartD {
    fn run<'a, T: Deserialize<'a>>(input: &'a [u8]) -> Result<T, String> {
        ohkami_lib::serde_multipart::from_bytes::<T>(input).map_err(|e| e.to_string())
    }
}
struct Utf8D;
impl Dec for Utf8D {
    fn run<'a, T: Deserialize<'a>>(input: &'a [u8]) -> Result<T, String> {
        ohkami_lib::serde_utf8::from_str::<T>(std::str::from_utf8(input).unwrap_or("")).map_err(|e| e.to_string())
    }
}

fn exec<'a, D: Dec, T: Deserialize<'a> + Inspect>(input: &'a [u8], rep: &mut Rep) -> Outcome {
    match panic::catch(AssertUnwindSafe(|| D::run::<T>(input))) {
        Ok(Ok(v)) => {
            v.look(rep);
            Outcome::Ok
        }
        Ok(Err(e)) => Outcome::Err(e),
        Err(pi) => Outcome::Panic(pi),
    }
}

type Exec<'a> = fn(&'a [u8], &mut Rep) -> Outcome;

/// The family of target types in three classes: every entry of the first list as the field `a` of a struct,
/// the same entries bare, and the composite types of the second list as they stand.
struct Family<'a> {
    field: Vec<(&'static str, Exec<'a>)>,
    bare: Vec<(&'static str, Exec<'a>)>,
    composite: Vec<(&'static str, Exec<'a>)>,
}
impl<'a> Family<'a> {
    /// `ty` → a target type: the low four bits choose the class (weights per decoder), the rest the entry
    fn pick(&self, ty: u16, bare_sixteenths: u16) -> (&'static str, Exec<'a>) {
        let class = ty % 16;
        let idx = (ty / 16) as usize;
        if class < bare_sixteenths {
            self.bare[idx % self.bare.len()]
        } else if class < bare_sixteenths + 4 {
            self.composite[idx % self.composite.len()]
        } else {
            self.field[idx % self.field.len()]
        }
    }
}
fn family<'a, D: Dec>() -> Family<'a> {
    macro_rules! fam {
        ([ $($T:ty),* $(,)? ] [ $($S:ty),* $(,)? ]) => {
            Family {
                field: vec![ $( (concat!("{a: ", stringify!($T), "}"), exec::<D, One<$T>> as Exec<'a>), )* ],
                bare: vec![ $( (stringify!($T), exec::<D, $T> as Exec<'a>), )* ],
                composite: vec![ $( (stringify!($S), exec::<D, $S> as Exec<'a>), )* ],
            }
        };
    }
    fam!(
        [
            bool, i8, i16, i32, i64, i128, u8, u16, u32, u64, u128, f32, f64, char,
            &'a str, String, &'a [u8], ByteBuf,
            Option<String>, Option<u32>, Option<&'a str>, Option<bool>, Option<UnitEnum>,
            (), Unit, UnitEnum, DataEnum, NewU32, NewString,
            Vec<String>, Vec<u32>, Vec<&'a str>, (u8, String), [u8; 2], TupleStruct,
            BTreeMap<String, String>, Inner, Untagged, IgnoredAny,
            File<'a>, Vec<File<'a>>, Option<File<'a>>,
            Probe<'a, H_ANY>, Probe<'a, H_STR>, Probe<'a, H_STRING>, Probe<'a, H_BYTES>, Probe<'a, H_BYTE_BUF>, Probe<'a, H_OPTION>,
            Probe<'a, H_UNIT>, Probe<'a, H_UNIT_STRUCT>, Probe<'a, H_NEWTYPE>, Probe<'a, H_SEQ>, Probe<'a, H_TUPLE>, Probe<'a, H_TUPLE_STRUCT>,
            Probe<'a, H_MAP>, Probe<'a, H_MAP_ANY>, Probe<'a, H_STRUCT>, Probe<'a, H_ENUM>, Probe<'a, H_IDENT>, Probe<'a, H_IGNORED>, Probe<'a, H_CHAR>,
            // once more, for weight: the targets that accept any text and carry the UTF-8 and address checks
            String, &'a str, Option<&'a str>, Option<String>, Probe<'a, H_STR>, Probe<'a, H_STRING>, Probe<'a, H_ANY>, Probe<'a, H_BYTES>, String, &'a str,
        ]
        [
            CowS<'a>, CowB<'a>, FileS<'a>, VecFileS<'a>, OptFileS<'a>, Form<'a>,
            Deny, Flat, Defaults,
            Two<String, u32>, Two<Option<&'a str>, Vec<u8>>, Two<Probe<'a, H_STR>, Probe<'a, H_BYTES>>, Two<u8, UnitEnum>,
            HashMap<&'a str, &'a str>, BTreeMap<String, u32>, Vec<(String, String)>, Option<One<String>>,
        ]
    )
}

// ---------------------------------------------------------------- reference tokenizers (non-triviality only)

fn find(hay: &[u8], needle: &[u8]) -> Option<usize> {
    if needle.is_empty() || hay.len() < needle.len() {
        return None;
    }
    hay.windows(needle.len()).position(|w| w == needle)
}
/// own percent-decoder: `%XX` with two hex digits is a byte, everything else stands for itself
fn ref_percent_decode(b: &[u8]) -> Vec<u8> {
    let hexv = |c: u8| (c as char).to_digit(16).map(|d| d as u8);
    let mut o = Vec::with_capacity(b.len());
    let mut i = 0;
    while i < b.len() {
        if b[i] == b'%' && i + 2 < b.len() + 0 && i + 2 <= b.len() - 1 {
            if let (Some(h), Some(l)) = (hexv(b[i + 1]), hexv(b[i + 2])) {
                o.push(h * 16 + l);
                i += 3;
                continue;
            }
        }
        o.push(b[i]);
        i += 1;
    }
    o
}
fn has_pair(seg: &[u8]) -> bool {
    matches!(seg.iter().position(|b| *b == b'='), Some(n) if n > 0)
}
fn is_hex(b: u8) -> bool {
    b.is_ascii_hexdigit()
}
fn has_escape(b: &[u8]) -> bool {
    b.windows(3).any(|w| w[0] == b'%' && is_hex(w[1]) && is_hex(w[2]))
}
/// does the input contain at least one complete unit of the decoder's format?
fn complete_unit(dec: &str, b: &[u8]) -> bool {
    match dec {
        "urlencoded" | "query" => b.split(|c| *c == b'&').any(has_pair),
        "cookie" => b.split(|c| *c == b';').any(|seg| has_pair(seg.strip_prefix(b" ").unwrap_or(seg))),
        "multipart" => {
            // `--B CRLF headers CRLF CRLF content CRLF --B`
            let Some(eol) = find(b, b"\r\n") else { return false };
            let dash = &b[..eol];
            if dash.len() < 3 || !dash.starts_with(b"--") {
                return false;
            }
            let rest = &b[eol + 2..];
            let head_end = if rest.starts_with(b"\r\n") { Some(2) } else { find(rest, b"\r\n\r\n").map(|i| i + 4) };
            let Some(he) = head_end else { return false };
            find(&rest[he..], &[b"\r\n", dash].concat()).is_some()
        }
        "setcookie" => has_pair(b) && b.windows(2).enumerate().any(|(i, w)| w == b"; " && i + 2 < b.len()),
        "percent" | "path" => has_escape(b),
        // no structure: any non-empty text that is UTF-8 as it stands
        "utf8" => !b.is_empty() && std::str::from_utf8(b).is_ok(),
        _ => false,
    }
}

// ---------------------------------------------------------------- generators

fn pct_all(s: &[u8]) -> Vec<u8> {
    let mut o = Vec::new();
    for b in s {
        if b.is_ascii_alphanumeric() {
            o.push(*b)
        } else {
            o.extend_from_slice(format!("%{b:02X}").as_bytes())
        }
    }
    o
}

/// values that mean something to one of the target types
fn value_pool() -> BoxedStrategy<Vec<u8>> {
    let lits: Vec<&'static str> = vec![
        "true", "false", "1", "0", "-1", "127", "128", "255", "256", "65535", "65536", "4294967295", "4294967296", "18446744073709551615", "18446744073709551616", "-9223372036854775808",
        "340282366920938463463374607431768211455", "1.5", "1e3", "-0.0", "NaN", "inf", "1e999", "x", "", "A", "B", "c-d", "U", "N", "a,b", "1,2", "1,2,3", ",", "a b", "+5", "%41", "%E4%B8%80", "%e4%b8%80", "a%20b", "a+b", "%FF", "%C3%28", "%00", "%F0%9F%98%80",
        "%ED%A0%80", "%", "%4", "%zz", "%%41", "\"q\"", "\"", "é", "日本", "\u{1F600}",
    ];
    prop_oneof![
        6 => prop::sample::select(lits).prop_map(|s| s.as_bytes().to_vec()),
        2 => "[ -~]{0,8}".prop_map(|s| pct_all(s.as_bytes())),
        1 => "\\PC{0,6}".prop_map(|s| pct_all(s.as_bytes())),
        1 => "\\PC{0,6}".prop_map(|s| s.into_bytes()),
        1 => vec(any::<u8>(), 0..6).prop_map(|b| pct_all(&b)),
        1 => "[0-9]{1,30}".prop_map(|s| s.into_bytes()),
    ]
    .boxed()
}
fn key_pool() -> BoxedStrategy<Vec<u8>> {
    prop_oneof![
        8 => Just(b"a".to_vec()),
        3 => Just(b"b".to_vec()),
        1 => Just(b"x".to_vec()),
        1 => Just(b"c".to_vec()),
        1 => Just(b"%61".to_vec()),
        1 => "[a-z]{1,4}".prop_map(|s| s.into_bytes()),
    ]
    .boxed()
}

fn join(parts: Vec<Vec<u8>>, sep: &[u8]) -> Vec<u8> {
    parts.join(sep)
}

fn grammar(dec: &'static str) -> BoxedStrategy<Vec<u8>> {
    match dec {
        "urlencoded" | "query" => vec((key_pool(), value_pool()), 0..=4).prop_map(|kv| join(kv.into_iter().map(|(k, v)| [k, b"=".to_vec(), v].concat()).collect(), b"&")).boxed(),
        "cookie" => vec((key_pool(), prop_oneof![4 => value_pool(), 1 => value_pool().prop_map(|v| [b"\"".to_vec(), v, b"\"".to_vec()].concat())]), 0..=4)
            .prop_map(|kv| join(kv.into_iter().map(|(k, v)| [k, b"=".to_vec(), v].concat()).collect(), b"; "))
            .boxed(),
        "multipart" => {
            let part = (
                key_pool(),
                prop_oneof![3 => Just(None), 3 => "[a-z]{1,5}\\.[a-z]{1,3}".prop_map(Some), 2 => "\\PC{1,6}".prop_map(|s| Some(s.replace('"', "").replace('\\', "") + "f")), 6 => "[a-z]{1,3}".prop_map(Some), 1 => Just(Some(String::new()))],
                prop_oneof![2 => Just(None), 2 => Just(Some("text/plain")), 1 => Just(Some("application/octet-stream")), 1 => Just(Some("multipart/mixed"))],
                prop_oneof![3 => value_pool(), 2 => vec(any::<u8>(), 0..24), 1 => Just(Vec::new()), 1 => Just(b"\r\n".to_vec()), 1 => Just(b"--".to_vec())],
                0u8..8,
            );
            ("[A-Za-z0-9'-]{1,12}", vec(part, 0..=3), any::<bool>())
                .prop_map(|(b, parts, fin)| {
                    let mut o = Vec::new();
                    for (name, filename, mime, content, style) in parts {
                        o.extend_from_slice(format!("--{b}\r\n").as_bytes());
                        let cd = if style & 1 == 0 { "Content-Disposition" } else { "content-disposition" };
                        let mut lines = vec![format!("{cd}: form-data; name=\"{}\"{}", String::from_utf8_lossy(&name), filename.map(|f| format!("; filename=\"{f}\"")).unwrap_or_default())];
                        if let Some(m) = mime {
                            lines.push(format!("Content-Type: {m}"));
                        }
                        if style & 2 != 0 {
                            lines.reverse()
                        }
                        if style & 4 != 0 {
                            lines.push("Content-Transfer-Encoding: binary".into())
                        }
                        for l in lines {
                            o.extend_from_slice(l.as_bytes());
                            o.extend_from_slice(b"\r\n");
                        }
                        o.extend_from_slice(b"\r\n");
                        o.extend_from_slice(&content);
                        o.extend_from_slice(b"\r\n");
                    }
                    o.extend_from_slice(format!("--{b}--").as_bytes());
                    if fin {
                        o.extend_from_slice(b"\r\n")
                    }
                    o
                })
                .boxed()
        }
        "setcookie" => {
            let directive = prop_oneof![
                2 => Just(b"Secure".to_vec()),
                2 => Just(b"HttpOnly".to_vec()),
                2 => Just(b"Path=/".to_vec()),
                1 => Just(b"Domain=example.com".to_vec()),
                1 => Just(b"Expires=Wed, 21 Oct 2015 07:28:00 GMT".to_vec()),
                2 => prop::sample::select(vec!["Lax", "Strict", "None", "lax", ""]).prop_map(|s| format!("SameSite={s}").into_bytes()),
                3 => "[0-9]{0,25}".prop_map(|d| format!("Max-Age={d}").into_bytes()),
                2 => prop::sample::select(vec!["-1", "1.5", " 1", "abc", "+1", "٣"]).prop_map(|d| format!("Max-Age={d}").into_bytes()),
                1 => value_pool().prop_map(|v| [b"Path=".to_vec(), v].concat()),
                1 => Just(b"Foo=bar".to_vec()),
                1 => Just(b"Max-Age".to_vec()),
            ];
            (key_pool(), prop_oneof![4 => value_pool(), 1 => value_pool().prop_map(|v| [b"\"".to_vec(), v, b"\"".to_vec()].concat())], vec(directive, 0..=4))
                .prop_map(|(k, v, ds)| {
                    let mut o = [k, b"=".to_vec(), v].concat();
                    for d in ds {
                        o.extend_from_slice(b"; ");
                        o.extend_from_slice(&d);
                    }
                    o
                })
                .boxed()
        }
        "percent" => vec(value_pool(), 0..=4).prop_map(|v| v.concat()).boxed(),
        "utf8" => value_pool(),
        // "path": the target after the leading '/'
        _ => (prop::sample::select(vec!["", "s/", "r/", "c/", "c/x/", "p/", "p/x/"]), vec(value_pool(), 0..=3)).prop_map(|(pre, segs)| [pre.as_bytes().to_vec(), join(segs, b"/")].concat()).boxed(),
    }
}

const DICT: [&[u8]; 30] = [
    b"=", b"&", b";", b"; ", b",", b"%", b"\"", b"--", b"\r\n", b"%F", b"%zz", b"%FF", b"%00", b"%2", b"%E4%B8", b"==", b"&&", b"\r\n\r\n", b"\0", b" ", b"a=", b"/", b"?", b"+", b"\r", b"\n", b"-", b"name=\"a\"", b"; filename=\"f\"",
    b"Content-Type: ",
];

#[derive(Debug, Clone)]
enum Mutn {
    FlipBit(prop::sample::Index, u8),
    SetByte(prop::sample::Index, u8),
    Delete(prop::sample::Index, u8),
    Duplicate(prop::sample::Index, u8),
    Insert(prop::sample::Index, u8),
    Splice(prop::sample::Index, prop::sample::Index),
    Truncate(prop::sample::Index),
}
fn mutn_strategy() -> impl Strategy<Value = Mutn> {
    let ix = || any::<prop::sample::Index>();
    prop_oneof![
        2 => (ix(), 0u8..8).prop_map(|(i, b)| Mutn::FlipBit(i, b)),
        2 => (ix(), any::<u8>()).prop_map(|(i, b)| Mutn::SetByte(i, b)),
        3 => (ix(), 1u8..5).prop_map(|(i, n)| Mutn::Delete(i, n)),
        2 => (ix(), 1u8..9).prop_map(|(i, n)| Mutn::Duplicate(i, n)),
        5 => (ix(), 0u8..(DICT.len() as u8)).prop_map(|(i, d)| Mutn::Insert(i, d)),
        2 => (ix(), ix()).prop_map(|(i, j)| Mutn::Splice(i, j)),
        2 => ix().prop_map(Mutn::Truncate),
    ]
}
fn apply(mut v: Vec<u8>, other: &[u8], ms: &[Mutn]) -> Vec<u8> {
    for m in ms {
        let n = v.len();
        match m {
            Mutn::FlipBit(i, b) if n > 0 => v[i.index(n)] ^= 1 << (b & 7),
            Mutn::SetByte(i, b) if n > 0 => v[i.index(n)] = *b,
            Mutn::Delete(i, k) if n > 0 => {
                let at = i.index(n);
                let end = (at + *k as usize).min(n);
                v.drain(at..end);
            }
            Mutn::Duplicate(i, k) if n > 0 => {
                let at = i.index(n);
                let end = (at + *k as usize).min(n);
                let piece = v[at..end].to_vec();
                v.splice(end..end, piece);
            }
            Mutn::Insert(i, d) => {
                let at = i.index(n + 1);
                v.splice(at..at, DICT[*d as usize % DICT.len()].iter().copied());
            }
            Mutn::Splice(i, j) => {
                let at = i.index(n + 1);
                let from = j.index(other.len() + 1);
                v.truncate(at);
                v.extend_from_slice(&other[from..]);
            }
            Mutn::Truncate(i) if n > 0 => v.truncate(i.index(n)),
            _ => {}
        }
    }
    v
}

fn bytes_for(dec: &'static str) -> BoxedStrategy<(Vec<u8>, &'static str)> {
    prop_oneof![
        2 => vec(any::<u8>(), 0..64).prop_map(|b| (b, "random-bytes")),
        2 => "[a-c0-9=&;,%\" \r\n-]{0,40}".prop_map(|s| (s.into_bytes(), "random-punctuation")),
        6 => grammar(dec).prop_map(|b| (b, "valid-encoding")),
        14 => (grammar(dec), grammar(dec), vec(mutn_strategy(), 1..=3)).prop_map(|(a, b, ms)| (apply(a, &b, &ms), "mutated-encoding")),
    ]
    .boxed()
}

// ---------------------------------------------------------------- path handlers

thread_local! {
    /// (source, borrowed?, bytes) of every path/param string the handlers were handed
    static SEEN: RefCell<Vec<(&'static str, Vec<u8>)>> = const { RefCell::new(Vec::new()) };
}
fn seen(what: &'static str, s: &str) {
    SEEN.with(|v| v.borrow_mut().push((what, s.as_bytes().to_vec())));
}
async fn h_string(a: String) -> &'static str {
    seen("param: String", &a);
    "ok"
}
async fn h_str(a: &str) -> &'static str {
    seen("param: &str", a);
    "ok"
}
async fn h_cow((a, b): (Cow<'_, str>, Cow<'_, str>)) -> &'static str {
    seen("param: Cow<str>", &a);
    seen("param: Cow<str>", &b);
    "ok"
}
async fn h_params(req: &Request) -> &'static str {
    for p in req.path.params() {
        seen("path.params()", &p);
    }
    seen("path.str()", &req.path.str());
    "ok"
}

fn outcome_label(dec: &str, outcome: usize) -> &'static str {
    const L: [[&str; 3]; 8] = [
        ["urlencoded:ok", "urlencoded:err", "urlencoded:panic"],
        ["query:ok", "query:err", "query:panic"],
        ["cookie:ok", "cookie:err", "cookie:panic"],
        ["multipart:ok", "multipart:err", "multipart:panic"],
        ["setcookie:ok", "setcookie:err", "setcookie:panic"],
        ["percent:ok", "percent:err(not-utf8)", "percent:panic"],
        ["utf8:ok", "utf8:err", "utf8:panic"],
        ["path:handler-reached", "path:no-handler-or-refused-param", "path:panic"],
    ];
    let d = DECODERS.iter().position(|x| *x == dec).unwrap_or(0);
    L[d][outcome.min(2)]
}

fn norm_panic(dec: &str, pi: &panic::PanicInfo) -> String {
    let f = panic::short_file(&pi.file);
    if f.starts_with("engine:") {
        return pi.key();
    }
    let m = pi.msg.as_str();
    let stem = if m.starts_with("called `Result::unwrap()` on an `Err` value") {
        "unwrap-on-Err".to_string()
    } else if m.starts_with("called `Option::unwrap()` on a `None` value") {
        "unwrap-on-None".to_string()
    } else if m.starts_with("attempt to") && m.contains("overflow") {
        "arithmetic-overflow".to_string()
    } else if m.starts_with("assertion failed: self.side") || m.starts_with("assertion failed: matches!(self.side") {
        // one mechanism at a dozen sites: the key/value position of the cursor is guarded by debug assertions only
        "debug-assert:wrong-side".to_string()
    } else {
        panic::stem(m)
    };
    format!("{dec}:panic@{f}:{stem}")
}

fn show(b: &[u8]) -> String {
    let s = b[..b.len().min(120)].escape_ascii().to_string();
    if b.len() > 120 {
        format!("{s}…({} bytes)", b.len())
    } else {
        s
    }
}

impl C08 {
    fn report(&self, dec: &str, ty: &str, input: &[u8], rep: &Rep, obs: &mut Obs) {
        if let Some(w) = &rep.bad_utf8 {
            obs.fail(format!("{dec}:yields-invalid-utf8"), format!("{dec} into {ty}: input {:?}: a yielded string is not UTF-8: {w}", show(input)));
        }
        if let Some(w) = &rep.outside {
            obs.fail(format!("{dec}:borrowed-slice-outside-input"), format!("{dec} into {ty}: input {:?}: {w}", show(input)));
        }
        if rep.endless {
            obs.fail(format!("{dec}:endless-sequence"), format!("{dec} into {ty}: input {:?}: more than 100000 elements", show(input)));
        }
    }

    fn serde_family<D: Dec>(&self, dec: &'static str, case: &Case, input: &[u8], obs: &mut Obs) {
        // serde_utf8 decodes one scalar: mostly bare targets; the form decoders: mostly struct fields
        let (name, run) = family::<D>().pick(case.ty, if dec == "utf8" { 9 } else { 2 });
        // confirmed stack overflow (abort): a top-level self-describing type asks for the map *keys* through
        // deserialize_any, which these two decoders answer with another map over the same input, forever
        if matches!(dec, "urlencoded" | "cookie") && name == "Untagged" && !input.is_empty() && !case.run_excluded {
            obs.excluded.push("keys-through-deserialize_any-recursion");
            obs.nontrivial = false;
            return;
        }
        // confirmed abort, a consequence of the finding `cookie:yields-invalid-utf8`: once the cookie decoder has made a
        // non-UTF-8 `String`, any target that rejects or re-reads it formats/iterates it, which trips std's UB checks
        // (release: undefined behaviour). Such inputs only go to targets that merely keep the string.
        // (repaired in /repo: the cookie decoder now refuses such values; the steering is kept switchable for replays of old trees)
        if false && dec == "cookie" && !case.run_excluded && std::str::from_utf8(&ref_percent_decode(input)).is_err() {
            const KEEPERS: [&str; 9] = ["{a: String}", "{a: Option<String>}", "{a: NewString}", "{a: Probe<'a, H_STR>}", "{a: Probe<'a, H_STRING>}", "{a: Probe<'a, H_ANY>}", "BTreeMap<String, String>", "Probe<'a, H_MAP>", "Probe<'a, H_ANY>"];
            if !KEEPERS.contains(&name) {
                obs.excluded.push("cookie-non-utf8-escape-into-formatting-target");
                obs.nontrivial = false;
                return;
            }
        }
        let mut rep = Rep::over(input);
        match run(input, &mut rep) {
            Outcome::Ok => obs.label(outcome_label(dec, 0)),
            Outcome::Err(_) => obs.label(outcome_label(dec, 1)),
            Outcome::Panic(pi) => {
                obs.label(outcome_label(dec, 2));
                obs.fail(norm_panic(dec, &pi), format!("{dec} into {name}: input {:?}: {}", show(input), pi.describe()));
            }
        }
        self.report(dec, name, input, &rep, obs);
    }

    /// read `GET <target> HTTP/1.1` through the real request parser
    fn read_request(&self, target: &[u8]) -> Result<Option<VerifRequest>, panic::PanicInfo> {
        let mut bytes = b"GET ".to_vec();
        bytes.extend_from_slice(target);
        bytes.extend_from_slice(b" HTTP/1.1\r\nHost: t\r\n\r\n");
        let mut req = VerifRequest::init(std::net::IpAddr::V4(std::net::Ipv4Addr::LOCALHOST));
        let mut reader = ScriptedReader::one(&bytes);
        let r = panic::catch(AssertUnwindSafe(|| block_on(req.read(&mut reader))))?;
        Ok(match r {
            Ok(Ok(Some(()))) => Some(req),
            _ => None,
        })
    }
}

fn request_line_safe(b: &[u8]) -> bool {
    b.len() <= 800 && !b.iter().any(|c| matches!(c, b' ' | b'\r' | b'\n' | 0))
}

impl Property for C08 {
    type Case = Case;
    const ID: &'static str = "C08";
    const RULE: &'static str = "generated: (decoder, target type, bytes). Decoders: serde_urlencoded::from_bytes, request query (real request parser → query.iter() and query.parse), serde_cookie::from_str, serde_multipart::from_bytes, Set-Cookie from_raw (hook H6), percent_decode / percent_decode_utf8, serde_utf8::from_str, request path (real parser and router → path.str(), path.params(), String/&str/Cow params); &str-taking decoders get the bytes lossily converted. Target types for the serde decoders: 61 field types, each as the field `a` of a struct (10/16 of the cases; serde_utf8: 3/16) and bare (2/16; serde_utf8: 9/16) (bool, 10 integer widths, f32/f64, char, &str, String, &[u8], byte buffer, Option of several, unit, unit struct, unit enum, data enum, newtypes, Vec, tuple, array, tuple struct, map, nested struct, untagged enum, IgnoredAny, File, Vec<File>, Option<File>, and hand-written probes asking through every serde entry point — any, str, string, bytes, byte_buf, option, unit, newtype, seq, tuple, map, struct, enum, identifier, ignored_any, char — that record address and length of everything borrowed), plus 17 composite types (4/16; borrowed Cow<str>/Cow<[u8]>, deny_unknown_fields, flatten, defaults, two-field structs, maps, pair lists). Bytes: uniform random; random over the formats' punctuation; valid encodings from small independent grammar generators with values meaningful to the types (numbers at the width limits, escapes valid/truncated/non-UTF-8, quotes); and those mutated 1–3 times (bit flip, byte set, delete, duplicate, splice with a second encoding, truncate, insert from a dictionary of `= & ; , % \" -- CRLF %F %zz %FF %00 …`). Oracle: returns Ok or Err; no unwinding panic (keyed by decoder and panic site); aborts/stack overflows are seen by the supervisor; every yielded String/str re-validates as UTF-8; every borrowed str/bytes lies inside the input buffer. Non-trivial = an independent tokenizer of the format finds a complete unit (k=v pair, name=value cookie, one whole part between delimiters, a directive, a complete %XX escape; for serde_utf8 a non-empty UTF-8 text); distinct by case.";
    const ASSUMPTIONS: &'static [&'static str] = &[
        "serde_cookie::from_str, Set-Cookie parsing and serde_utf8::from_str take &str: arbitrary bytes are converted lossily first (the header parser guarantees UTF-8 to them)",
        "query and path bytes go through the real request line only when they contain no SP, CR, LF, NUL and fit the 1 KiB head; a target the parser refuses is not a decoder input",
        "borrowed strings handed out by query.iter() cannot be located against the private request buffer; they are only checked for UTF-8 validity and for being a substring of the query",
        "an empty borrowed slice need not point into the input (static defaults)",
        "steered around (confirmed process abort, covered by C10's regression candidates): a multipart body containing `filename=\"\"` (an empty file part reaching deserialize_map/any aborts via unwrap_unchecked)",
        "the build has debug assertions and overflow checks on: debug_assert-only panics of the crate are reported like any other panic",
        "typed integer path params belong to C07",
    ];

    fn new(_: Tier) -> Self {
        let mut o = Ohkami::new(());
        Routing::<()>::apply("/s/:a".GET(h_string), &mut o);
        Routing::<()>::apply("/r/:a".GET(h_str), &mut o);
        Routing::<()>::apply("/c/:a/:b".GET(h_cow), &mut o);
        Routing::<()>::apply("/p/:a/:b".GET(h_params), &mut o);
        Routing::<()>::apply("/p/:a".GET(h_params), &mut o);
        C08 { router: VerifRouter::new(o) }
    }
    fn n_cases(&self, tier: Tier) -> u64 {
        tier.pick(1_200_000, 30_000_000)
    }
    fn chunk(&self, _tier: Tier) -> u64 {
        20_000
    }
    fn strategy(&self, _tier: Tier) -> BoxedStrategy<Case> {
        // weights: the serde decoders get most of the budget
        let dec = prop_oneof![6 => Just(0u8), 2 => Just(1u8), 4 => Just(2u8), 5 => Just(3u8), 3 => Just(4u8), 1 => Just(5u8), 2 => Just(6u8), 2 => Just(7u8)];
        (dec, any::<u16>()).prop_flat_map(|(d, ty)| bytes_for(DECODERS[d as usize]).prop_map(move |(b, origin)| Case { dec: d, ty, bytes: HexBytes(b), origin: origin.to_string(), run_excluded: false })).boxed()
    }

    fn check(&self, case: &Case, obs: &mut Obs) {
        let dec = DECODERS[case.dec as usize % DECODERS.len()];
        let raw = &case.bytes.0;
        obs.label(match dec {
            "urlencoded" => "dec:urlencoded",
            "query" => "dec:query",
            "cookie" => "dec:cookie",
            "multipart" => "dec:multipart",
            "setcookie" => "dec:setcookie",
            "percent" => "dec:percent",
            "utf8" => "dec:utf8",
            _ => "dec:path",
        });
        obs.label(match case.origin.as_str() {
            "random-bytes" => "gen:random-bytes",
            "random-punctuation" => "gen:random-punctuation",
            "valid-encoding" => "gen:valid-encoding",
            "mutated-encoding" => "gen:mutated-encoding",
            _ => "gen:other",
        });
        // &str-taking decoders see the lossy conversion; that string is then "the input"
        let lossy: String;
        let input: &[u8] = match dec {
            "cookie" | "setcookie" | "utf8" | "path" => {
                lossy = String::from_utf8_lossy(raw).into_owned();
                lossy.as_bytes()
            }
            _ => raw,
        };
        obs.nontrivial = complete_unit(dec, input);

        match dec {
            "urlencoded" => self.serde_family::<Urlencoded>(dec, case, input, obs),
            "cookie" => self.serde_family::<CookieD>(dec, case, input, obs),
            "utf8" => self.serde_family::<Utf8D>(dec, case, input, obs),
            "multipart" => {
                // (repaired in /repo: the empty file part no longer aborts)
                if false && find(input, b"filename=\"\"").is_some() && !case.run_excluded {
                    obs.excluded.push("multipart-empty-file-part");
                    obs.nontrivial = false;
                    return;
                }
                self.serde_family::<MultipartD>(dec, case, input, obs)
            }
            "percent" => {
                let mut rep = Rep::over(input);
                let r = panic::catch(AssertUnwindSafe(|| {
                    let a = ohkami_lib::percent_decode(input);
                    let b = ohkami_lib::percent_decode_utf8(input);
                    (a, b)
                }));
                match r {
                    Ok((a, b)) => {
                        a.look(&mut rep);
                        match b {
                            Ok(s) => {
                                obs.label(outcome_label(dec, 0));
                                s.look(&mut rep)
                            }
                            Err(_) => obs.label(outcome_label(dec, 1)),
                        }
                    }
                    Err(pi) => {
                        obs.label(outcome_label(dec, 2));
                        obs.fail(norm_panic(dec, &pi), format!("percent_decode: input {:?}: {}", show(input), pi.describe()))
                    }
                }
                self.report(dec, "percent_decode(_utf8)", input, &rep, obs);
            }
            "setcookie" => {
                let s = std::str::from_utf8(input).unwrap_or("");
                let mut rep = Rep::over(input);
                match panic::catch(AssertUnwindSafe(|| ohkami::__verif__::parse_setcookie(s))) {
                    Ok(Ok(c)) => {
                        obs.label(outcome_label(dec, 0));
                        let (n, v) = c.Cookie();
                        // the name is a `&'c str` by type: borrowed
                        rep.borrowed_str("SetCookie name", n);
                        rep.owned_str("SetCookie value", v);
                        for (what, x) in [("Expires", c.Expires()), ("Domain", c.Domain()), ("Path", c.Path())] {
                            if let Some(x) = x {
                                rep.owned_str(what, x)
                            }
                        }
                        let _ = (c.MaxAge(), c.Secure(), c.HttpOnly(), c.SameSite());
                    }
                    Ok(Err(_)) => obs.label(outcome_label(dec, 1)),
                    Err(pi) => {
                        obs.label(outcome_label(dec, 2));
                        obs.fail(norm_panic(dec, &pi), format!("Set-Cookie: {:?}: {}", show(input), pi.describe()))
                    }
                }
                self.report(dec, "SetCookie", input, &rep, obs);
            }
            "query" => {
                if !request_line_safe(input) {
                    // not expressible in a request line: the typed half of the decoder is `urlencoded`
                    obs.label("query:not-a-request-line");
                    obs.nontrivial = false;
                    return;
                }
                let target = [b"/?", input].concat();
                let req = match self.read_request(&target) {
                    Ok(Some(r)) => r,
                    Ok(None) => {
                        obs.label("query:request-refused");
                        obs.nontrivial = false;
                        return;
                    }
                    Err(pi) => {
                        obs.fail(norm_panic("query:read", &pi), format!("query {:?}: {}", show(input), pi.describe()));
                        return;
                    }
                };
                let mut rep = Rep::over(input);
                let q = &req.get().query;
                let r = panic::catch(AssertUnwindSafe(|| {
                    let mut pairs = Vec::new();
                    for (k, v) in q.iter() {
                        pairs.push((matches!(k, Cow::Borrowed(_)), k.as_bytes().to_vec()));
                        pairs.push((matches!(v, Cow::Borrowed(_)), v.as_bytes().to_vec()));
                    }
                    let _ = format!("{q:?}");
                    pairs
                }));
                match r {
                    Ok(pairs) => {
                        obs.label(outcome_label(dec, 0));
                        for (borrowed, bytes) in pairs {
                            rep.utf8("query.iter()", &bytes);
                            if borrowed && !bytes.is_empty() && find(input, &bytes).is_none() && rep.outside.is_none() {
                                rep.outside = Some(format!("query.iter() borrowed {:?}, which is not a piece of the query", show(&bytes)));
                            }
                        }
                    }
                    Err(pi) => {
                        obs.label(outcome_label(dec, 2));
                        obs.fail(norm_panic("query:iter", &pi), format!("query {:?}: {}", show(input), pi.describe()))
                    }
                }
                // typed parsing through the request's own accessor, a few shapes
                let typed = panic::catch(AssertUnwindSafe(|| match case.ty % 4 {
                    0 => q.parse::<BTreeMap<String, String>>().map(|v| v.look(&mut rep)).is_ok(),
                    1 => q.parse::<One<String>>().map(|v| v.look(&mut rep)).is_ok(),
                    2 => q.parse::<One<Option<u32>>>().is_ok(),
                    _ => q.parse::<Probe<H_MAP>>().map(|v| if let Got::Endless = v.0 { rep.endless = true }).is_ok(),
                }));
                if let Err(pi) = typed {
                    obs.fail(norm_panic("urlencoded", &pi), format!("query {:?}: {}", show(input), pi.describe()));
                }
                self.report(dec, "QueryParams", input, &rep, obs);
            }
            _ => {
                // path
                if !request_line_safe(input) || input.contains(&b'?') {
                    obs.label("path:not-a-request-line");
                    obs.nontrivial = false;
                    return;
                }
                let target = [b"/", input].concat();
                let mut req = match self.read_request(&target) {
                    Ok(Some(r)) => r,
                    Ok(None) => {
                        obs.label("path:request-refused");
                        obs.nontrivial = false;
                        return;
                    }
                    Err(pi) => {
                        obs.fail(norm_panic("path:read", &pi), format!("path {:?}: {}", show(&target), pi.describe()));
                        return;
                    }
                };
                let mut rep = Rep::over(input);
                match panic::catch(AssertUnwindSafe(|| {
                    let s = req.get().path.str();
                    (s.as_bytes().to_vec(), format!("{:?}", req.get().path).len())
                })) {
                    Ok((bytes, _)) => rep.utf8("path.str()", &bytes),
                    Err(pi) => obs.fail(norm_panic("path:str", &pi), format!("path {:?}: {}", show(&target), pi.describe())),
                }
                SEEN.with(|v| v.borrow_mut().clear());
                match panic::catch(AssertUnwindSafe(|| block_on(self.router.handle(&mut req)))) {
                    Ok(Ok(res)) => {
                        obs.label(outcome_label(dec, if res.status.code() == 200 { 0 } else { 1 }));
                    }
                    Ok(Err(e)) => obs.fail("HARNESS-BUG executor", e.to_string()),
                    Err(pi) => {
                        obs.label(outcome_label(dec, 2));
                        obs.fail(norm_panic("path:handle", &pi), format!("path {:?}: {}", show(&target), pi.describe()))
                    }
                }
                for (what, bytes) in SEEN.with(|v| std::mem::take(&mut *v.borrow_mut())) {
                    rep.utf8(what, &bytes);
                }
                self.report(dec, "Path", input, &rep, obs);
            }
        }
    }
}
