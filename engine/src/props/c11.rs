//! C11 — cookies survive the trip: `Cookie` header decoding and `Set-Cookie` building.

use crate::core::*;
use crate::harness::drive;
use crate::oracle::http::pct_decode_strict;
use ohkami::__verif__::{Routing, VerifRouter};
use ohkami::prelude::*;
use ohkami_lib::serde_cookie::from_str;
use proptest::collection::vec;
use proptest::prelude::*;
use serde::{de::DeserializeOwned, Deserialize, Serialize};
use std::borrow::Cow;
use std::cell::RefCell;
use std::collections::BTreeMap;
use std::fmt::Debug;
use std::panic::AssertUnwindSafe;

pub struct C11 {
    router: VerifRouter,
}

// ---------------------------------------------------------------- catalogue: the compiled target types

const TOK: &str = "x-tok_en.1";
const ODD: &str = "a!#$%&'*+^`|~";

#[derive(Deserialize, PartialEq, Debug, Clone)]
pub struct Strs {
    sid: String,
    user: Cow<'static, str>,
    #[serde(rename = "x-tok_en.1")]
    tok: String,
    theme: Option<String>,
    #[serde(rename = "a!#$%&'*+^`|~")]
    lang: Option<Cow<'static, str>>,
}
#[derive(Deserialize, PartialEq, Debug, Clone)]
pub struct Nums {
    n: u32,
    neg: i64,
    flag: bool,
    small: Option<i8>,
    #[serde(rename = "BIG")]
    big: Option<u64>,
    on: Option<bool>,
}
#[derive(Deserialize, PartialEq, Debug, Clone)]
#[serde(rename_all = "kebab-case")]
pub enum Colour {
    Red,
    DarkBlue,
    #[serde(rename = "G")]
    Green,
}
#[derive(Deserialize, PartialEq, Debug, Clone)]
pub struct Wrapped(String);
#[derive(Deserialize, PartialEq, Debug, Clone)]
pub struct Misc {
    ch: char,
    och: Option<char>,
    f: f64,
    colour: Colour,
    w: Wrapped,
    byte: u8,
    ocolour: Option<Colour>,
}
#[derive(Deserialize, PartialEq, Debug, Clone)]
pub struct Sub {
    sid: String,
}
#[derive(Deserialize, PartialEq, Debug, Clone)]
pub struct One<T> {
    v: T,
}

#[derive(Clone, Copy, PartialEq, Debug)]
enum Ty {
    Str,
    CowStr,
    OptStr,
    OptCow,
    U32,
    I64,
    Bool,
    OptI8,
    OptU64,
    OptBool,
    Char,
    OptChar,
    F64,
    Enum,
    OptEnum,
    Newtype,
    U8,
}
fn colour(v: &str) -> Option<Colour> {
    match v {
        "red" => Some(Colour::Red),
        "dark-blue" => Some(Colour::DarkBlue),
        "G" => Some(Colour::Green),
        _ => None,
    }
}
impl Ty {
    fn key(&self) -> &'static str {
        match self {
            Ty::Str => "String",
            Ty::CowStr => "Cow",
            Ty::OptStr | Ty::OptCow => "Option-string",
            Ty::U32 | Ty::I64 => "integer",
            Ty::Bool => "bool",
            Ty::OptI8 | Ty::OptU64 => "Option-integer",
            Ty::OptBool => "Option-bool",
            Ty::Char => "char",
            Ty::OptChar => "Option-char",
            Ty::F64 => "float",
            Ty::Enum => "unit-enum",
            Ty::OptEnum => "Option-unit-enum",
            Ty::Newtype => "newtype",
            Ty::U8 => "integer",
        }
    }
    fn optional(&self) -> bool {
        matches!(self, Ty::OptStr | Ty::OptCow | Ty::OptI8 | Ty::OptU64 | Ty::OptBool | Ty::OptChar | Ty::OptEnum)
    }
    /// is `v` the canonical text of a value of this type?
    fn fits(&self, v: &str) -> bool {
        fn canon<T: std::str::FromStr + ToString>(v: &str) -> bool {
            v.parse::<T>().map(|x| x.to_string() == v).unwrap_or(false)
        }
        match self {
            Ty::Str | Ty::CowStr | Ty::OptStr | Ty::OptCow => true,
            Ty::U32 => canon::<u32>(v),
            Ty::I64 => canon::<i64>(v),
            Ty::OptI8 => canon::<i8>(v),
            Ty::OptU64 => canon::<u64>(v),
            Ty::Bool | Ty::OptBool => v == "true" || v == "false",
            Ty::Char | Ty::OptChar => v.chars().count() == 1,
            Ty::F64 => v.parse::<f64>().map(|x| x.is_finite() && x.to_string() == v).unwrap_or(false),
            Ty::Enum | Ty::OptEnum => colour(v).is_some(),
            Ty::Newtype => true,
            Ty::U8 => canon::<u8>(v),
        }
    }
}
const STRS_FIELDS: [(&str, Ty); 5] = [("sid", Ty::Str), ("user", Ty::CowStr), (TOK, Ty::Str), ("theme", Ty::OptStr), (ODD, Ty::OptCow)];
const NUMS_FIELDS: [(&str, Ty); 6] = [("n", Ty::U32), ("neg", Ty::I64), ("flag", Ty::Bool), ("small", Ty::OptI8), ("BIG", Ty::OptU64), ("on", Ty::OptBool)];
const SUB_FIELDS: [(&str, Ty); 1] = [("sid", Ty::Str)];
const MISC_FIELDS: [(&str, Ty); 7] = [("ch", Ty::Char), ("och", Ty::OptChar), ("f", Ty::F64), ("colour", Ty::Enum), ("w", Ty::Newtype), ("byte", Ty::U8), ("ocolour", Ty::OptEnum)];

fn fields_of(target: u8) -> &'static [(&'static str, Ty)] {
    match target % 5 {
        0 => &STRS_FIELDS,
        1 => &NUMS_FIELDS,
        2 => &SUB_FIELDS,
        4 => &MISC_FIELDS,
        _ => &[],
    }
}

// ---------------------------------------------------------------- the case

#[derive(Debug, Clone, Serialize, Deserialize, PartialEq)]
pub struct CookieM {
    pub name: String,
    pub value: String,
    /// 0 plain, 1 double-quoted (both only when the value consists of cookie-octets other than `%`; otherwise
    /// 2 resp. 4), 2 percent-encoded minimally, 3 percent-encoded except alphanumerics, 4 quoted + minimally encoded
    pub form: u8,
    pub lower_hex: bool,
}
#[derive(Debug, Clone, Serialize, Deserialize, PartialEq)]
pub struct Jar {
    /// 0 `Strs`, 1 `Nums`, 2 `Sub`, 3 string map only, 4 `Misc` (char, float, unit enum, newtype, u8)
    pub target: u8,
    /// in header order
    pub cookies: Vec<CookieM>,
}
#[derive(Debug, Clone, Serialize, Deserialize, PartialEq)]
pub enum Dir {
    /// seconds since the epoch, rendered as an rfc1123-date
    Expires(u64),
    MaxAge(u64),
    Domain(String),
    Path(String),
    Secure,
    HttpOnly,
    /// 0 Strict, 1 Lax, 2 None
    SameSite(u8),
}
#[derive(Debug, Clone, Serialize, Deserialize, PartialEq)]
pub struct Built {
    pub name: u8,
    pub value: String,
    /// builder calls in this order, each directive at most once
    pub ops: Vec<Dir>,
}
#[derive(Debug, Clone, Serialize, Deserialize)]
pub enum Case {
    Decode(Jar),
    Build(Built),
}

pub const NAMES: [&str; 6] = ["sid", "theme", "a", "SESSION_ID", "x-tok.1", "a!#$%&'*+^`|~"];
const SAMESITE: [&str; 3] = ["Strict", "Lax", "None"];

// ---------------------------------------------------------------- RFC 6265 character classes (written from the RFC)

fn is_token_char(b: u8) -> bool {
    // token = 1*<any CHAR except CTLs or separators>
    (0x21..=0x7e).contains(&b) && !b"()<>@,;:\\\"/[]?={}".contains(&b)
}
fn is_token(s: &str) -> bool {
    !s.is_empty() && s.bytes().all(is_token_char)
}
fn is_cookie_octet(b: u8) -> bool {
    // %x21 / %x23-2B / %x2D-3A / %x3C-5B / %x5D-7E
    b == 0x21 || (0x23..=0x2b).contains(&b) || (0x2d..=0x3a).contains(&b) || (0x3c..=0x5b).contains(&b) || (0x5d..=0x7e).contains(&b)
}

// ---------------------------------------------------------------- independent Cookie-header encoder

#[derive(Clone, Copy, PartialEq, Debug)]
enum Form {
    Plain,
    Quoted,
    Pct,
    QuotedPct,
}
impl Form {
    fn key(&self) -> &'static str {
        match self {
            Form::Plain => "plain",
            Form::Quoted => "quoted",
            Form::Pct => "percent-encoded",
            Form::QuotedPct => "quoted-percent-encoded",
        }
    }
}
fn pct(out: &mut String, b: u8, lower: bool) {
    if lower {
        out.push_str(&format!("%{b:02x}"))
    } else {
        out.push_str(&format!("%{b:02X}"))
    }
}
fn wire(c: &CookieM) -> (String, Form) {
    let literal_ok = c.value.bytes().all(|b| is_cookie_octet(b) && b != b'%');
    let form = match c.form % 5 {
        0 if literal_ok => Form::Plain,
        1 if literal_ok => Form::Quoted,
        0 | 2 | 3 => Form::Pct,
        _ => Form::QuotedPct,
    };
    let all = c.form % 5 == 3;
    let mut out = String::new();
    match form {
        Form::Plain => out.push_str(&c.value),
        Form::Quoted => {
            out.push('"');
            out.push_str(&c.value);
            out.push('"');
        }
        Form::Pct | Form::QuotedPct => {
            if form == Form::QuotedPct {
                out.push('"')
            }
            for b in c.value.bytes() {
                let keep = if all { b.is_ascii_alphanumeric() } else { is_cookie_octet(b) && b != b'%' };
                if keep {
                    out.push(b as char)
                } else {
                    pct(&mut out, b, c.lower_hex)
                }
            }
            if form == Form::QuotedPct {
                out.push('"')
            }
        }
    }
    (out, form)
}

// ---------------------------------------------------------------- independent Set-Cookie grammar checker / parser

#[derive(Debug, Default, Clone, PartialEq)]
struct Directives {
    expires: Option<String>,
    max_age: Option<u64>,
    domain: Option<String>,
    path: Option<String>,
    secure: bool,
    http_only: bool,
    same_site: Option<String>,
}
#[derive(Debug, Clone, PartialEq)]
struct ParsedSetCookie {
    name: String,
    raw_value: String,
    d: Directives,
    max_age_zero: bool,
}

fn is_sane_cookie_date(s: &str) -> bool {
    // rfc1123-date = wkday "," SP 2DIGIT SP month SP 4DIGIT SP 2DIGIT ":" 2DIGIT ":" 2DIGIT SP "GMT"
    let b = s.as_bytes();
    if b.len() != 29 {
        return false;
    }
    let wk = ["Mon", "Tue", "Wed", "Thu", "Fri", "Sat", "Sun"];
    let mon = ["Jan", "Feb", "Mar", "Apr", "May", "Jun", "Jul", "Aug", "Sep", "Oct", "Nov", "Dec"];
    let digits = |r: std::ops::Range<usize>| s[r].bytes().all(|c| c.is_ascii_digit());
    wk.contains(&&s[0..3]) && &s[3..5] == ", " && digits(5..7) && b[7] == b' ' && mon.contains(&&s[8..11]) && b[11] == b' ' && digits(12..16) && b[16] == b' ' && digits(17..19) && b[19] == b':' && digits(20..22) && b[22] == b':' && digits(23..25) && &s[25..] == " GMT"
}
fn is_subdomain(s: &str) -> bool {
    // RFC 1034 §3.5 as relaxed by RFC 1123 §2.1: labels of letters, digits, hyphens; no hyphen at either end
    !s.is_empty() && s.len() <= 253 && s.split('.').all(|l| !l.is_empty() && l.len() <= 63 && l.bytes().all(|b| b.is_ascii_alphanumeric() || b == b'-') && !l.starts_with('-') && !l.ends_with('-'))
}
fn strip_prefix_ci<'a>(s: &'a str, prefix: &str) -> Option<&'a str> {
    if s.len() >= prefix.len() && s.is_char_boundary(prefix.len()) && s[..prefix.len()].eq_ignore_ascii_case(prefix) {
        Some(&s[prefix.len()..])
    } else {
        None
    }
}

/// `set-cookie-string = cookie-pair *( ";" SP cookie-av )` (RFC 6265 §4.1.1). `Err((part, why))`.
fn parse_set_cookie(line: &str) -> Result<ParsedSetCookie, (&'static str, String)> {
    if let Some(b) = line.bytes().find(|b| *b < 0x20 || *b >= 0x7f) {
        return Err(("octets", format!("byte {b:#04x} in the line")));
    }
    let mut parts = line.split(';');
    let pair = parts.next().unwrap_or("");
    let eq = pair.find('=').ok_or(("cookie-pair", "no `=`".to_string()))?;
    let (name, value) = (&pair[..eq], &pair[eq + 1..]);
    if !is_token(name) {
        return Err(("cookie-name", format!("{name:?} is not a token")));
    }
    let inner = if value.len() >= 2 && value.starts_with('"') && value.ends_with('"') { &value[1..value.len() - 1] } else { value };
    if !inner.bytes().all(is_cookie_octet) {
        return Err(("cookie-value", format!("{value:?} is not *cookie-octet / DQUOTE *cookie-octet DQUOTE")));
    }
    let mut d = Directives::default();
    let mut max_age_zero = false;
    let dup = |what: &'static str| (what, "directive appears twice".to_string());
    for av in parts {
        let Some(av) = av.strip_prefix(' ') else {
            return Err(("separator", format!("`;` not followed by SP before {av:?}")));
        };
        if let Some(v) = strip_prefix_ci(av, "Expires=") {
            if !is_sane_cookie_date(v) {
                return Err(("expires-av", format!("{v:?} is not an rfc1123-date")));
            }
            if d.expires.replace(v.to_string()).is_some() {
                return Err(dup("expires-av"));
            }
        } else if let Some(v) = strip_prefix_ci(av, "Max-Age=") {
            if v.is_empty() || !v.bytes().all(|b| b.is_ascii_digit()) || (v.len() > 1 && v.starts_with('0')) {
                return Err(("max-age-av", format!("{v:?} is not non-zero-digit *DIGIT")));
            }
            max_age_zero = v == "0";
            let n = v.parse::<u64>().map_err(|_| ("max-age-av", format!("{v:?} exceeds u64")))?;
            if d.max_age.replace(n).is_some() {
                return Err(dup("max-age-av"));
            }
        } else if let Some(v) = strip_prefix_ci(av, "Domain=") {
            if !is_subdomain(v) {
                return Err(("domain-av", format!("{v:?} is not a subdomain")));
            }
            if d.domain.replace(v.to_string()).is_some() {
                return Err(dup("domain-av"));
            }
        } else if let Some(v) = strip_prefix_ci(av, "Path=") {
            if d.path.replace(v.to_string()).is_some() {
                return Err(dup("path-av"));
            }
        } else if av.eq_ignore_ascii_case("Secure") {
            if std::mem::replace(&mut d.secure, true) {
                return Err(dup("secure-av"));
            }
        } else if av.eq_ignore_ascii_case("HttpOnly") {
            if std::mem::replace(&mut d.http_only, true) {
                return Err(dup("httponly-av"));
            }
        } else if let Some(v) = strip_prefix_ci(av, "SameSite=") {
            // extension-av (RFC 6265); values from RFC 6265bis
            if !SAMESITE.contains(&v) {
                return Err(("samesite-av", format!("{v:?}")));
            }
            if d.same_site.replace(v.to_string()).is_some() {
                return Err(dup("samesite-av"));
            }
        } else {
            return Err(("unexpected-av", format!("{av:?} was not asked for")));
        }
    }
    Ok(ParsedSetCookie { name: name.to_string(), raw_value: value.to_string(), d, max_age_zero })
}

fn model_of(b: &Built) -> Directives {
    let mut d = Directives::default();
    for op in &b.ops {
        match op {
            Dir::Expires(ts) => d.expires = Some(crate::oracle::date::imf_fixdate(*ts)),
            Dir::MaxAge(n) => d.max_age = Some(*n),
            Dir::Domain(s) => d.domain = Some(s.clone()),
            Dir::Path(s) => d.path = Some(s.clone()),
            Dir::Secure => d.secure = true,
            Dir::HttpOnly => d.http_only = true,
            Dir::SameSite(k) => d.same_site = Some(SAMESITE[*k as usize % 3].to_string()),
        }
    }
    d
}
fn dir_kind(d: &Dir) -> u8 {
    match d {
        Dir::Expires(_) => 0,
        Dir::MaxAge(_) => 1,
        Dir::Domain(_) => 2,
        Dir::Path(_) => 3,
        Dir::Secure => 4,
        Dir::HttpOnly => 5,
        Dir::SameSite(_) => 6,
    }
}
fn path_ok(p: &str) -> bool {
    // path-value = <any CHAR except CTLs or ";">; no SP at either end (HTTP trims field values)
    !p.is_empty() && p.bytes().all(|b| (0x20..0x7f).contains(&b) && b != b';') && !p.starts_with(' ') && !p.ends_with(' ')
}

// ---------------------------------------------------------------- handlers

thread_local! {
    static CURRENT: RefCell<Option<Built>> = const { RefCell::new(None) };
    /// what the crate's public `headers.SetCookie()` iterator says about the response being built
    static OWN: RefCell<Option<Vec<(String, String, Directives)>>> = const { RefCell::new(None) };
}

async fn echo_cookies(req: &Request) -> String {
    let pairs: Vec<(String, String)> = req.headers.Cookies().map(|(k, v)| (k.to_string(), v.to_string())).collect();
    serde_json::to_string(&pairs).unwrap_or_default()
}

async fn set_cookie() -> Response {
    let b = CURRENT.with(|c| c.borrow().clone()).expect("harness: no current case");
    let mut res = Response::new(Status::OK);
    let ops = b.ops.clone();
    res.headers.set().SetCookie(NAMES[b.name as usize % NAMES.len()], b.value.clone(), move |mut d| {
        for op in ops {
            d = match op {
                Dir::Expires(ts) => d.Expires(crate::oracle::date::imf_fixdate(ts)),
                Dir::MaxAge(n) => d.MaxAge(n),
                Dir::Domain(s) => d.Domain(s),
                Dir::Path(s) => d.Path(s),
                Dir::Secure => d.Secure(),
                Dir::HttpOnly => d.HttpOnly(),
                Dir::SameSite(k) => match k % 3 {
                    0 => d.SameSiteStrict(),
                    1 => d.SameSiteLax(),
                    _ => d.SameSiteNone(),
                },
            }
        }
        d
    });
    let own: Vec<(String, String, Directives)> = res
        .headers
        .SetCookie()
        .map(|c| {
            let (n, v) = c.Cookie();
            (
                n.to_string(),
                v.to_string(),
                Directives {
                    expires: c.Expires().map(str::to_string),
                    max_age: c.MaxAge(),
                    domain: c.Domain().map(str::to_string),
                    path: c.Path().map(str::to_string),
                    secure: c.Secure() == Some(true),
                    http_only: c.HttpOnly() == Some(true),
                    same_site: c.SameSite().map(str::to_string),
                },
            )
        })
        .collect();
    OWN.with(|o| *o.borrow_mut() = Some(own));
    res
}

// ---------------------------------------------------------------- decoding helpers

fn clip(s: &str) -> String {
    if s.chars().count() > 200 {
        format!("{}…", s.chars().take(200).collect::<String>())
    } else {
        s.to_string()
    }
}

enum Out<T> {
    Got(T),
    Rejected(String),
    Panicked(panic::PanicInfo),
}
fn decode<T: DeserializeOwned>(header: &str) -> Out<T> {
    match panic::catch(AssertUnwindSafe(|| from_str::<T>(header))) {
        Err(pi) => Out::Panicked(pi),
        Ok(Err(e)) => Out::Rejected(e.to_string()),
        Ok(Ok(v)) => Out::Got(v),
    }
}
/// `Ok` / `Err((panic key, detail))`
fn expect<T: DeserializeOwned + PartialEq + Debug>(header: &str, want: &T, norm: impl Fn(T) -> T) -> Result<(), (Option<String>, String)> {
    match decode::<T>(header) {
        Out::Got(v) => {
            let v = norm(v);
            if &v == want {
                Ok(())
            } else {
                Err((None, format!("header {:?}: expected {}, observed {}", clip(header), clip(&format!("{want:?}")), clip(&format!("{v:?}")))))
            }
        }
        Out::Rejected(e) => Err((None, format!("header {:?}: expected {}, observed Err({:?})", clip(header), clip(&format!("{want:?}")), clip(&e)))),
        Out::Panicked(pi) => Err((Some(pi.key()), format!("header {:?}: {}", clip(header), pi.describe()))),
    }
}

/// "empty = absent" for option fields: `Some("")` is never demanded nor refused
fn norm_opt_string(o: Option<String>) -> Option<String> {
    o.filter(|s| !s.is_empty())
}
fn norm_opt_cow(o: Option<Cow<'static, str>>) -> Option<Cow<'static, str>> {
    o.filter(|s| !s.is_empty())
}
fn norm_strs(s: Strs) -> Strs {
    Strs { theme: norm_opt_string(s.theme), lang: norm_opt_cow(s.lang), ..s }
}

fn single_typed(ty: Ty, wire: &str, value: &str) -> Result<(), (Option<String>, String)> {
    let h = format!("v={wire}");
    let p = |s: &str| -> String { s.to_string() };
    match ty {
        Ty::Str => expect(&h, &One { v: p(value) }, |x| x),
        Ty::CowStr => expect(&h, &One { v: Cow::<'static, str>::Owned(p(value)) }, |x| x),
        Ty::OptStr => expect(&h, &One { v: norm_opt_string(Some(p(value))) }, |x: One<Option<String>>| One { v: norm_opt_string(x.v) }),
        Ty::OptCow => expect(&h, &One { v: norm_opt_cow(Some(Cow::Owned(p(value)))) }, |x: One<Option<Cow<'static, str>>>| One { v: norm_opt_cow(x.v) }),
        Ty::U32 => expect(&h, &One { v: value.parse::<u32>().unwrap_or_default() }, |x| x),
        Ty::I64 => expect(&h, &One { v: value.parse::<i64>().unwrap_or_default() }, |x| x),
        Ty::Bool => expect(&h, &One { v: value == "true" }, |x| x),
        Ty::OptI8 => expect(&h, &One { v: value.parse::<i8>().ok() }, |x| x),
        Ty::OptU64 => expect(&h, &One { v: value.parse::<u64>().ok() }, |x| x),
        Ty::OptBool => expect(&h, &One { v: Some(value == "true") }, |x| x),
        Ty::Char => expect(&h, &One { v: value.chars().next().unwrap_or('?') }, |x| x),
        Ty::OptChar => expect(&h, &One { v: value.chars().next() }, |x| x),
        Ty::F64 => expect(&h, &One { v: value.parse::<f64>().unwrap_or_default() }, |x| x),
        Ty::Enum => expect(&h, &One { v: colour(value).unwrap_or(Colour::Red) }, |x| x),
        Ty::OptEnum => expect(&h, &One { v: colour(value) }, |x| x),
        Ty::Newtype => expect(&h, &One { v: Wrapped(p(value)) }, |x| x),
        Ty::U8 => expect(&h, &One { v: value.parse::<u8>().unwrap_or_default() }, |x| x),
    }
}

impl C11 {
    fn jar_in_domain(jar: &Jar) -> bool {
        let n = jar.cookies.len();
        if n == 0 || n > 6 {
            return false;
        }
        for (i, c) in jar.cookies.iter().enumerate() {
            if !is_token(&c.name) || jar.cookies[..i].iter().any(|d| d.name == c.name) {
                return false;
            }
        }
        for (name, ty) in fields_of(jar.target) {
            match jar.cookies.iter().find(|c| c.name == *name) {
                Some(c) => {
                    if !ty.fits(&c.value) {
                        return false;
                    }
                }
                None => {
                    if !ty.optional() {
                        return false;
                    }
                }
            }
        }
        true
    }
    fn built_in_domain(b: &Built) -> bool {
        b.ops.iter().enumerate().all(|(i, op)| {
            !b.ops[..i].iter().any(|p| dir_kind(p) == dir_kind(op))
                && match op {
                    Dir::Expires(ts) => *ts <= 253_402_300_799,
                    Dir::Domain(s) => is_subdomain(s),
                    Dir::Path(s) => path_ok(s),
                    _ => true,
                }
        })
    }

    fn check_decode(&self, jar: &Jar, obs: &mut Obs) {
        let get = |name: &str| jar.cookies.iter().find(|c| c.name == name).map(|c| c.value.clone());
        let wires: Vec<(String, Form)> = jar.cookies.iter().map(wire).collect();
        let header = jar.cookies.iter().zip(&wires).map(|(c, (w, _))| format!("{}={}", c.name, w)).collect::<Vec<_>>().join("; ");
        let fields = fields_of(jar.target);
        obs.label(match jar.target % 5 {
            0 => "decode:target-strings",
            1 => "decode:target-typed",
            2 => "decode:target-subset",
            4 => "decode:target-misc",
            _ => "decode:target-map-only",
        });
        for (_, f) in &wires {
            obs.label(match f {
                Form::Plain => "form:plain",
                Form::Quoted => "form:quoted",
                Form::Pct => "form:percent-encoded",
                Form::QuotedPct => "form:quoted-percent-encoded",
            });
        }
        if jar.cookies.iter().any(|c| !fields.iter().any(|(n, _)| *n == c.name)) && !fields.is_empty() {
            obs.label("decode:unknown-cookies-present")
        }
        obs.nontrivial = jar.cookies.iter().zip(&wires).any(|(c, (w, f))| *f != Form::Plain || *w != c.value || c.value.contains('=') || !c.value.bytes().all(|b| b.is_ascii_alphanumeric()));
        let feature = |i: usize| -> &'static str {
            let (w, f) = &wires[i];
            let inner = w.trim_matches('"');
            if inner.contains('=') {
                "equals-sign-in-value"
            } else {
                f.key()
            }
        };

        // (1) every cookie alone: into a string map, and into its field type
        let mut any_single_failed = false;
        for (i, c) in jar.cookies.iter().enumerate() {
            let h = format!("{}={}", c.name, wires[i].0);
            let want: BTreeMap<String, String> = [(c.name.clone(), c.value.clone())].into_iter().collect();
            match expect(&h, &want, |m| m) {
                Ok(()) => {
                    if let Some((_, ty)) = fields.iter().find(|(n, _)| *n == c.name) {
                        if ty.optional() && c.value.is_empty() {
                            obs.ambiguous += 1;
                        }
                        if let Err((pk, d)) = single_typed(*ty, &wires[i].0, &c.value) {
                            any_single_failed = true;
                            // the map took this very text, so the cause lies in the typed path; one known shape gets its own signature
                            let what = if ty.optional() && wires[i].0.starts_with('&') { "Option:value-starts-with-ampersand".to_string() } else { ty.key().to_string() };
                            obs.fail(format!("decode:typed:{what}{}", pk.map(|k| format!(":{k}")).unwrap_or_default()), format!("a single cookie into `struct {{ v: {} }}`: {d}", ty.key()));
                        }
                    }
                }
                Err((pk, d)) => {
                    any_single_failed = true;
                    obs.fail(format!("decode:{}{}", feature(i), pk.map(|k| format!(":{k}")).unwrap_or_default()), format!("a single cookie into a string map: {d}"));
                }
            }
        }
        // (2) the whole header into a string map
        let want_map: BTreeMap<String, String> = jar.cookies.iter().map(|c| (c.name.clone(), c.value.clone())).collect();
        let map_ok = match expect(&header, &want_map, |m| m) {
            Ok(()) => true,
            Err((pk, d)) => {
                if !any_single_failed {
                    obs.fail(format!("decode:jar-structure{}", pk.map(|k| format!(":{k}")).unwrap_or_default()), format!("every cookie decodes alone, the header does not: {d}"));
                }
                false
            }
        };
        // (3) the whole header into the catalogue struct
        let typed: Option<Result<(), (Option<String>, String)>> = match jar.target % 5 {
            4 => Some(expect(
                &header,
                &Misc {
                    ch: get("ch").and_then(|v| v.chars().next()).unwrap_or('?'),
                    och: get("och").and_then(|v| v.chars().next()),
                    f: get("f").and_then(|v| v.parse().ok()).unwrap_or_default(),
                    colour: get("colour").and_then(|v| colour(&v)).unwrap_or(Colour::Red),
                    w: Wrapped(get("w").unwrap_or_default()),
                    byte: get("byte").and_then(|v| v.parse().ok()).unwrap_or_default(),
                    ocolour: get("ocolour").and_then(|v| colour(&v)),
                },
                |x| x,
            )),
            0 => Some(expect(
                &header,
                &norm_strs(Strs { sid: get("sid").unwrap_or_default(), user: Cow::Owned(get("user").unwrap_or_default()), tok: get(TOK).unwrap_or_default(), theme: get("theme"), lang: get(ODD).map(Cow::Owned) }),
                norm_strs,
            )),
            1 => Some(expect(
                &header,
                &Nums {
                    n: get("n").and_then(|v| v.parse().ok()).unwrap_or_default(),
                    neg: get("neg").and_then(|v| v.parse().ok()).unwrap_or_default(),
                    flag: get("flag").as_deref() == Some("true"),
                    small: get("small").and_then(|v| v.parse().ok()),
                    big: get("BIG").and_then(|v| v.parse().ok()),
                    on: get("on").map(|v| v == "true"),
                },
                |x| x,
            )),
            2 => Some(expect(&header, &Sub { sid: get("sid").unwrap_or_default() }, |x| x)),
            _ => None,
        };
        if let Some(Err((pk, d))) = typed {
            if !any_single_failed && map_ok {
                let which = ["strings", "typed", "subset", "map", "misc"][jar.target as usize % 5];
                obs.fail(format!("decode:struct:{which}:combination{}", pk.map(|k| format!(":{k}")).unwrap_or_default()), format!("every cookie decodes alone and the header decodes into a map, the struct does not: {d}"));
            }
        }
        // (4) through a real request: the iterator yields the cookie-pairs verbatim
        if header.len() > 700 {
            obs.label("decode:request-skipped-long-header");
            return;
        }
        let want: Vec<(String, String)> = jar.cookies.iter().zip(&wires).map(|(c, (w, _))| (c.name.clone(), w.clone())).collect();
        let o = match panic::catch(AssertUnwindSafe(|| drive::request(&self.router, "GET", "/c", &[("Host".to_string(), "t".to_string()), ("Cookie".to_string(), header.clone())], None))) {
            Ok(Ok(o)) => o,
            Ok(Err(e)) => {
                obs.fail("cookies-iter:malformed-response", format!("Cookie: {header:?}: {e}"));
                return;
            }
            Err(pi) => {
                obs.fail(format!("cookies-iter:{}", pi.key()), format!("Cookie: {header:?}: {}", pi.describe()));
                return;
            }
        };
        let Some(res) = &o.res else {
            obs.fail("cookies-iter:no-response", format!("Cookie: {header:?}: {:?}", o.outcome));
            return;
        };
        if res.status != 200 {
            obs.fail(format!("cookies-iter:status-{}", res.status), format!("Cookie: {header:?}: expected 200, observed {}", res.status));
            return;
        }
        let got: Vec<(String, String)> = match serde_json::from_slice(&res.body) {
            Ok(g) => g,
            Err(e) => {
                obs.fail("HARNESS-BUG echo", format!("echo body is not JSON: {e}"));
                return;
            }
        };
        if got != want {
            // root cause by the first cookie-pair that is missing or altered
            let bad = want.iter().position(|p| !got.contains(p));
            let key = match bad {
                Some(i) if wires[i].0.contains('=') => "cookies-iter:equals-sign-in-value",
                Some(_) => "cookies-iter:pair-missing-or-altered",
                None => "cookies-iter:extra-or-reordered-pairs",
            };
            obs.fail(key, format!("Cookie: {:?}: expected cookie-pairs {}, observed {}", clip(&header), clip(&format!("{want:?}")), clip(&format!("{got:?}"))));
        }
    }

    fn check_build(&self, b: &Built, obs: &mut Obs) {
        let name = NAMES[b.name as usize % NAMES.len()];
        let model = model_of(b);
        obs.label(match b.ops.len() {
            0 => "build:0-directives",
            1 | 2 => "build:1-2-directives",
            _ => "build:3+-directives",
        });
        let needs_encoding = !b.value.bytes().all(|c| c.is_ascii_alphanumeric());
        if needs_encoding {
            obs.label("build:value-needs-encoding")
        }
        obs.nontrivial = needs_encoding || b.ops.len() >= 3;
        CURRENT.with(|c| *c.borrow_mut() = Some(b.clone()));
        OWN.with(|o| *o.borrow_mut() = None);
        let ctx = format!("SetCookie({name:?}, {:?}, {:?})", clip(&b.value), b.ops);
        let o = match panic::catch(AssertUnwindSafe(|| drive::request(&self.router, "GET", "/s", &[("Host".to_string(), "t".to_string())], None))) {
            Ok(Ok(o)) => o,
            Ok(Err(e)) => {
                obs.fail("build:malformed-response", format!("{ctx}: {e}"));
                return;
            }
            Err(pi) => {
                obs.fail(format!("build:{}", pi.key()), format!("{ctx}: {}", pi.describe()));
                return;
            }
        };
        let Some(res) = &o.res else {
            obs.fail("build:no-response", format!("{ctx}: {:?}", o.outcome));
            return;
        };
        let lines = res.get_all("Set-Cookie");
        if lines.len() != 1 {
            obs.fail("build:line-count", format!("{ctx}: expected one Set-Cookie line, observed {}: {:?}", lines.len(), lines));
            return;
        }
        let line = lines[0];
        // (1) grammar + independent parse
        match parse_set_cookie(line) {
            Err((part, why)) => obs.fail(format!("build:grammar:{part}"), format!("{ctx}: line {line:?} is not an RFC 6265 set-cookie-string: {why}")),
            Ok(p) => {
                if p.max_age_zero {
                    // RFC 6265 writes `non-zero-digit *DIGIT`; 6265bis and every user agent accept 0 (delete the cookie)
                    obs.ambiguous += 1;
                }
                if p.name != name {
                    obs.fail("build:name", format!("{ctx}: line {line:?}: name {:?}", p.name));
                }
                let inner = if p.raw_value.len() >= 2 && p.raw_value.starts_with('"') && p.raw_value.ends_with('"') { &p.raw_value[1..p.raw_value.len() - 1] } else { &p.raw_value[..] };
                match pct_decode_strict(inner.as_bytes()).map_err(|e| e.to_string()).and_then(|v| String::from_utf8(v).map_err(|e| e.to_string())) {
                    Ok(v) if v == b.value => {}
                    other => obs.fail("build:value", format!("{ctx}: line {line:?}: the value percent-decodes to {other:?}")),
                }
                for (what, want, got) in [
                    ("expires", format!("{:?}", model.expires), format!("{:?}", p.d.expires)),
                    ("max-age", format!("{:?}", model.max_age), format!("{:?}", p.d.max_age)),
                    ("domain", format!("{:?}", model.domain), format!("{:?}", p.d.domain)),
                    ("path", format!("{:?}", model.path), format!("{:?}", p.d.path)),
                    ("secure", format!("{:?}", model.secure), format!("{:?}", p.d.secure)),
                    ("httponly", format!("{:?}", model.http_only), format!("{:?}", p.d.http_only)),
                    ("samesite", format!("{:?}", model.same_site), format!("{:?}", p.d.same_site)),
                ] {
                    if want != got {
                        obs.fail(format!("build:directive:{what}"), format!("{ctx}: line {line:?}: expected {what} {want}, an RFC 6265 parser reads {got}"));
                    }
                }
            }
        }
        // (2) the crate's own public iterator, asked inside the handler
        match OWN.with(|o| o.borrow_mut().take()) {
            None => obs.fail("HARNESS-BUG handler", format!("{ctx}: the handler did not run (status {})", res.status)),
            Some(own) => {
                if own.len() != 1 {
                    obs.fail("build:own-parser:rejected", format!("{ctx}: line {line:?}: headers.SetCookie() yields {} items", own.len()));
                } else {
                    let (n, v, d) = &own[0];
                    if n != name {
                        obs.fail("build:own-parser:name", format!("{ctx}: line {line:?}: headers.SetCookie() reads the name {n:?}"));
                    }
                    if *v != b.value {
                        obs.fail("build:own-parser:value", format!("{ctx}: line {line:?}: headers.SetCookie() reads the value {v:?}"));
                    }
                    for (what, want, got) in [
                        ("expires", format!("{:?}", model.expires), format!("{:?}", d.expires)),
                        ("max-age", format!("{:?}", model.max_age), format!("{:?}", d.max_age)),
                        ("domain", format!("{:?}", model.domain), format!("{:?}", d.domain)),
                        ("path", format!("{:?}", model.path), format!("{:?}", d.path)),
                        ("secure", format!("{:?}", model.secure), format!("{:?}", d.secure)),
                        ("httponly", format!("{:?}", model.http_only), format!("{:?}", d.http_only)),
                        ("samesite", format!("{:?}", model.same_site), format!("{:?}", d.same_site)),
                    ] {
                        if want != got {
                            obs.fail(format!("build:own-parser:{what}"), format!("{ctx}: line {line:?}: expected {what} {want}, headers.SetCookie() reads {got}"));
                        }
                    }
                }
            }
        }
    }
}

// ---------------------------------------------------------------- generators

const COOKIE_ISH: &str = "==;;,,\"\\%%++&& \t~!#$'()*-./:<>?@[]^_`{|}é狼😀\u{0}\r\n\u{7f}\u{80}";

fn uchar() -> impl Strategy<Value = char> {
    prop_oneof![
        4 => prop::sample::select(COOKIE_ISH.chars().collect::<Vec<char>>()),
        2 => any::<char>(),
        3 => prop::char::range('0', 'z'),
    ]
}
/// values over arbitrary Unicode; a good share consists of cookie-octets only (so that the plain and quoted forms occur)
fn value(min: usize) -> impl Strategy<Value = String> {
    let octets: Vec<char> = (0x21u8..0x7f).filter(|b| is_cookie_octet(*b)).map(|b| b as char).collect();
    prop_oneof![
        2 => vec(prop::char::range('a', 'z'), min..=8).prop_map(|v| v.into_iter().collect::<String>()),
        4 => vec(prop_oneof![1 => Just('='), 1 => Just('&'), 6 => prop::sample::select(octets)], min..=10).prop_map(|v| v.into_iter().collect::<String>()),
        4 => vec(uchar(), min..=8).prop_map(|v| v.into_iter().collect::<String>()),
        1 => vec(any::<char>(), min..=12).prop_map(|v| v.into_iter().collect::<String>()),
        1 => prop::sample::select(vec!["a=b", "abc==", "x; Secure", "a=b; Path=/", "\"quoted\"", "%41", "%", "%FF", "a b", "1,2", "\r\nSet-Cookie: evil=1"]).prop_map(str::to_string),
    ]
}
fn token() -> impl Strategy<Value = String> {
    let chars: Vec<char> = (0x21u8..0x7f).filter(|b| is_token_char(*b)).map(|b| b as char).collect();
    prop_oneof![
        2 => vec(prop::sample::select(chars), 1..=8).prop_map(|v| v.into_iter().collect::<String>()),
        1 => "[a-zA-Z_][a-zA-Z0-9_-]{0,7}",
    ]
}
fn form() -> impl Strategy<Value = (u8, bool)> {
    (prop_oneof![4 => Just(0u8), 3 => Just(1u8), 3 => Just(2u8), 3 => Just(3u8), 1 => Just(4u8)], any::<bool>())
}
fn cookie(name: impl Strategy<Value = String>, val: impl Strategy<Value = String>) -> impl Strategy<Value = CookieM> {
    (name, val, form()).prop_map(|(name, value, (form, lower_hex))| CookieM { name, value, form, lower_hex })
}
macro_rules! ints {
    ($t:ty) => {
        prop_oneof![2 => Just(<$t>::MIN), 2 => Just(<$t>::MAX), 1 => Just(0 as $t), 1 => Just(1 as $t), 5 => any::<$t>()].prop_map(|v| v.to_string())
    };
}
fn bools() -> impl Strategy<Value = String> {
    any::<bool>().prop_map(|b| b.to_string())
}
/// required fields, optional fields (each present with probability ½), unknown extras; shuffled; at most 6
fn jar_for(target: u8, required: Vec<BoxedStrategy<CookieM>>, optional: Vec<BoxedStrategy<CookieM>>, max_extras: usize) -> BoxedStrategy<Jar> {
    let known: Vec<&'static str> = fields_of(target).iter().map(|(n, _)| *n).collect();
    let opt: Vec<BoxedStrategy<Option<CookieM>>> = optional.into_iter().map(|s| prop::option::of(s).boxed()).collect();
    (required, opt, vec(cookie(token(), value(0)), 0..=max_extras))
        .prop_map(move |(req, opt, extras)| {
            let mut cookies: Vec<CookieM> = req.into_iter().chain(opt.into_iter().flatten()).collect();
            for mut e in extras {
                if known.contains(&e.name.as_str()) {
                    e.name = format!("zz{}", e.name)
                }
                if cookies.len() < 6 && !cookies.iter().any(|c| c.name == e.name) {
                    cookies.push(e)
                }
            }
            cookies
        })
        .prop_shuffle()
        .prop_map(move |cookies| Jar { target, cookies })
        .boxed()
}
fn jar() -> BoxedStrategy<Jar> {
    let named = |n: &'static str, v: BoxedStrategy<String>| cookie(Just(n.to_string()), v).boxed();
    let opt_value = || prop_oneof![30 => value(1), 1 => Just(String::new())].boxed();
    prop_oneof![
        3 => jar_for(0, vec![named("sid", value(0).boxed()), named("user", value(0).boxed()), named(TOK, value(0).boxed())], vec![named("theme", opt_value()), named(ODD, opt_value())], 2),
        3 => jar_for(1, vec![named("n", ints!(u32).boxed()), named("neg", ints!(i64).boxed()), named("flag", bools().boxed())], vec![named("small", ints!(i8).boxed()), named("BIG", ints!(u64).boxed()), named("on", bools().boxed())], 2),
        1 => jar_for(2, vec![named("sid", value(0).boxed())], vec![], 5),
        3 => jar_for(
            4,
            vec![
                named("ch", uchar().prop_map(|c| c.to_string()).boxed()),
                named("f", prop_oneof![any::<f64>().prop_filter("finite", |x| x.is_finite()), (-1000i32..1000).prop_map(|i| i as f64 / 8.0), Just(0.0f64), Just(-0.0f64), Just(f64::MAX), Just(f64::MIN_POSITIVE)].prop_map(|x| x.to_string()).boxed()),
                named("colour", prop::sample::select(vec!["red", "dark-blue", "G"]).prop_map(|s| s.to_string()).boxed()),
                named("w", value(0).boxed()),
                named("byte", ints!(u8).boxed()),
            ],
            vec![named("och", uchar().prop_map(|c| c.to_string()).boxed()), named("ocolour", prop::sample::select(vec!["red", "dark-blue", "G"]).prop_map(|s| s.to_string()).boxed())],
            1
        ),
        3 => vec(cookie(token(), value(0)), 1..=6)
            .prop_map(|mut cs| {
                let mut seen = std::collections::BTreeSet::new();
                cs.retain(|c| seen.insert(c.name.clone()));
                Jar { target: 3, cookies: cs }
            })
            .boxed(),
    ]
    .boxed()
}
fn domain() -> impl Strategy<Value = String> {
    vec("[a-zA-Z0-9]([a-zA-Z0-9-]{0,8}[a-zA-Z0-9])?", 1..=4).prop_map(|l| l.join("."))
}
fn path() -> impl Strategy<Value = String> {
    prop_oneof![
        1 => Just("/".to_string()),
        3 => "/[a-zA-Z0-9/._~-]{0,16}",
        3 => "[!-:<-~]([ -:<-~]{0,14}[!-:<-~])?",
    ]
}
fn built() -> impl Strategy<Value = Built> {
    let dirs = (
        prop::option::of(prop_oneof![3 => 0u64..=4_102_444_800, 1 => 0u64..=253_402_300_799, 1 => Just(0u64), 1 => Just(253_402_300_799u64)]),
        prop::option::of(prop_oneof![2 => Just(0u64), 2 => Just(u64::MAX), 1 => Just(1u64), 2 => 0u64..100_000, 3 => any::<u64>()]),
        prop::option::of(domain()),
        prop::option::of(path()),
        any::<bool>(),
        any::<bool>(),
        prop::option::of(0u8..3),
    )
        .prop_map(|(e, m, d, p, s, h, ss)| {
            let mut ops = Vec::new();
            ops.extend(e.map(Dir::Expires));
            ops.extend(m.map(Dir::MaxAge));
            ops.extend(d.map(Dir::Domain));
            ops.extend(p.map(Dir::Path));
            if s {
                ops.push(Dir::Secure)
            }
            if h {
                ops.push(Dir::HttpOnly)
            }
            ops.extend(ss.map(Dir::SameSite));
            ops
        })
        .prop_shuffle();
    (0u8..NAMES.len() as u8, value(0), dirs).prop_map(|(name, value, ops)| Built { name, value, ops })
}

// ---------------------------------------------------------------- the property

impl Property for C11 {
    type Case = Case;
    const ID: &'static str = "C11";
    const RULE: &'static str = "generated: (1) Decode — jars of 1–6 distinct cookies, names over the RFC 6265 token alphabet, values over arbitrary Unicode (cookie-octet-only values, `=`, `;`, `,`, quotes, `%`, controls over-represented), each written by an independent encoder as plain or double-quoted (only when the value consists of cookie-octets other than `%`), percent-encoded minimally or except alphanumerics in either hex case, or quoted and percent-encoded; joined with `; `. Jars are generated to fit a target: a struct of String / Cow<str> / renamed / Option fields, a struct of u32 / i64 / bool / Option<i8|u64|bool> fields (canonical decimal texts, MIN/MAX bias), a one-field subset struct, a struct of char / Option<char> / f64 / unit enum (renamed variants) / newtype / u8 fields, each with absent optional cookies, unknown extra cookies and a shuffled order, or only a BTreeMap<String,String>. Oracle: serde_cookie::from_str of every single cookie (into a map and into `struct {v: T}` of its field type), of the whole header into a string map and into the target struct equals the jar; `GET /c` with `Cookie: <header>` through the real parser makes `req.headers.Cookies()` yield the (name, raw value) cookie-pairs of the header verbatim, in order. (2) Build — one of 6 fixed token names, a value over arbitrary Unicode, any subset in any call order of Expires (rfc1123-date of 0 … 9999-12-31), Max-Age (0 … u64::MAX), Domain (RFC 1034 subdomain), Path (CHARs except CTLs and `;`, no SP at either end), Secure, HttpOnly, SameSite, built through `res.headers.set().SetCookie(name, value, |d| …)` inside a handler. Oracle: the parsed response has exactly one Set-Cookie line; it satisfies an independent RFC 6265 §4.1.1 set-cookie-string grammar checker; the independent parser recovers the value (after percent-decoding) and every directive; the crate's public `headers.SetCookie()` iterator, asked inside the handler, recovers the same. Failure keys: for decoding the wire form of the cookie that fails alone (`equals-sign-in-value` when its value carries a raw `=`), or the field type, or `jar-structure` / `combination` when only the whole fails; for building the grammar production or directive that deviates. Non-trivial = a value needing encoding or quoting or containing `=`, or ≥ 3 directives; distinct by case.";
    const ASSUMPTIONS: &'static [&'static str] = &[
        "Option fields: an empty cookie value may decode to None or Some(\"\") (`empty = absent` convention; counted as ambiguous)",
        "typed fields only receive the canonical decimal / true / false text of a value of their type; cookie names are distinct",
        "a literal `%` is always percent-encoded by the sender (the percent-encoding convention the statement names)",
        "Max-Age=0 is accepted although RFC 6265 §4.1.1 writes non-zero-digit (RFC 6265bis and user agents accept it; counted as ambiguous)",
        "SameSite is checked as an extension-av with the three RFC 6265bis values",
        "headers longer than 700 bytes are not sent through the request path (1 KiB request buffer, C02)",
        "each directive is set at most once per cookie",
    ];

    fn new(_: Tier) -> Self {
        drive::freeze_clock();
        let mut o = Ohkami::new(());
        Routing::<()>::apply("/c".GET(echo_cookies), &mut o);
        Routing::<()>::apply("/s".GET(set_cookie), &mut o);
        C11 { router: VerifRouter::new(o) }
    }
    fn n_cases(&self, tier: Tier) -> u64 {
        tier.pick(1_200_000, 6_000_000)
    }
    fn chunk(&self, _tier: Tier) -> u64 {
        10_000
    }
    fn in_domain(&self, case: &Case) -> bool {
        match case {
            Case::Decode(j) => Self::jar_in_domain(j),
            Case::Build(b) => Self::built_in_domain(b),
        }
    }
    fn strategy(&self, _tier: Tier) -> BoxedStrategy<Case> {
        prop_oneof![
            3 => jar().prop_map(Case::Decode),
            2 => built().prop_map(Case::Build),
        ]
        .boxed()
    }

    fn check(&self, case: &Case, obs: &mut Obs) {
        if !self.in_domain(case) {
            obs.label("out-of-domain (shrunk or reduced case)");
            return;
        }
        match case {
            Case::Decode(j) => {
                obs.label("mode:decode");
                self.check_decode(j, obs)
            }
            Case::Build(b) => {
                obs.label("mode:build");
                self.check_build(b, obs)
            }
        }
    }
}
