//! C13 — the BasicAuth fang admits exactly the configured credentials.

use crate::core::*;
use crate::harness::app::{leak, log, Ev, M};
use crate::harness::drive;
use crate::harness::hex::HexBytes;
use ohkami::__verif__::VerifRouter;
use ohkami::fang::BasicAuth;
use ohkami::prelude::*;
use proptest::collection::vec;
use proptest::prelude::*;
use serde::{Deserialize, Serialize};

pub struct C13 {
    selftest: Result<(), String>,
}

// ---------------------------------------------------------------- case

#[derive(Debug, Clone, Serialize, Deserialize, PartialEq)]
pub enum Recipe {
    /// `Basic ` + base64 of pair i
    Correct(u8),
    /// user of pair i with the password of pair j
    Mixed(u8, u8),
    /// the decoded text `u:p` of pair i with a character inserted at `pos % (len + 1)`
    Insert {
        i: u8,
        pos: u16,
        ch: char,
    },
    /// … with the character at `pos % len` removed
    Delete {
        i: u8,
        pos: u16,
    },
    /// … with the character at `pos % len` replaced
    Replace {
        i: u8,
        pos: u16,
        ch: char,
    },
    /// without the colon: the user alone, or user and password run together
    NoColon {
        i: u8,
        join: bool,
    },
    /// another scheme word, one space, the correct base64 of pair i
    Scheme {
        scheme: String,
        i: u8,
    },
    /// `Basic` immediately followed by the base64
    NoSpace(u8),
    /// 0 two spaces after `Basic`, 1 trailing space, 2 leading space, 3 a space inside the base64, 4 a second word after it
    Spaces {
        i: u8,
        kind: u8,
        pos: u16,
    },
    /// the base64 text of pair i damaged: 0 padding removed, 1 one more `=`, 2 url-safe alphabet, 3 `*` at pos,
    /// 4 last character dropped, 5 `A` appended, 6 lowest bit of the last symbol flipped, 7 symbol at pos replaced by its successor
    B64 {
        i: u8,
        kind: u8,
        pos: u16,
    },
    /// `u:p` of pair i with bytes (meant not to be UTF-8) inserted at 0 the start, 1 the middle, 2 the end
    NonUtf8 {
        i: u8,
        at: u8,
        bytes: HexBytes,
    },
    /// base64 of arbitrary bytes
    Bytes(HexBytes),
    /// base64 of the ISO-8859-1 bytes of `u:p` of pair i (characters above U+00FF as `?`): the same credentials in the
    /// legacy charset are not the configured text unless it is all ASCII
    Latin1(u8),
    /// an arbitrary string as the whole field value
    Raw(String),
    Missing,
    /// the field arrives as two `Authorization:` lines (a repeated header: its value is both, joined in order — never
    /// the exact value of a configured pair). One line is the correct value of pair i, the other: 0 the correct value of
    /// pair j, 1 `Basic AAAA`, 2 `Bearer x`, 3 the same correct value again, 4 an empty value; `correct_first` orders them
    TwoLines { i: u8, j: u8, kind: u8, correct_first: bool },
}

#[derive(Debug, Clone, Serialize, Deserialize)]
pub struct Case {
    /// 1–4 (username, password)
    pub pairs: Vec<(String, String)>,
    /// `BasicAuth<String>` instead of `BasicAuth<&'static str>`
    pub owned: bool,
    /// with exactly one pair: the bare `BasicAuth` instead of `[BasicAuth; 1]`
    pub single: bool,
    pub recipe: Recipe,
    pub method: M,
    /// where the guarded application sits: 0 it is the root application (handler at `/`); 1 mounted at `/api/admin` as the
    /// only item of the root (a chain of single children); 2 mounted at `/admin` next to an open route; 3 mounted at `/v1`,
    /// its handler at `/x/:id`
    #[serde(default)]
    pub shape: u8,
}
fn target_of(case: &Case) -> &'static str {
    ["/", "/api/admin", "/admin", "/v1/x/7"][case.shape as usize % 4]
}
async fn open_route() -> &'static str {
    "open"
}
async fn protected_p(_id: String) -> &'static str {
    protected().await
}

// ---------------------------------------------------------------- own base64 (RFC 4648 §4, with padding)

const ALPHABET: &[u8; 64] = b"ABCDEFGHIJKLMNOPQRSTUVWXYZabcdefghijklmnopqrstuvwxyz0123456789+/";

pub fn b64(data: &[u8]) -> String {
    let mut out = String::with_capacity(data.len().div_ceil(3) * 4);
    for chunk in data.chunks(3) {
        let b = [chunk[0], *chunk.get(1).unwrap_or(&0), *chunk.get(2).unwrap_or(&0)];
        let n = (b[0] as u32) << 16 | (b[1] as u32) << 8 | b[2] as u32;
        out.push(ALPHABET[(n >> 18) as usize & 63] as char);
        out.push(ALPHABET[(n >> 12) as usize & 63] as char);
        out.push(if chunk.len() > 1 { ALPHABET[(n >> 6) as usize & 63] as char } else { '=' });
        out.push(if chunk.len() > 2 { ALPHABET[n as usize & 63] as char } else { '=' });
    }
    out
}

/// lenient reading, used only to *name* what is wrong with a refused value (never for the verdict)
fn b64_decode_lenient(s: &str) -> Option<Vec<u8>> {
    let t = s.trim_end_matches('=');
    if s.len() - t.len() > 2 || t.len() % 4 == 1 {
        return None;
    }
    let mut out = Vec::new();
    let (mut acc, mut bits) = (0u32, 0u32);
    for c in t.bytes() {
        let v = ALPHABET.iter().position(|a| *a == c)? as u32;
        acc = (acc << 6 | v) & 0xffff;
        bits += 6;
        if bits >= 8 {
            bits -= 8;
            out.push((acc >> bits) as u8);
        }
    }
    Some(out)
}

fn selftest() -> Result<(), String> {
    for (plain, enc) in [("", ""), ("f", "Zg=="), ("fo", "Zm8="), ("foo", "Zm9v"), ("foob", "Zm9vYg=="), ("fooba", "Zm9vYmE="), ("foobar", "Zm9vYmFy"), ("Aladdin:open sesame", "QWxhZGRpbjpvcGVuIHNlc2FtZQ=="), ("\u{3ff}\u{3fe}", "z7/Pvg==")] {
        if b64(plain.as_bytes()) != enc || b64_decode_lenient(enc).as_deref() != Some(plain.as_bytes()) {
            return Err(format!("base64 self-test {plain:?}"));
        }
    }
    Ok(())
}

// ---------------------------------------------------------------- reference

#[derive(Debug, Clone, PartialEq)]
pub enum Verdict {
    /// the value is `Basic ` + base64(`u:p`) of this configured pair
    Accept(usize),
    /// anything else; the name says in which respect the value differs (for the failure key)
    Reject(&'static str),
    /// scheme letter case / optional whitespace around the field value
    Either(&'static str),
}

fn exact(value: &str, pairs: &[(String, String)]) -> Option<usize> {
    pairs.iter().position(|(u, p)| value == format!("Basic {}", b64(format!("{u}:{p}").as_bytes())))
}

fn why_refused(value: &str, pairs: &[(String, String)]) -> &'static str {
    let Some(rest) = value.strip_prefix("Basic ") else { return "no-basic-prefix" };
    let Some(bytes) = b64_decode_lenient(rest) else { return "invalid-base64" };
    if b64(&bytes) != rest {
        return "non-canonical-base64";
    }
    let Ok(text) = String::from_utf8(bytes) else { return "not-utf8" };
    let Some((u, p)) = text.split_once(':') else { return "no-colon" };
    let same_user: Vec<&(String, String)> = pairs.iter().filter(|(cu, _)| cu == u).collect();
    if !same_user.is_empty() {
        if pairs.iter().any(|(_, cp)| cp == p) {
            return "user-and-password-of-different-pairs";
        }
        if same_user.iter().any(|(_, cp)| cp.starts_with(p) || p.starts_with(cp.as_str())) {
            return "password-prefix";
        }
        return "wrong-password";
    }
    if pairs.iter().any(|(cu, cp)| cp == p && (cu.starts_with(u) || u.starts_with(cu.as_str()))) {
        return "user-prefix";
    }
    "wrong-user"
}

pub fn verdict(value: Option<&str>, pairs: &[(String, String)]) -> Verdict {
    let Some(value) = value else { return Verdict::Reject("missing-header") };
    if let Some(i) = exact(value, pairs) {
        return Verdict::Accept(i);
    }
    // optional whitespace is not part of a field value (RFC 9110); the code under test reads the line verbatim
    let trimmed = value.trim_matches(|c| c == ' ' || c == '\t');
    if trimmed != value && exact(trimmed, pairs).is_some() {
        return Verdict::Either("optional-whitespace");
    }
    // (the statement spells the scheme: "`Basic ` followed by the base64 … exactly; every other request is answered 401" —
    // `basic <correct token>` is another request, whatever RFC 9110 says about the case of scheme names)
    let b = value.as_bytes();
    if b.len() >= 6 && b[..5].eq_ignore_ascii_case(b"basic") && b[5] == b' ' && exact(&format!("Basic {}", &value[6..]), pairs).is_some() {
        return Verdict::Reject("scheme-letter-case");
    }
    Verdict::Reject(why_refused(value, pairs))
}

// ---------------------------------------------------------------- the value of a case

fn pair(case: &Case, i: u8) -> &(String, String) {
    &case.pairs[i as usize % case.pairs.len()]
}
fn text(case: &Case, i: u8) -> String {
    let (u, p) = pair(case, i);
    format!("{u}:{p}")
}

fn value_of(case: &Case) -> Option<String> {
    let basic = |bytes: &[u8]| format!("Basic {}", b64(bytes));
    Some(match &case.recipe {
        Recipe::Correct(i) => basic(text(case, *i).as_bytes()),
        Recipe::Mixed(i, j) => basic(format!("{}:{}", pair(case, *i).0, pair(case, *j).1).as_bytes()),
        Recipe::Insert { i, pos, ch } => {
            let mut cs: Vec<char> = text(case, *i).chars().collect();
            let at = *pos as usize % (cs.len() + 1);
            cs.insert(at, *ch);
            basic(cs.into_iter().collect::<String>().as_bytes())
        }
        Recipe::Delete { i, pos } => {
            let mut cs: Vec<char> = text(case, *i).chars().collect();
            let at = *pos as usize % cs.len();
            cs.remove(at);
            basic(cs.into_iter().collect::<String>().as_bytes())
        }
        Recipe::Replace { i, pos, ch } => {
            let mut cs: Vec<char> = text(case, *i).chars().collect();
            let at = *pos as usize % cs.len();
            cs[at] = *ch;
            basic(cs.into_iter().collect::<String>().as_bytes())
        }
        Recipe::NoColon { i, join } => {
            let (u, p) = pair(case, *i);
            basic(if *join { format!("{u}{p}") } else { u.clone() }.as_bytes())
        }
        Recipe::Scheme { scheme, i } => format!("{scheme} {}", b64(text(case, *i).as_bytes())),
        Recipe::NoSpace(i) => format!("Basic{}", b64(text(case, *i).as_bytes())),
        Recipe::Spaces { i, kind, pos } => {
            let e = b64(text(case, *i).as_bytes());
            match kind % 5 {
                0 => format!("Basic  {e}"),
                1 => format!("Basic {e} "),
                2 => format!(" Basic {e}"),
                3 => {
                    let at = *pos as usize % (e.len() + 1);
                    format!("Basic {} {}", &e[..at], &e[at..])
                }
                _ => format!("Basic {e} {e}"),
            }
        }
        Recipe::B64 { i, kind, pos } => {
            let mut e = b64(text(case, *i).as_bytes()).into_bytes();
            let at = if e.is_empty() { 0 } else { *pos as usize % e.len() };
            let succ = |c: u8| ALPHABET.iter().position(|a| *a == c).map_or(b'A', |k| ALPHABET[(k + 1) % 64]);
            match kind % 8 {
                0 => {
                    while e.last() == Some(&b'=') {
                        e.pop();
                    }
                }
                1 => e.push(b'='),
                2 => {
                    for c in e.iter_mut() {
                        *c = match *c {
                            b'+' => b'-',
                            b'/' => b'_',
                            o => o,
                        }
                    }
                }
                3 => {
                    if !e.is_empty() {
                        e[at] = b'*'
                    }
                }
                4 => {
                    e.pop();
                }
                5 => e.push(b'A'),
                6 => {
                    if let Some(k) = e.iter().rposition(|c| *c != b'=') {
                        if let Some(v) = ALPHABET.iter().position(|a| *a == e[k]) {
                            e[k] = ALPHABET[v ^ 1]
                        }
                    }
                }
                _ => {
                    if !e.is_empty() && e[at] != b'=' {
                        e[at] = succ(e[at])
                    }
                }
            }
            format!("Basic {}", String::from_utf8_lossy(&e))
        }
        Recipe::NonUtf8 { i, at, bytes } => {
            let mut t = text(case, *i).into_bytes();
            let k = match at % 3 {
                0 => 0,
                1 => t.len() / 2,
                _ => t.len(),
            };
            t.splice(k..k, bytes.0.iter().copied());
            basic(&t)
        }
        Recipe::Bytes(b) => basic(&b.0),
        Recipe::Latin1(i) => basic(&text(case, *i).chars().map(|c| if (c as u32) < 0x100 { c as u32 as u8 } else { b'?' }).collect::<Vec<u8>>()),
        Recipe::Raw(s) => s.clone(),
        Recipe::Missing => return None,
        Recipe::TwoLines { i, j, kind, correct_first } => {
            let good = basic(text(case, *i).as_bytes());
            let other = match kind % 5 {
                0 => basic(text(case, *j).as_bytes()),
                1 => "Basic AAAA".to_string(),
                2 => "Bearer x".to_string(),
                3 => good.clone(),
                _ => String::new(),
            };
            // (the request writer puts `Name: value CRLF`: a value holding `CRLF Name: ` is two lines on the wire)
            if *correct_first {
                format!("{good}\r\nAuthorization: {other}")
            } else {
                format!("{other}\r\nAuthorization: {good}")
            }
        }
    })
}

fn recipe_label(r: &Recipe) -> &'static str {
    match r {
        Recipe::Correct(_) => "correct",
        Recipe::Mixed(..) => "mixed-pairs",
        Recipe::Insert { .. } => "text-extended",
        Recipe::Delete { .. } => "text-shortened",
        Recipe::Replace { .. } => "text-char-replaced",
        Recipe::NoColon { .. } => "no-colon",
        Recipe::Scheme { .. } => "other-scheme",
        Recipe::NoSpace(_) => "basic-without-space",
        Recipe::Spaces { .. } => "extra-spaces",
        Recipe::B64 { .. } => "invalid-base64",
        Recipe::NonUtf8 { at, .. } => ["non-utf8:first", "non-utf8:middle", "non-utf8:last"][*at as usize % 3],
        Recipe::Bytes(_) => "arbitrary-bytes",
        Recipe::Latin1(_) => "latin1-encoding",
        Recipe::Raw(_) => "arbitrary-value",
        Recipe::Missing => "missing-header",
        Recipe::TwoLines { .. } => "two-authorization-lines",
    }
}
fn recipe_index(r: &Recipe) -> Option<u8> {
    match r {
        Recipe::Correct(i)
        | Recipe::Mixed(i, _)
        | Recipe::Insert { i, .. }
        | Recipe::Delete { i, .. }
        | Recipe::Replace { i, .. }
        | Recipe::NoColon { i, .. }
        | Recipe::Scheme { i, .. }
        | Recipe::NoSpace(i)
        | Recipe::Spaces { i, .. }
        | Recipe::B64 { i, .. }
        | Recipe::TwoLines { i, .. }
        | Recipe::NonUtf8 { i, .. }
        | Recipe::Latin1(i) => Some(*i),
        _ => None,
    }
}

// ---------------------------------------------------------------- the application

async fn protected() -> &'static str {
    log(Ev::Handler(0, vec![]));
    "private"
}

fn with_pairs<S: AsRef<str> + Clone + Send + Sync + 'static>(v: Vec<BasicAuth<S>>, single: bool, shape: u8) -> Option<Ohkami> {
    let routes = if shape % 4 == 3 {
        "/x/:id".GET(protected_p).PUT(protected_p).POST(protected_p).PATCH(protected_p).DELETE(protected_p)
    } else {
        "/".GET(protected).PUT(protected).POST(protected).PATCH(protected).DELETE(protected)
    };
    let guarded = with_pairs_at(v, single, routes)?;
    Some(match shape % 4 {
        0 => guarded,
        1 => Ohkami::new("/api/admin".By(guarded)),
        2 => Ohkami::new(("/open".GET(open_route), "/admin".By(guarded))),
        _ => Ohkami::new(("/v1".By(guarded), "/v2/x".GET(open_route))),
    })
}
fn with_pairs_at<S: AsRef<str> + Clone + Send + Sync + 'static>(v: Vec<BasicAuth<S>>, single: bool, routes: ohkami::__verif__::HandlerSet) -> Option<Ohkami> {
    Some(match v.as_slice() {
        [a] if single => Ohkami::with(a.clone(), routes),
        [a] => Ohkami::with([a.clone()], routes),
        [a, b] => Ohkami::with([a.clone(), b.clone()], routes),
        [a, b, c] => Ohkami::with([a.clone(), b.clone(), c.clone()], routes),
        [a, b, c, d] => Ohkami::with([a.clone(), b.clone(), c.clone(), d.clone()], routes),
        _ => return None,
    })
}
fn build(case: &Case) -> Option<Ohkami> {
    if case.owned {
        with_pairs(case.pairs.iter().map(|(u, p)| BasicAuth { username: u.clone(), password: p.clone() }).collect(), case.single, case.shape)
    } else {
        with_pairs(case.pairs.iter().map(|(u, p)| BasicAuth { username: leak(u.clone()), password: leak(p.clone()) }).collect::<Vec<BasicAuth<&'static str>>>(), case.single, case.shape)
    }
}

fn pair_shape(case: &Case, i: usize) -> &'static str {
    let (u, p) = &case.pairs[i];
    if p.contains(':') {
        "password-with-colon"
    } else if u.is_empty() || p.is_empty() {
        "empty-part"
    } else if !(u.is_ascii() && p.is_ascii()) {
        "non-ascii"
    } else if i > 0 {
        "not-first-pair"
    } else {
        "plain"
    }
}

// ---------------------------------------------------------------- generators

fn user() -> impl Strategy<Value = String> {
    prop_oneof![
        4 => "[a-z]{1,8}",
        // characters of the Latin-1 supplement (one byte in ISO-8859-1, two in UTF-8)
        1 => "[a-zß-ÿ¡-¿]{1,6}",
        // long: the pair's text exceeds any small fixed buffer (the request head still fits 1 KiB)
        1 => "[a-z0-9]{90,240}",
        3 => "[ -9;-~]{0,10}",
        2 => "\\PC{0,8}".prop_map(|s| s.replace(':', "")),
        1 => Just(String::new()),
    ]
}
fn password() -> impl Strategy<Value = String> {
    prop_oneof![
        3 => "[a-z0-9]{1,8}",
        1 => "[a-zß-ÿ¡-¿]{1,6}",
        1 => "[a-z0-9]{90,240}",
        3 => "[ -~]{0,12}",
        3 => "[a-z]{0,3}:[a-z:]{0,6}",
        2 => "\\PC{0,8}",
        1 => "(.|\\n){0,6}",
        1 => Just(String::new()),
    ]
}

#[derive(Debug, Clone)]
enum PairGen {
    Fresh(String, String),
    /// same user, password of an earlier pair extended
    ExtendPassword(u8, String),
    /// user of an earlier pair extended, same password
    ExtendUser(u8, String),
    ShortenPassword(u8),
    ShortenUser(u8),
    SameUser(u8, String),
    SamePassword(u8, String),
    /// password continued after a colon: `u`, `p:x`
    ColonTail(u8, String),
    Swapped(u8),
}

fn pairs_strategy() -> impl Strategy<Value = Vec<(String, String)>> {
    let later = prop_oneof![
        4 => (user(), password()).prop_map(|(u, p)| PairGen::Fresh(u, p)),
        2 => (any::<u8>(), "[a-z:]{1,2}").prop_map(|(i, s)| PairGen::ExtendPassword(i, s)),
        2 => (any::<u8>(), "[a-z]{1,2}").prop_map(|(i, s)| PairGen::ExtendUser(i, s)),
        1 => any::<u8>().prop_map(PairGen::ShortenPassword),
        1 => any::<u8>().prop_map(PairGen::ShortenUser),
        2 => (any::<u8>(), password()).prop_map(|(i, p)| PairGen::SameUser(i, p)),
        2 => (any::<u8>(), user()).prop_map(|(i, u)| PairGen::SamePassword(i, u)),
        1 => (any::<u8>(), "[a-z]{0,3}").prop_map(|(i, s)| PairGen::ColonTail(i, s)),
        1 => any::<u8>().prop_map(PairGen::Swapped),
    ];
    ((user(), password()), vec(later, 0..=3)).prop_map(|(first, more)| {
        let mut out = vec![first];
        for g in more {
            let at = |i: u8| out[i as usize % out.len()].clone();
            let drop_last = |s: &str| {
                let mut cs: Vec<char> = s.chars().collect();
                cs.pop();
                cs.into_iter().collect::<String>()
            };
            let next = match g {
                PairGen::Fresh(u, p) => (u, p),
                PairGen::ExtendPassword(i, s) => (at(i).0, format!("{}{s}", at(i).1)),
                PairGen::ExtendUser(i, s) => (format!("{}{}", at(i).0, s.replace(':', "")), at(i).1),
                PairGen::ShortenPassword(i) => (at(i).0, drop_last(&at(i).1)),
                PairGen::ShortenUser(i) => (drop_last(&at(i).0), at(i).1),
                PairGen::SameUser(i, p) => (at(i).0, p),
                PairGen::SamePassword(i, u) => (u, at(i).1),
                PairGen::ColonTail(i, s) => (at(i).0, format!("{}:{s}", at(i).1)),
                PairGen::Swapped(i) => (at(i).1.replace(':', ""), at(i).0),
            };
            out.push(next);
        }
        out
    })
}

fn not_utf8() -> impl Strategy<Value = HexBytes> {
    prop_oneof![
        3 => Just(vec![0xFFu8]),
        2 => Just(vec![0x80u8]),
        2 => Just(vec![0xC3u8]),
        1 => Just(vec![0xE2u8, 0x82]),
        1 => Just(vec![0xF0u8, 0x9F, 0x98]),
        1 => Just(vec![0xC0u8, 0xAF]),
        1 => Just(vec![0xEDu8, 0xA0, 0x80]),
        1 => Just(vec![0xF5u8]),
        1 => Just(vec![0xFEu8, 0xFF]),
        1 => (0x80u8..=0xFF).prop_map(|b| vec![b]),
    ]
    .prop_map(HexBytes)
}

fn raw_value() -> impl Strategy<Value = String> {
    prop_oneof![
        3 => "[ -~]{0,40}".prop_map(|s| s.trim().to_string()),
        2 => "Basic [A-Za-z0-9+/]{0,24}={0,2}",
        1 => "[A-Za-z0-9+/=]{0,30}",
        2 => prop_oneof![Just(""), Just("Basic"), Just("Basic "), Just("Basic Og=="), Just("Basic ="), Just("Basic Og"), Just("Basic ===="), Just("Basic Basic"), Just("Bearer abc"), Just("Digest username=\"a\"")].prop_map(String::from),
    ]
}

fn recipe_strategy() -> impl Strategy<Value = Recipe> {
    let ch = prop_oneof![3 => proptest::char::range('a', 'z'), 2 => Just(':'), 1 => Just(' '), 1 => Just('\0'), 1 => Just('é'), 1 => any::<char>()];
    let pos = prop_oneof![1 => Just(0u16), 1 => Just(u16::MAX), 3 => any::<u16>()];
    prop_oneof![
        4 => any::<u8>().prop_map(Recipe::Correct),
        4 => (any::<u8>(), any::<u8>()).prop_map(|(i, j)| Recipe::Mixed(i, j)),
        4 => (any::<u8>(), pos.clone(), ch.clone()).prop_map(|(i, pos, ch)| Recipe::Insert { i, pos, ch }),
        4 => (any::<u8>(), pos.clone()).prop_map(|(i, pos)| Recipe::Delete { i, pos }),
        2 => (any::<u8>(), pos.clone(), ch).prop_map(|(i, pos, ch)| Recipe::Replace { i, pos, ch }),
        1 => (any::<u8>(), any::<bool>()).prop_map(|(i, join)| Recipe::NoColon { i, join }),
        3 => (prop_oneof![Just("basic"), Just("BASIC"), Just("bASIC"), Just("Bearer"), Just("Digest"), Just("Basi"), Just("Basicc"), Just("Basic:"), Just("Basic,"), Just("Negotiate")], any::<u8>()).prop_map(|(s, i)| Recipe::Scheme { scheme: s.to_string(), i }),
        1 => any::<u8>().prop_map(Recipe::NoSpace),
        3 => (any::<u8>(), 0u8..5, any::<u16>()).prop_map(|(i, kind, pos)| Recipe::Spaces { i, kind, pos }),
        4 => (any::<u8>(), 0u8..8, pos).prop_map(|(i, kind, pos)| Recipe::B64 { i, kind, pos }),
        6 => (any::<u8>(), 0u8..3, not_utf8()).prop_map(|(i, at, bytes)| Recipe::NonUtf8 { i, at, bytes }),
        2 => vec(any::<u8>(), 0..24).prop_map(|b| Recipe::Bytes(HexBytes(b))),
        2 => any::<u8>().prop_map(Recipe::Latin1),
        2 => raw_value().prop_map(Recipe::Raw),
        1 => Just(Recipe::Missing),
        2 => (any::<u8>(), any::<u8>(), 0u8..5, any::<bool>()).prop_map(|(i, j, kind, correct_first)| Recipe::TwoLines { i, j, kind, correct_first }),
    ]
}

impl C13 {
    fn judge(&self, obs: &mut Obs, case: &Case, router: &VerifRouter, method: M, value: Option<&str>, ctx: &str) {
        obs.evals += 1;
        let want = verdict(value, &case.pairs);
        let mut headers = vec![("Host".to_string(), "t".to_string())];
        if let Some(v) = value {
            headers.push(("Authorization".to_string(), v.to_string()));
        }
        let o = match panic::catch(std::panic::AssertUnwindSafe(|| drive::request(router, method.as_str(), target_of(case), &headers, None))) {
            Ok(Ok(o)) => o,
            Ok(Err(e)) => {
                obs.fail("malformed-response", format!("{ctx}: {e}"));
                return;
            }
            Err(pi) => {
                obs.fail(pi.key(), format!("{ctx}: expected {}; {}", if matches!(want, Verdict::Accept(_)) { "200" } else { "401 with a Basic challenge" }, pi.describe()));
                return;
            }
        };
        let Some(res) = &o.res else {
            obs.fail("no-response", format!("{ctx}: connection closed without a response"));
            return;
        };
        let ran = o.handlers().len();
        let status = res.status;
        let challenge_ok = |obs: &mut Obs| {
            let ch = res.get_all("WWW-Authenticate");
            if ch.is_empty() {
                obs.fail("challenge-missing", format!("{ctx}: 401 without WWW-Authenticate"));
            } else if !ch.iter().all(|c| c.starts_with("Basic")) {
                obs.fail("challenge-not-basic", format!("{ctx}: WWW-Authenticate {ch:?}"));
            }
        };
        match want {
            Verdict::Accept(i) => {
                if method == M::OPTIONS {
                    // the fang lets the request through to the automatic OPTIONS handler; there is no protected handler to run
                    obs.ambiguous += 1;
                    if ran != 0 {
                        obs.fail("options:handler-ran", format!("{ctx}: the protected handler ran on OPTIONS"));
                    }
                    if status == 401 {
                        obs.fail(format!("refused:correct-credentials:{}", pair_shape(case, i)), format!("{ctx}: the credentials of pair {i} {:?} are answered {status}", case.pairs[i]));
                    }
                } else if ran != 1 || status != 200 {
                    obs.fail(format!("refused:correct-credentials:{}", pair_shape(case, i)), format!("{ctx}: the credentials of pair {i} {:?} must be admitted; observed {}", case.pairs[i], o.summary()));
                }
            }
            Verdict::Reject(why) => {
                if ran != 0 {
                    obs.fail(format!("accepted:{why}"), format!("{ctx}: must be answered 401 ({why}; configured {:?}); the handler ran, status {status}", case.pairs));
                } else if method == M::OPTIONS && status == 404 {
                    // the answer of the automatic OPTIONS handler behind the fang: the fang let the request through
                    obs.fail(format!("accepted:{why}"), format!("{ctx}: must be answered 401 ({why}; configured {:?}); the fang let the OPTIONS request through (status {status})", case.pairs));
                } else if status != 401 {
                    obs.fail(format!("not-401:{why}:{status}"), format!("{ctx}: must be answered 401 ({why}); observed {}", o.summary()));
                } else {
                    challenge_ok(obs);
                }
            }
            Verdict::Either(_) => {
                obs.ambiguous += 1;
                if ran == 0 {
                    if status != 401 {
                        obs.fail(format!("not-401:either:{status}"), format!("{ctx}: neither admitted nor answered 401; observed {}", o.summary()));
                    } else {
                        challenge_ok(obs);
                    }
                } else if status != 200 && method != M::OPTIONS {
                    obs.fail("handler-ran-but-status", format!("{ctx}: the handler ran and the status is {status}"));
                }
            }
        }
    }
}

impl Property for C13 {
    type Case = Case;
    const ID: &'static str = "C13";
    const RULE: &'static str = "generated: 1–4 (user, password) pairs — users without `:`, passwords with colons, empty parts, Unicode and control characters, Latin-1 supplement letters, parts of 90–240 characters, later pairs derived from earlier ones (password/user extended or shortened by a character, same user, same password, `p:x`, swapped) — configured as the bare BasicAuth (one pair) or [BasicAuth; N], over &'static str or String × an Authorization value: correct for pair i; user of i with password of j; the decoded text with a character inserted/removed/replaced at a sampled position (start, end, around the colon); no colon; other scheme words and letter cases; `Basic` without space; extra spaces (doubled, leading, trailing, inside, second word); damaged base64 (padding removed/added, url-safe alphabet, foreign symbol, truncated, extended, unused bits set); credentials with bytes that are not UTF-8 at the start, in the middle and at the END; base64 of arbitrary bytes; the ISO-8859-1 bytes of the configured text; arbitrary printable values; missing header; the field repeated (two Authorization lines, one of them correct) × 7 methods. A router is built per case, the guarded application being the root or mounted (as the only item at `/api/admin`, next to an open route, with a param route below `/v1`); the correct value of the pair the recipe is derived from is sent first (control), then the case's value. Oracle: own RFC 4648 encoder; the value equals `Basic ` + base64(u:p) of a configured pair ⇒ 200 and the handler ran once; otherwise 401, every WWW-Authenticate value starts with `Basic`, the handler did not run; never a panic. Non-trivial = a refused value derived from a configured pair by one change, or an admitted value when several pairs are configured; distinct by case.";
    const ASSUMPTIONS: &'static [&'static str] = &[
        "usernames contain no `:` (RFC 7617)",
        "don't-care: optional whitespace around the field value (C02's soft class); the scheme word in another letter case is refused, as the statement spells it",
        "OPTIONS: the fang does not bypass, so a wrong value must be answered 401 like any other request; with correct credentials the automatic OPTIONS handler answers and only `not 401, protected handler did not run` is demanded",
        "field values are printable ASCII without CR/LF/NUL (credentials themselves are arbitrary: they travel base64-encoded)",
    ];

    fn new(_: Tier) -> Self {
        C13 { selftest: selftest() }
    }
    fn n_cases(&self, tier: Tier) -> u64 {
        tier.pick(1_000_000, 6_000_000)
    }
    fn chunk(&self, _tier: Tier) -> u64 {
        1000
    }
    fn in_domain(&self, case: &Case) -> bool {
        let recipe_ok = match &case.recipe {
            Recipe::Raw(s) => s.bytes().all(|b| (0x20..0x7f).contains(&b)),
            Recipe::Scheme { scheme, .. } => !scheme.is_empty() && scheme.bytes().all(|b| b.is_ascii_graphic()),
            Recipe::Delete { i, .. } | Recipe::Replace { i, .. } => !case.pairs.is_empty() && !text(case, *i).is_empty(),
            _ => true,
        };
        // the request head has to fit the 1 KiB request buffer (C02's subject): request line, Host and the field name take < 80 bytes
        let fits = (1..=4).contains(&case.pairs.len()) && value_of(case).map_or(true, |v| v.len() <= 900);
        (1..=4).contains(&case.pairs.len()) && case.pairs.iter().all(|(u, _)| !u.contains(':')) && recipe_ok && fits
    }
    fn strategy(&self, _tier: Tier) -> BoxedStrategy<Case> {
        let method = prop_oneof![
            6 => Just(M::GET),
            2 => Just(M::POST),
            1 => Just(M::PUT),
            1 => Just(M::PATCH),
            1 => Just(M::DELETE),
            1 => Just(M::HEAD),
            1 => Just(M::OPTIONS),
        ];
        (pairs_strategy(), any::<bool>(), any::<bool>(), recipe_strategy(), method, prop_oneof![5 => Just(0u8), 1 => Just(1u8), 1 => Just(2u8), 1 => Just(3u8)]).prop_map(|(pairs, owned, single, recipe, method, shape)| Case { pairs, owned, single, recipe, method, shape }).boxed()
    }

    fn check(&self, case: &Case, obs: &mut Obs) {
        if let Err(e) = &self.selftest {
            obs.fail("HARNESS-BUG selftest", e.clone());
            return;
        }
        if !self.in_domain(case) {
            obs.label("out-of-domain");
            return;
        }
        let value = value_of(case);
        let want = verdict(value.as_deref(), &case.pairs);
        let derived = !matches!(case.recipe, Recipe::Bytes(_) | Recipe::Raw(_) | Recipe::Missing);
        match &want {
            Verdict::Accept(_) => {
                obs.nontrivial = case.pairs.len() > 1;
                obs.label(if matches!(case.recipe, Recipe::Correct(_)) { "correct" } else { "admitted:coincides-with-a-configured-pair" });
            }
            Verdict::Reject(_) => {
                obs.nontrivial = derived;
                obs.label(recipe_label(&case.recipe));
            }
            Verdict::Either(why) => obs.label(if *why == "scheme-letter-case" { "either:scheme-letter-case" } else { "either:optional-whitespace" }),
        }
        if case.method == M::OPTIONS {
            obs.label("options");
        }
        let router = match panic::catch(std::panic::AssertUnwindSafe(|| build(case).map(VerifRouter::new))) {
            Ok(Some(r)) => r,
            Ok(None) => return,
            Err(pi) => {
                obs.fail(format!("construction-{}", pi.key()), pi.describe());
                return;
            }
        };
        let cfg = format!("{}{:?}", if case.pairs.len() == 1 && case.single { "BasicAuth" } else { "[BasicAuth; N]" }, case.pairs);
        if !matches!(case.recipe, Recipe::Correct(_)) {
            if let Some(i) = recipe_index(&case.recipe) {
                let v = format!("Basic {}", b64(text(case, i).as_bytes()));
                self.judge(obs, case, &router, M::GET, Some(&v), &format!("{cfg} control GET Authorization: {v}"));
            }
        }
        let ctx = format!("{cfg} {} Authorization: {}", case.method.as_str(), value.as_deref().map_or("(none)".to_string(), |v| format!("{v:?}")));
        self.judge(obs, case, &router, case.method, value.as_deref(), &ctx);
    }
}
