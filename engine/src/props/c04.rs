//! C04 — fangs run in onion order and exactly within their application's scope.

use crate::core::*;
use crate::harness::app::*;
use crate::harness::drive;
use crate::harness::gen_app::{self, GenCfg, Req};
use crate::oracle::routes::{self, Expect};
use crate::props::c01::{build_router, Built};
use proptest::collection::vec;
use proptest::prelude::*;
use serde::{Deserialize, Serialize};

pub struct C04;

#[derive(Debug, Clone, Serialize, Deserialize)]
pub struct Case {
    pub app: AppDesc,
    pub requests: Vec<Req>,
}

fn seg_ok(p: &Seg, s: &[u8]) -> bool {
    match p {
        Seg::S(l) => l.as_bytes() == s,
        Seg::P(_) => !s.is_empty(),
    }
}

/// raw segments of the path, tolerant of empty ones (one trailing slash ignored)
fn raw_segments(path: &[u8]) -> Vec<&[u8]> {
    let p = if path.last() == Some(&b'/') { &path[..path.len() - 1] } else { path };
    if p.is_empty() {
        return vec![];
    }
    p[1..].split(|b| *b == b'/').collect()
}

/// applications whose mount prefix is a segment-wise prefix of the request path, outermost first
fn chain(flat: &Flat, path: &[u8]) -> Vec<usize> {
    let segs = raw_segments(path);
    let mut v: Vec<usize> = flat.apps.iter().filter(|a| a.prefix.len() <= segs.len() && a.prefix.iter().zip(&segs).all(|(p, s)| seg_ok(p, s))).map(|a| a.index).collect();
    v.sort_by_key(|i| flat.apps[*i].prefix.len());
    v
}

fn expected_log(flat: &Flat, chain: &[usize], hit: Option<(&FlatRoute, Vec<String>)>, early: &[u32]) -> (Vec<Ev>, Option<u32>) {
    // the sequence of fang ids on the way in
    let mut seq: Vec<&FangDesc> = Vec::new();
    for a in chain {
        seq.extend(flat.apps[*a].fangs.iter());
    }
    if let Some((r, _)) = &hit {
        seq.extend(r.handler.locals.iter());
    }
    let mut log = Vec::new();
    let mut entered: Vec<u32> = Vec::new();
    let mut early_by = None;
    for f in &seq {
        if f.early && early.contains(&f.id) {
            log.push(Ev::Early(f.id));
            early_by = Some(f.id);
            break;
        }
        log.push(Ev::In(f.id));
        entered.push(f.id);
    }
    if early_by.is_none() {
        if let Some((r, params)) = hit {
            log.push(Ev::Handler(r.handler.id, params));
        }
    }
    for id in entered.iter().rev() {
        log.push(Ev::Out(*id));
    }
    (log, early_by)
}

// ---------------------------------------------------------------- shape classifier for the known finding
//
// The framework merges a handler-less node with its single static child ("compression"). When the
// fang lists along such a chain differ (a mount point lies inside it), the merged node applies the
// union in the wrong order and scope; when a mount node is merged with its only child, misses between
// the two fall back to the parent's fangs. `crosses_compressed_mount_boundary` says whether a request
// touches such a merged node in the tree of its method — computed from the configuration only.

#[derive(Default)]
struct TNode {
    seg: Option<Seg>,
    children: Vec<usize>,
    parent: Option<usize>,
    has_handler: bool,
    path: Vec<Seg>,
}
fn method_trie(flat: &Flat, m: M) -> Vec<TNode> {
    let mut nodes = vec![TNode::default()];
    let mut insert = |nodes: &mut Vec<TNode>, segs: &[Seg], handler: bool| {
        let mut cur = 0;
        for s in segs {
            let next = nodes[cur].children.iter().copied().find(|c| nodes[*c].seg.as_ref().unwrap().unify_eq(s));
            cur = match next {
                Some(n) => n,
                None => {
                    let mut path = nodes[cur].path.clone();
                    path.push(s.clone());
                    nodes.push(TNode { seg: Some(s.clone()), children: vec![], parent: Some(cur), has_handler: false, path });
                    let id = nodes.len() - 1;
                    nodes[cur].children.push(id);
                    id
                }
            };
        }
        if handler {
            nodes[cur].has_handler = true
        }
    };
    for r in &flat.routes {
        if m == M::OPTIONS || r.method == m {
            insert(&mut nodes, &r.segs, true);
        }
    }
    for a in flat.apps.iter().filter(|a| a.parent.is_some()) {
        insert(&mut nodes, &a.prefix, false);
    }
    nodes
}
fn fang_ids_at(flat: &Flat, path: &[Seg]) -> Vec<u32> {
    let mut apps: Vec<&FlatApp> = flat.apps.iter().filter(|a| unify_prefix(&a.prefix, path)).collect();
    apps.sort_by_key(|a| a.prefix.len());
    apps.iter().flat_map(|a| a.fangs.iter().map(|f| f.id)).collect()
}
pub fn crosses_compressed_mount_boundary(flat: &Flat, m: M, path: &[u8]) -> bool {
    let m = if m == M::HEAD { M::GET } else { m };
    let nodes = method_trie(flat, m);
    let compressible = |x: usize| -> bool {
        let n = &nodes[x];
        !n.has_handler && n.children.len() == 1 && n.seg.as_ref().map_or(true, |s| !s.is_param()) && !nodes[n.children[0]].seg.as_ref().unwrap().is_param()
    };
    // walk
    let segs = raw_segments(path);
    let mut visited = vec![0usize];
    let mut cur = 0;
    for s in &segs {
        let st = nodes[cur].children.iter().copied().find(|c| matches!(nodes[*c].seg.as_ref().unwrap(), Seg::S(l) if l.as_bytes() == *s));
        let next = st.or_else(|| if s.is_empty() { None } else { nodes[cur].children.iter().copied().find(|c| nodes[*c].seg.as_ref().unwrap().is_param()) });
        match next {
            Some(n) => {
                visited.push(n);
                cur = n
            }
            None => break,
        }
    }
    // chain heads that the request touches
    for x in 0..nodes.len() {
        if !compressible(x) {
            continue;
        }
        let is_head = match nodes[x].parent {
            None => true,
            Some(p) => !compressible(p),
        };
        if !is_head {
            continue;
        }
        if x != 0 && !visited.contains(&nodes[x].parent.unwrap()) {
            continue;
        }
        let mut chain = vec![x];
        let mut c = x;
        while compressible(c) {
            c = nodes[c].children[0];
            chain.push(c);
        }
        let lists: Vec<Vec<u32>> = chain.iter().map(|n| fang_ids_at(flat, &nodes[*n].path)).collect();
        let differ = lists.iter().any(|l| *l != lists[0]);
        let matched = chain.iter().take_while(|n| visited.contains(n)).count();
        if x == 0 {
            if differ {
                return true;
            }
        } else if matched == 0 {
            continue;
        } else if matched == chain.len() {
            if differ {
                return true;
            }
        } else {
            let cj = chain[matched - 1];
            let parent = nodes[x].parent.unwrap();
            if fang_ids_at(flat, &nodes[cj].path) != fang_ids_at(flat, &nodes[parent].path) {
                return true;
            }
        }
    }
    false
}

fn in_domain_app(app: &AppDesc) -> bool {
    // every mount prefix is used by exactly one application and no other application registers under it
    let flat = flatten(app);
    for a in flat.apps.iter().filter(|a| a.parent.is_some()) {
        if a.prefix.len() == flat.apps[a.parent.unwrap()].prefix.len() {
            return false; // empty mount prefix
        }
        for b in flat.apps.iter().filter(|b| b.index != a.index && b.parent.is_some()) {
            if unify_eq(&a.prefix, &b.prefix) {
                return false;
            }
        }
        for r in &flat.routes {
            if !r.apps.contains(&a.index) && unify_prefix(&a.prefix, &r.segs) {
                return false;
            }
        }
        // a param segment in a mount prefix has no static sibling at that position (and vice versa)
        let pats = flat.routes.iter().map(|r| (r.apps.contains(&a.index), r.segs.as_slice())).chain(flat.apps.iter().map(|b| {
            let mut cur = Some(b.index);
            let mut inside = false;
            while let Some(c) = cur {
                if c == a.index {
                    inside = true
                }
                cur = flat.apps[c].parent;
            }
            (inside, b.prefix.as_slice())
        }));
        for (inside, p) in pats {
            if inside {
                continue;
            }
            for i in 0..a.prefix.len().min(p.len()) {
                if a.prefix[i].unify_eq(&p[i]) {
                    continue;
                }
                if a.prefix[i].is_param() != p[i].is_param() {
                    return false;
                }
                break;
            }
        }
    }
    true
}

impl Property for C04 {
    type Case = Case;
    const ID: &'static str = "C04";
    const RULE: &'static str = "generated: application trees (depth ≤ 2/3) in which every mount prefix (1–3 static/param segments, compared modulo param names, no static sibling of a param prefix segment) belongs to exactly one application and nobody else registers under it; 0–8 trace fangs per application realised through the real tuple Fangs impls as Fang wrappers, FangActions or alternating mixes, some able to answer early on a marker header; 0–4 local fangs per handler; × up to 20 requests (hits, misses inside and outside every mount, sibling prefixes, the mount path itself, all 7 methods, early markers). Oracle: onion trace computed from the configuration tree (chain of applications whose prefix is a segment-wise prefix of the path) compared as an exact event sequence; status 200/404/418. Non-trivial request = chain length ≥ 2, or an early answer, or local fangs, or a miss inside a mount; distinct by (fang/route tree shape, method, target, early marker).";
    const ASSUMPTIONS: &'static [&'static str] = &[
        "the quantifier's restriction on mount prefixes is enforced by construction (and re-checked by in_domain on reduced cases)",
        "which handler is hit is taken from C01's reference matcher; requests on which its four readings disagree only have their fang events checked",
        "OPTIONS requests: no user handler exists; the fangs of the chain must still run",
    ];

    fn new(_: Tier) -> Self {
        C04
    }
    fn n_cases(&self, tier: Tier) -> u64 {
        tier.pick(120_000, 1_000_000)
    }
    fn chunk(&self, _tier: Tier) -> u64 {
        250
    }
    fn in_domain(&self, case: &Case) -> bool {
        in_domain_app(&case.app) && case.requests.iter().all(|r| r.target.starts_with('/'))
    }
    fn strategy(&self, tier: Tier) -> BoxedStrategy<Case> {
        let cfg = GenCfg { max_depth: tier.pick(2, 3), max_routes: 4, max_mounts: 2, max_fangs: 8, max_locals: 4, early_fangs: true, exclusive_mounts: true, allow_empty_prefix: false, split_items: true, max_route_len: 3 };
        (gen_app::app_strategy(cfg), vec(gen_app::recipe(), 1..=20))
            .prop_map(|(app, recipes)| {
                let flat = flatten(&app);
                let mut requests: Vec<Req> = recipes.iter().map(|r| gen_app::concretize(&flat, r)).collect();
                // aim some requests at the mount paths themselves and at sibling prefixes
                for (i, r) in recipes.iter().enumerate() {
                    if r.free && flat.apps.len() > 1 {
                        let a = &flat.apps[1 + r.route_pick % (flat.apps.len() - 1)];
                        let mut t: String = a.prefix.iter().map(|s| match s {
                            Seg::S(l) => format!("/{l}"),
                            Seg::P(_) => "/v".to_string(),
                        }).collect();
                        match r.route_pick % 4 {
                            0 => {}
                            1 => t.push('x'),
                            2 => t.push_str("/nope"),
                            _ => t.push('/'),
                        }
                        requests[i].target = t;
                    }
                }
                Case { app, requests }
            })
            .boxed()
    }

    fn check(&self, case: &Case, obs: &mut Obs) {
        if !in_domain_app(&case.app) {
            obs.label("out-of-domain");
            return;
        }
        let flat = flatten(&case.app);
        let router = match build_router(&case.app, None) {
            Built::Ok(r) => r,
            Built::Refused(m) if !m.contains("Can't merge Ohkamis") => {
                // (the generator keeps routes apart: see C01) a refusal of anything but meeting mounts turns away an application
                obs.fail(format!("valid-configuration-refused:{}", crate::core::panic::stem(&m).chars().take(50).collect::<String>()), format!("the application was refused at build time: {m}"));
                return;
            }
            Built::Refused(m) => {
                obs.label_dyn(&format!("refusal:{}", crate::core::panic::stem(&m).chars().take(60).collect::<String>()));
                obs.rejected_config = true;
                return;
            }
            Built::Panicked(f) => {
                obs.failures.push(f);
                return;
            }
        };
        let shape = fnv(format!("{:?}", case.app).as_bytes());
        for rq in &case.requests {
            obs.evals += 1;
            let path = rq.target.split('?').next().unwrap().as_bytes();
            let mut headers = vec![("Host".to_string(), "t".to_string())];
            if !rq.early.is_empty() {
                headers.push(("X-Early".to_string(), rq.early.iter().map(|i| i.to_string()).collect::<Vec<_>>().join(",")));
            }
            let o = match drive::request(&router, rq.method.as_str(), &rq.target, &headers, None) {
                Ok(o) => o,
                Err(e) => {
                    obs.fail("malformed-response", format!("{} {}: {e}", rq.method.as_str(), rq.target));
                    continue;
                }
            };
            let m = if rq.method == M::HEAD { M::GET } else { rq.method };
            let readings = routes::expect(&flat, m, path);
            let ch = chain(&flat, path);
            let decided = readings.decided().cloned();
            let candidates: Vec<Expect> = match &decided {
                Some(e) => vec![e.clone()],
                None => {
                    obs.ambiguous += 1;
                    let mut v: Vec<Expect> = Vec::new();
                    for e in readings.all() {
                        if !v.contains(e) {
                            v.push(e.clone())
                        }
                    }
                    v
                }
            };
            let mut ok = false;
            let mut first_expectation = String::new();
            let mut nontrivial = ch.len() >= 2;
            for e in &candidates {
                let hit = match e {
                    Expect::Hit(i, caps) => {
                        let r = &flat.routes[*i];
                        let params: Option<Vec<String>> = caps.iter().take(r.handler.arity as usize).map(|c| String::from_utf8(c.clone()).ok()).collect();
                        match params {
                            // percent-escapes in captured params are C01/C07's business; skip such requests here
                            Some(p) if !p.iter().any(|s| s.contains('%')) => Some((r, p)),
                            _ => {
                                ok = true;
                                break;
                            }
                        }
                    }
                    Expect::Miss => None,
                };
                if let Some((r, _)) = &hit {
                    if !r.handler.locals.is_empty() {
                        nontrivial = true
                    }
                } else if ch.len() >= 2 {
                    nontrivial = true
                }
                let is_hit = hit.is_some();
                let (want_log, early_by) = expected_log(&flat, &ch, hit, &rq.early);
                if early_by.is_some() {
                    nontrivial = true
                }
                let want_status = match (early_by, is_hit) {
                    (Some(_), _) => 418,
                    (None, true) => 200,
                    (None, false) => 404,
                };
                if first_expectation.is_empty() {
                    first_expectation = format!("status {want_status}, trace {want_log:?} (chain of applications {ch:?})");
                }
                if o.log == want_log && o.status() == want_status {
                    ok = true;
                    break;
                }
            }
            if nontrivial {
                obs.nontrivial_sub(fnv(format!("{shape}:{}:{}:{:?}", rq.method.as_str(), rq.target, rq.early).as_bytes()));
            }
            if !ok {
                // classify from the deviation: which fang ids are extra / missing / misordered
                let want_ids: Vec<u32> = {
                    let mut v = Vec::new();
                    for a in &ch {
                        v.extend(flat.apps[*a].fangs.iter().map(|f| f.id));
                    }
                    v
                };
                let got_in: Vec<u32> = o.log.iter().filter_map(|e| if let Ev::In(i) | Ev::Early(i) = e { Some(*i) } else { None }).collect();
                let app_fang_ids: Vec<u32> = flat.apps.iter().flat_map(|a| a.fangs.iter().map(|f| f.id)).collect();
                let got_app: Vec<u32> = got_in.iter().copied().filter(|i| app_fang_ids.contains(i)).collect();
                let extra = got_app.iter().any(|i| !want_ids.contains(i));
                let missing = want_ids.iter().take(got_app.len().max(1)).any(|i| !got_app.contains(i)) && rq.early.is_empty();
                let dev = if extra {
                    "fang-of-foreign-application-ran"
                } else if missing {
                    "fang-of-enclosing-application-missing"
                } else {
                    let mut sorted_want: Vec<u32> = want_ids.iter().copied().filter(|i| got_app.contains(i)).collect();
                    sorted_want.truncate(got_app.len());
                    if got_app != sorted_want {
                        "fang-order"
                    } else {
                        "trace-or-status"
                    }
                };
                let shape_tag = if crosses_compressed_mount_boundary(&flat, rq.method, path) { "compression-across-mount-boundary" } else { "plain" };
                // the recorded finding misorders the fangs of a merged node and mis-scopes them for misses; it never loses or
                // adds a fang on the way to a handler that runs — so the key says whether one ran
                let shape_tag = if shape_tag == "plain" { "plain".to_string() } else { format!("{shape_tag}:{}", if o.handlers().is_empty() { "no-handler-ran" } else { "handler-ran" }) };
                obs.fail(format!("{shape_tag}:{dev}"), format!("{} {} early={:?}: expected {first_expectation}; observed status {} trace {:?}", rq.method.as_str(), rq.target, rq.early, o.status(), o.log));
            }
        }
    }
}
