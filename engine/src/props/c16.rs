//! C16 — derive(Schema) describes the JSON shape that serde actually reads and writes.
//!
//! The quantifier ranges over *programs*: a case is a batch of generated type definitions. The batch is
//! written out as a Rust program, compiled with plain `rustc` against ohkami/serde/serde_json artifacts
//! built from /repo's working tree (`/verif/typegen`, see `./check`), run, and its output judged here.

use crate::core::*;
use crate::harness::sidecar::Sidecar;
use proptest::collection::vec;
use proptest::prelude::*;
use serde::{Deserialize, Serialize};
use std::cell::RefCell;
use std::collections::{BTreeMap, BTreeSet};
use std::fmt::Write as _;

pub struct C16 {
    sidecar: RefCell<Option<Sidecar>>,
}

pub const FIELD_NAMES: [&str; 8] = ["id", "user_name", "created_at", "x", "http_url", "a1", "is_ok2", "v"];
pub const VARIANT_NAMES: [&str; 6] = ["Red", "DarkBlue", "HTTPError", "A", "Value2", "FooBarBaz"];
pub const RENAMES: [&str; 6] = ["renamed", "userNick", "Type", "x_y", "IDX", "user-name"];
pub const CASES: [&str; 8] = ["lowercase", "UPPERCASE", "PascalCase", "camelCase", "snake_case", "SCREAMING_SNAKE_CASE", "kebab-case", "SCREAMING-KEBAB-CASE"];

#[derive(Debug, Clone, Serialize, Deserialize, PartialEq)]
pub enum FTy {
    Str,
    U8,
    U32,
    I64,
    F64,
    VecU32,
    VecStr,
    OptStr,
    OptU32,
    OptVecU32,
    /// an earlier type of the batch (index taken modulo the number of earlier types)
    Ref(u8),
    OptRef(u8),
    I8,
    I16,
    I32,
    U16,
    U64,
    F32,
    /// `[u8; 3]`
    Arr3,
    /// a generic helper type of the generated program over a simple argument — which: 0 `ShippingOption<A>` (a struct whose
    /// name ends in "Option"), 1 `Timed<A>` (a struct), 2 `PickOption<A>` (a newtype); arg: 0 String, 1 u32, else an earlier type
    Generic { which: u8, arg: u8 },
    OptGeneric { which: u8, arg: u8 },
}
fn generic_src(which: u8, arg: u8) -> String {
    let a = match arg { 0 => "String".to_string(), 1 => "u32".to_string(), k => format!("T{}", k - 2) };
    format!("{}<{a}>", ["ShippingOption", "Timed", "PickOption"][which as usize % 3])
}

#[derive(Debug, Clone, Serialize, Deserialize, PartialEq)]
pub struct FieldDef {
    pub name: u8,
    pub ty: FTy,
    pub rename: Option<u8>,
    pub skip: bool,
    pub default: bool,
    pub skip_if_none: bool,
    pub flatten: bool,
    /// `skip_serializing_if = "String::is_empty"` / `"Vec::is_empty"` on a non-Option field (String / Vec types only)
    #[serde(default)]
    pub skip_if_empty: bool,
}

#[derive(Debug, Clone, Serialize, Deserialize, PartialEq)]
pub enum VKind {
    Unit,
    Newtype(FTy),
    /// `V { … }`, possibly without any field (`V {}` is not a unit variant: serde writes `{}` for it)
    Struct(Vec<FieldDef>),
    /// `V()`: a tuple variant without elements (serde writes `[]`)
    EmptyTuple,
    /// `V(A, B[, C])`, one element possibly `#[serde(skip)]` (serde writes the others as an array)
    Tuple { elems: Vec<FTy>, skipped: Option<u8> },
}
#[derive(Debug, Clone, Serialize, Deserialize, PartialEq)]
pub struct VariantDef {
    pub name: u8,
    pub rename: Option<u8>,
    pub kind: VKind,
}
#[derive(Debug, Clone, Serialize, Deserialize, PartialEq)]
pub enum Tagging {
    External,
    Internal,
    Adjacent,
    Untagged,
}

#[derive(Debug, Clone, Serialize, Deserialize, PartialEq)]
pub enum Body {
    Struct { fields: Vec<FieldDef>, rename_all: Option<u8> },
    Newtype(FTy),
    Tuple(Vec<FTy>),
    Unit,
    UnitEnum {
        variants: Vec<(u8, Option<u8>)>,
        rename_all: Option<u8>,
        /// positions of variants marked `#[serde(skip_deserializing)]` (serde still writes them)
        #[serde(default)]
        skip_de: Vec<u8>,
    },
    /// a tuple struct of 3 elements one of which is `#[serde(skip)]` (serde writes the other two)
    TupleSkip {
        elems: Vec<FTy>,
        skipped: u8,
        /// a second skipped element (of three): serde writes the remaining one — as an array of one
        #[serde(default)]
        also: Option<u8>,
    },
    Enum { variants: Vec<VariantDef>, tagging: Tagging, rename_all: Option<u8>, rename_all_fields: Option<u8> },
}

#[derive(Debug, Clone, Serialize, Deserialize, PartialEq)]
pub struct TypeDef {
    pub body: Body,
    pub component: bool,
    /// serde proxy types (fixed helper types of the generated program): 0 none, 1 `into = "POut"`, 2 `into = "POut", from = "PIn"`,
    /// 3 `into = "POut", try_from = "PIn"` — what serde *writes* is POut in all three
    #[serde(default)]
    pub proxy: u8,
}

#[derive(Debug, Clone, Serialize, Deserialize)]
pub struct Case {
    pub types: Vec<TypeDef>,
    pub value_seed: u64,
}

// ---------------------------------------------------------------- normalisation (keeps programs compilable by serde)

fn is_structlike(t: &TypeDef) -> bool {
    matches!(t.body, Body::Struct { .. })
}

fn fix_fields(fields: &mut Vec<FieldDef>, earlier: &[TypeDef]) {
    let mut seen = BTreeSet::new();
    let mut seen_ren = BTreeSet::new();
    fields.retain(|f| seen.insert(f.name % FIELD_NAMES.len() as u8));
    for f in fields.iter_mut() {
        f.name %= FIELD_NAMES.len() as u8;
        if let Some(r) = f.rename {
            let r = r % RENAMES.len() as u8;
            f.rename = if seen_ren.insert(r) { Some(r) } else { None };
        }
        // references
        match &mut f.ty {
            FTy::Ref(k) | FTy::OptRef(k) => {
                if earlier.is_empty() {
                    f.ty = FTy::U32
                } else {
                    *k %= earlier.len() as u8
                }
            }
            FTy::Generic { which, arg } | FTy::OptGeneric { which, arg } => {
                *which %= 3;
                *arg = if earlier.is_empty() { *arg % 2 } else { *arg % (2 + earlier.len() as u8) };
            }
            _ => {}
        }
        let is_opt = matches!(f.ty, FTy::OptStr | FTy::OptU32 | FTy::OptVecU32 | FTy::OptRef(_) | FTy::OptGeneric { .. });
        if !is_opt {
            f.skip_if_none = false
        }
        if !matches!(f.ty, FTy::Str | FTy::VecU32 | FTy::VecStr) {
            f.skip_if_empty = false
        }
        // flatten only over a struct-like earlier type (serde cannot flatten scalars), and never with a rename
        let flatten_ok = matches!(&f.ty, FTy::Ref(k) if is_structlike(&earlier[*k as usize]));
        if !flatten_ok {
            f.flatten = false
        }
        if f.flatten {
            f.rename = None;
            f.skip = false;
            f.default = false;
            f.skip_if_empty = false;
        }
        if f.skip {
            // a skipped field must be Default: keep it a plain integer
            f.ty = FTy::U32;
            f.rename = None;
            f.default = false;
            f.skip_if_none = false;
            f.skip_if_empty = false;
        }
        // `default` needs Default for the type: not for references
        if matches!(f.ty, FTy::Ref(_) | FTy::Generic { .. }) {
            f.default = false
        }
    }
}

fn fix_fty(t: &mut FTy, earlier: &[TypeDef]) {
    // Option is supported for named fields only (elsewhere `Option<T>: Schema` does not exist: a compile-time refusal)
    match t {
        FTy::OptStr => *t = FTy::Str,
        FTy::OptU32 => *t = FTy::U32,
        FTy::OptVecU32 => *t = FTy::VecU32,
        FTy::OptRef(k) => *t = FTy::Ref(*k),
        FTy::OptGeneric { which, arg } => *t = FTy::Generic { which: *which, arg: *arg },
        _ => {}
    }
    match t {
        FTy::Ref(k) | FTy::OptRef(k) => {
            if earlier.is_empty() {
                *t = FTy::Str
            } else {
                *k %= earlier.len() as u8
            }
        }
        FTy::Generic { which, arg } | FTy::OptGeneric { which, arg } => {
            *which %= 3;
            *arg = if earlier.is_empty() { *arg % 2 } else { *arg % (2 + earlier.len() as u8) };
        }
        _ => {}
    }
}

pub fn normalise(types: &mut Vec<TypeDef>) {
    for i in 0..types.len() {
        let (earlier, rest) = types.split_at_mut(i);
        let t = &mut rest[0];
        t.proxy %= 4;
        // (`#[openapi(component)]` together with a proxy type does not compile: the derive passes the proxy's
        // `impl Into<SchemaRef>` to `component()`, which wants a `Schema<T>` — a refusal, not a wrong description)
        if t.proxy != 0 {
            t.component = false
        }
        match &mut t.body {
            Body::Struct { fields, rename_all } => {
                fix_fields(fields, earlier);
                if let Some(c) = rename_all {
                    *c %= CASES.len() as u8
                }
            }
            Body::Newtype(ft) => fix_fty(ft, earlier),
            Body::Tuple(fs) => {
                fs.truncate(3);
                while fs.len() < 2 {
                    fs.push(FTy::U32)
                }
                for f in fs.iter_mut() {
                    fix_fty(f, earlier)
                }
            }
            Body::TupleSkip { elems, skipped, also } => {
                elems.truncate(3);
                while elems.len() < 2 {
                    elems.push(FTy::U32)
                }
                for f in elems.iter_mut() {
                    fix_fty(f, earlier)
                }
                let n = elems.len() as u8;
                *skipped %= n;
                if let Some(a) = also {
                    *a %= n;
                    if *a == *skipped || n < 3 {
                        *also = None
                    }
                }
                // a skipped element is filled in by Default when reading
                for k in [Some(*skipped), *also].into_iter().flatten() {
                    if matches!(elems[k as usize], FTy::Ref(_) | FTy::Generic { .. } | FTy::Arr3) {
                        elems[k as usize] = FTy::U32
                    }
                }
            }
            Body::Unit => {}
            Body::UnitEnum { variants, rename_all, skip_de } => {
                let mut seen = BTreeSet::new();
                variants.retain(|v| seen.insert(v.0 % VARIANT_NAMES.len() as u8));
                let mut seen_r = BTreeSet::new();
                for v in variants.iter_mut() {
                    v.0 %= VARIANT_NAMES.len() as u8;
                    if let Some(r) = v.1 {
                        let r = r % RENAMES.len() as u8;
                        v.1 = if seen_r.insert(r) { Some(r) } else { None };
                    }
                }
                if variants.is_empty() {
                    variants.push((0, None))
                }
                if let Some(c) = rename_all {
                    *c %= CASES.len() as u8
                }
                let n = variants.len() as u8;
                for k in skip_de.iter_mut() {
                    *k %= n
                }
                skip_de.sort();
                skip_de.dedup();
                // one variant at least can be read back
                if skip_de.len() as u8 == n {
                    skip_de.clear()
                }
            }
            Body::Enum { variants, tagging, rename_all, rename_all_fields } => {
                let mut seen = BTreeSet::new();
                variants.retain(|v| seen.insert(v.name % VARIANT_NAMES.len() as u8));
                let mut seen_r = BTreeSet::new();
                for v in variants.iter_mut() {
                    v.name %= VARIANT_NAMES.len() as u8;
                    if let Some(r) = v.rename {
                        let r = r % RENAMES.len() as u8;
                        v.rename = if seen_r.insert(r) { Some(r) } else { None };
                    }
                    match &mut v.kind {
                        VKind::Unit => {}
                        VKind::Newtype(ft) => {
                            fix_fty(ft, earlier);
                            // internally tagged newtype variants must wrap a struct (serde errors at run time otherwise)
                            if *tagging == Tagging::Internal {
                                let ok = matches!(ft, FTy::Ref(k) if is_structlike(&earlier[*k as usize]));
                                if !ok {
                                    v.kind = VKind::Unit
                                }
                            }
                        }
                        VKind::Struct(fields) => {
                            fix_fields(fields, earlier);
                            for f in fields.iter_mut() {
                                f.flatten = false;
                            }
                        }
                        VKind::EmptyTuple => {
                            // serde refuses tuple variants in internally tagged enums at compile time
                            if *tagging == Tagging::Internal {
                                v.kind = VKind::Unit
                            }
                        }
                        VKind::Tuple { elems, skipped } => {
                            elems.truncate(3);
                            while elems.len() < 2 {
                                elems.push(FTy::U32)
                            }
                            for f in elems.iter_mut() {
                                fix_fty(f, earlier)
                            }
                            if let Some(k) = skipped {
                                *k %= elems.len() as u8;
                                if matches!(elems[*k as usize], FTy::Ref(_) | FTy::Generic { .. } | FTy::Arr3) {
                                    elems[*k as usize] = FTy::U32
                                }
                            }
                            if *tagging == Tagging::Internal {
                                v.kind = VKind::Unit
                            }
                        }
                    }
                }
                if variants.is_empty() {
                    variants.push(VariantDef { name: 0, rename: None, kind: VKind::Unit });
                }
                // (an enum whose variants are all units may still carry `tag` / `content` / `untagged`: serde then writes
                // `{"t":"V"}` or `null`, not the bare name)
                // untagged: values must stay distinguishable for the round trip; not needed here (we only serialise)
                if let Some(c) = rename_all {
                    *c %= CASES.len() as u8
                }
                if let Some(c) = rename_all_fields {
                    *c %= CASES.len() as u8
                }
            }
        }
    }
}

// ---------------------------------------------------------------- code generation

fn fty_src(t: &FTy) -> String {
    match t {
        FTy::Str => "String".into(),
        FTy::U8 => "u8".into(),
        FTy::U32 => "u32".into(),
        FTy::I64 => "i64".into(),
        FTy::F64 => "f64".into(),
        FTy::VecU32 => "Vec<u32>".into(),
        FTy::VecStr => "Vec<String>".into(),
        FTy::OptStr => "Option<String>".into(),
        FTy::OptU32 => "Option<u32>".into(),
        FTy::OptVecU32 => "Option<Vec<u32>>".into(),
        FTy::Ref(k) => format!("T{k}"),
        FTy::OptRef(k) => format!("Option<T{k}>"),
        FTy::I8 => "i8".into(),
        FTy::I16 => "i16".into(),
        FTy::I32 => "i32".into(),
        FTy::U16 => "u16".into(),
        FTy::U64 => "u64".into(),
        FTy::F32 => "f32".into(),
        FTy::Arr3 => "[u8; 3]".into(),
        FTy::Generic { which, arg } => generic_src(*which, *arg),
        FTy::OptGeneric { which, arg } => format!("Option<{}>", generic_src(*which, *arg)),
    }
}

fn field_attrs(f: &FieldDef) -> String {
    let mut a: Vec<String> = Vec::new();
    if let Some(r) = f.rename {
        a.push(format!("rename = \"{}\"", RENAMES[r as usize]));
    }
    if f.skip {
        a.push("skip".into())
    }
    if f.default {
        a.push("default".into())
    }
    if f.skip_if_none {
        a.push("skip_serializing_if = \"Option::is_none\"".into())
    }
    if f.skip_if_empty {
        a.push(format!("skip_serializing_if = \"{}::is_empty\"", if f.ty == FTy::Str { "String" } else { "Vec" }))
    }
    if f.flatten {
        a.push("flatten".into())
    }
    if a.is_empty() {
        String::new()
    } else {
        format!("#[serde({})] ", a.join(", "))
    }
}

fn fields_src(fields: &[FieldDef]) -> String {
    fields.iter().map(|f| format!("    {}{}: {},\n", field_attrs(f), FIELD_NAMES[f.name as usize], fty_src(&f.ty))).collect()
}
fn fields_gen(fields: &[FieldDef]) -> String {
    fields.iter().map(|f| if f.skip { format!("{}: 0, ", FIELD_NAMES[f.name as usize]) } else { format!("{}: Gen::gen(r), ", FIELD_NAMES[f.name as usize]) }).collect()
}

/// (source text, line range per type [start, end))
pub fn codegen(types: &[TypeDef], value_seed: u64) -> (String, Vec<(usize, usize)>) {
    let mut s = String::new();
    s.push_str(PRELUDE);
    let mut ranges = Vec::new();
    for (i, t) in types.iter().enumerate() {
        let start = s.lines().count() + 1;
        let mut cont: Vec<String> = Vec::new();
        let comp = if t.component { "#[openapi(component)]\n" } else { "" };
        match t.proxy {
            1 => cont.push("into = \"POut\"".into()),
            2 => cont.push("into = \"POut\", from = \"PIn\"".into()),
            3 => cont.push("into = \"POut\", try_from = \"PIn\"".into()),
            _ => {}
        }
        let derive = "#[derive(Debug, Clone, PartialEq, Serialize, Deserialize, Schema)]\n";
        match &t.body {
            Body::Struct { fields, rename_all } => {
                if let Some(c) = rename_all {
                    cont.push(format!("rename_all = \"{}\"", CASES[*c as usize]));
                }
                let attr = if cont.is_empty() { String::new() } else { format!("#[serde({})]\n", cont.join(", ")) };
                let _ = write!(s, "{derive}{comp}{attr}struct T{i} {{\n{}}}\n", fields_src(fields));
                let _ = write!(s, "impl Gen for T{i} {{ fn gen(r: &mut Rng) -> Self {{ T{i} {{ {} }} }} }}\n", fields_gen(fields));
            }
            Body::Newtype(ft) => {
                let attr = if cont.is_empty() { String::new() } else { format!("#[serde({})]\n", cont.join(", ")) };
                let _ = write!(s, "{derive}{comp}{attr}struct T{i}({});\n", fty_src(ft));
                let _ = write!(s, "impl Gen for T{i} {{ fn gen(r: &mut Rng) -> Self {{ T{i}(Gen::gen(r)) }} }}\n");
            }
            Body::Tuple(fs) => {
                let attr = if cont.is_empty() { String::new() } else { format!("#[serde({})]\n", cont.join(", ")) };
                let _ = write!(s, "{derive}{comp}{attr}struct T{i}({});\n", fs.iter().map(fty_src).collect::<Vec<_>>().join(", "));
                let _ = write!(s, "impl Gen for T{i} {{ fn gen(r: &mut Rng) -> Self {{ T{i}({}) }} }}\n", fs.iter().map(|_| "Gen::gen(r)").collect::<Vec<_>>().join(", "));
            }
            Body::TupleSkip { elems, skipped, also } => {
                let attr = if cont.is_empty() { String::new() } else { format!("#[serde({})]\n", cont.join(", ")) };
                let _ = write!(s, "{derive}{comp}{attr}struct T{i}({});\n", elems.iter().enumerate().map(|(k, f)| format!("{}{}", if k == *skipped as usize || Some(k as u8) == *also { "#[serde(skip)] " } else { "" }, fty_src(f))).collect::<Vec<_>>().join(", "));
                let _ = write!(s, "impl Gen for T{i} {{ fn gen(r: &mut Rng) -> Self {{ T{i}({}) }} }}\n", elems.iter().map(|_| "Gen::gen(r)").collect::<Vec<_>>().join(", "));
            }
            Body::Unit => {
                let attr = if cont.is_empty() { String::new() } else { format!("#[serde({})]\n", cont.join(", ")) };
                let _ = write!(s, "{derive}{comp}{attr}struct T{i};\n");
                let _ = write!(s, "impl Gen for T{i} {{ fn gen(_r: &mut Rng) -> Self {{ T{i} }} }}\n");
            }
            Body::UnitEnum { variants, rename_all, skip_de } => {
                if let Some(c) = rename_all {
                    cont.push(format!("rename_all = \"{}\"", CASES[*c as usize]));
                }
                let attr = if cont.is_empty() { String::new() } else { format!("#[serde({})]\n", cont.join(", ")) };
                let vs: String = variants.iter().enumerate().map(|(k, (n, r))| format!("    {}{}{},\n", if skip_de.contains(&(k as u8)) { "#[serde(skip_deserializing)] " } else { "" }, r.map(|r| format!("#[serde(rename = \"{}\")] ", RENAMES[r as usize])).unwrap_or_default(), VARIANT_NAMES[*n as usize])).collect();
                let _ = write!(s, "{derive}{comp}{attr}enum T{i} {{\n{vs}}}\n");
                let arms: String = variants.iter().enumerate().map(|(k, (n, _))| format!("{k} => T{i}::{}, ", VARIANT_NAMES[*n as usize])).collect();
                let _ = write!(s, "impl Gen for T{i} {{ fn gen(r: &mut Rng) -> Self {{ match r.pick({}) {{ {arms}_ => unreachable!() }} }} }}\n", variants.len());
            }
            Body::Enum { variants, tagging, rename_all, rename_all_fields } => {
                match tagging {
                    Tagging::External => {}
                    Tagging::Internal => cont.push("tag = \"kind\"".into()),
                    Tagging::Adjacent => cont.push("tag = \"kind\", content = \"body\"".into()),
                    Tagging::Untagged => cont.push("untagged".into()),
                }
                if let Some(c) = rename_all {
                    cont.push(format!("rename_all = \"{}\"", CASES[*c as usize]));
                }
                if let Some(c) = rename_all_fields {
                    cont.push(format!("rename_all_fields = \"{}\"", CASES[*c as usize]));
                }
                let attr = if cont.is_empty() { String::new() } else { format!("#[serde({})]\n", cont.join(", ")) };
                let mut vs = String::new();
                let mut arms = String::new();
                for (k, v) in variants.iter().enumerate() {
                    let ren = v.rename.map(|r| format!("#[serde(rename = \"{}\")] ", RENAMES[r as usize])).unwrap_or_default();
                    let name = VARIANT_NAMES[v.name as usize];
                    match &v.kind {
                        VKind::Unit => {
                            let _ = write!(vs, "    {ren}{name},\n");
                            let _ = write!(arms, "{k} => T{i}::{name}, ");
                        }
                        VKind::Newtype(ft) => {
                            let _ = write!(vs, "    {ren}{name}({}),\n", fty_src(ft));
                            let _ = write!(arms, "{k} => T{i}::{name}(Gen::gen(r)), ");
                        }
                        VKind::Struct(fields) => {
                            let _ = write!(vs, "    {ren}{name} {{\n{}    }},\n", fields_src(fields).replace("    ", "        "));
                            let _ = write!(arms, "{k} => T{i}::{name} {{ {} }}, ", fields_gen(fields));
                        }
                        VKind::EmptyTuple => {
                            let _ = write!(vs, "    {ren}{name}(),\n");
                            let _ = write!(arms, "{k} => T{i}::{name}(), ");
                        }
                        VKind::Tuple { elems, skipped } => {
                            let _ = write!(vs, "    {ren}{name}({}),\n", elems.iter().enumerate().map(|(j, f)| format!("{}{}", if Some(j as u8) == *skipped { "#[serde(skip)] " } else { "" }, fty_src(f))).collect::<Vec<_>>().join(", "));
                            let _ = write!(arms, "{k} => T{i}::{name}({}), ", elems.iter().map(|_| "Gen::gen(r)").collect::<Vec<_>>().join(", "));
                        }
                    }
                }
                let _ = write!(s, "{derive}{comp}{attr}enum T{i} {{\n{vs}}}\n");
                let _ = write!(s, "impl Gen for T{i} {{ fn gen(r: &mut Rng) -> Self {{ match r.pick({}) {{ {arms}_ => unreachable!() }} }} }}\n", variants.len());
            }
        }
        if t.proxy != 0 {
            let _ = write!(s, "impl From<T{i}> for POut {{ fn from(_: T{i}) -> POut {{ POut {{ out_a: 7, out_b: \"written through the proxy\".to_string() }} }} }}\n");
        }
        match t.proxy {
            2 => {
                let _ = write!(s, "impl From<PIn> for T{i} {{ fn from(_: PIn) -> T{i} {{ Gen::gen(&mut Rng(88172645463325252, true)) }} }}\n");
            }
            3 => {
                let _ = write!(s, "impl TryFrom<PIn> for T{i} {{ type Error = String; fn try_from(_: PIn) -> Result<T{i}, String> {{ Ok(Gen::gen(&mut Rng(88172645463325252, true))) }} }}\n");
            }
            _ => {}
        }
        let end = s.lines().count() + 1;
        ranges.push((start, end));
    }
    let _ = write!(s, "\nfn main() {{\n    let seed: u64 = {value_seed}u64;\n");
    for i in 0..types.len() {
        let _ = write!(s, "    report::<T{i}>({i}, seed);\n");
    }
    s.push_str("}\n");
    (s, ranges)
}

const PRELUDE: &str = r#"// generated by /verif/engine (C16); do not edit
#![allow(dead_code, non_camel_case_types, unused_imports)]
use ohkami::openapi::Schema;
use serde::{Deserialize, Serialize};

pub struct Rng(u64, bool);
impl Rng {
    fn next(&mut self) -> u64 { let mut x = self.0; x ^= x << 13; x ^= x >> 7; x ^= x << 17; self.0 = x; x }
    fn pick(&mut self, n: usize) -> usize { (self.next() % n as u64) as usize }
}
pub trait Gen: Sized { fn gen(r: &mut Rng) -> Self; }
/// what a type with `#[serde(into = "POut")]` is written as, and what one with `from`/`try_from = "PIn"` is read from
#[derive(Debug, Clone, PartialEq, Serialize, Deserialize, Schema)]
pub struct POut { out_a: u32, out_b: String }
#[derive(Debug, Clone, PartialEq, Serialize, Deserialize, Schema)]
pub struct PIn { in_only: Vec<String> }
impl Gen for String { fn gen(r: &mut Rng) -> Self { if r.1 { ["a", "hello world", "ü/\"q\"", "0", "null"][r.pick(5)].to_string() } else { ["", "a", "hello world", "ü/\"q\"", "0", "null"][r.pick(6)].to_string() } } }
/// generic helper types: a struct whose name ends in "Option", another struct, a newtype
#[derive(Debug, Clone, PartialEq, Serialize, Deserialize, Schema)]
pub struct ShippingOption<C: Schema> { carrier: C, days: u8 }
#[derive(Debug, Clone, PartialEq, Serialize, Deserialize, Schema)]
pub struct Timed<T: Schema> { value: T, at: u64 }
#[derive(Debug, Clone, PartialEq, Serialize, Deserialize, Schema)]
pub struct PickOption<T: Schema>(T);
impl<T: Gen + Schema> Gen for ShippingOption<T> { fn gen(r: &mut Rng) -> Self { ShippingOption { carrier: T::gen(r), days: u8::gen(r) } } }
impl<T: Gen + Schema> Gen for Timed<T> { fn gen(r: &mut Rng) -> Self { Timed { value: T::gen(r), at: u64::gen(r) } } }
impl<T: Gen + Schema> Gen for PickOption<T> { fn gen(r: &mut Rng) -> Self { PickOption(T::gen(r)) } }
impl Gen for i8 { fn gen(r: &mut Rng) -> Self { [0i8, -1, 1, i8::MIN, i8::MAX][r.pick(5)] } }
impl Gen for i16 { fn gen(r: &mut Rng) -> Self { [0i16, -1, 300, i16::MIN, i16::MAX][r.pick(5)] } }
impl Gen for i32 { fn gen(r: &mut Rng) -> Self { [0i32, -1, 70000, i32::MIN, i32::MAX][r.pick(5)] } }
impl Gen for u16 { fn gen(r: &mut Rng) -> Self { [0u16, 1, 256, u16::MAX][r.pick(4)] } }
impl Gen for u64 { fn gen(r: &mut Rng) -> Self { [0u64, 1, 1 << 40, u64::MAX][r.pick(4)] } }
impl Gen for f32 { fn gen(r: &mut Rng) -> Self { [0.0f32, -1.5, 0.25, 3.0e10][r.pick(4)] } }
impl Gen for [u8; 3] { fn gen(r: &mut Rng) -> Self { [u8::gen(r), u8::gen(r), u8::gen(r)] } }
impl Gen for u8 { fn gen(r: &mut Rng) -> Self { [0u8, 1, 7, 255][r.pick(4)] } }
impl Gen for u32 { fn gen(r: &mut Rng) -> Self { [0u32, 1, 42, u32::MAX][r.pick(4)] } }
impl Gen for i64 { fn gen(r: &mut Rng) -> Self { [0i64, -1, 1 << 40, i64::MIN, i64::MAX][r.pick(5)] } }
impl Gen for f64 { fn gen(r: &mut Rng) -> Self { [0.0f64, -1.5, 1e10, 0.25][r.pick(4)] } }
impl<T: Gen> Gen for Option<T> { fn gen(r: &mut Rng) -> Self { if r.1 || r.pick(2) == 0 { Some(T::gen(r)) } else { None } } }
impl<T: Gen> Gen for Vec<T> { fn gen(r: &mut Rng) -> Self { let n = if r.1 { 1 + r.pick(2) } else { r.pick(3) }; (0..n).map(|_| T::gen(r)).collect() } }

fn report<T: Gen + Schema + Serialize + for<'de> Deserialize<'de>>(index: usize, seed: u64) {
    let r = std::panic::catch_unwind(|| {
        let schema = serde_json::to_value(&Into::<ohkami::openapi::schema::SchemaRef>::into(T::schema())).unwrap();
        let mut rng = Rng(seed.wrapping_mul(6364136223846793005).wrapping_add(index as u64 * 7919 + 1) | 1, false);
        let values: Vec<serde_json::Value> = (0..8).map(|_| serde_json::to_value(&T::gen(&mut rng)).unwrap_or(serde_json::json!({"__serde_error__": true}))).collect();
        rng.1 = true;
        let full: Vec<serde_json::Value> = (0..2).map(|_| serde_json::to_value(&T::gen(&mut rng)).unwrap_or(serde_json::json!({"__serde_error__": true}))).collect();
        // requiredness probe on the first full value: can serde read the object without key k?
        // (through the text form, as on the wire: `from_value` has readings of its own, e.g. `[]` for a tuple variant
        // without elements is handed to the visitor as a unit; and only when the complete object reads back at all)
        let mut omit_ok = serde_json::Map::new();
        if let Some(obj) = full[0].as_object() {
            if serde_json::from_str::<T>(&full[0].to_string()).is_ok() {
                for k in obj.keys() {
                    let mut o = obj.clone();
                    o.remove(k);
                    omit_ok.insert(k.clone(), serde_json::Value::Bool(serde_json::from_str::<T>(&serde_json::Value::Object(o).to_string()).is_ok()));
                }
            }
        }
        serde_json::json!({"t": index, "schema": schema, "values": values, "full": full, "omit_ok": omit_ok})
    });
    match r {
        Ok(v) => println!("{v}"),
        Err(e) => {
            let msg = e.downcast_ref::<String>().cloned().or_else(|| e.downcast_ref::<&str>().map(|s| s.to_string())).unwrap_or_default();
            println!("{}", serde_json::json!({"t": index, "panic": msg}));
        }
    }
}

"#;

// ---------------------------------------------------------------- feature summary of a type (for failure keys)

fn field_features(f: &FieldDef, out: &mut BTreeSet<String>) {
    if f.rename.is_some() {
        out.insert(if RENAMES[f.rename.unwrap() as usize].contains('-') { "field-rename-with-dash".into() } else { "field-rename".into() });
    }
    if f.skip {
        out.insert("skip".into());
    }
    if f.default {
        out.insert("default".into());
    }
    if f.skip_if_none || f.skip_if_empty {
        out.insert("skip_serializing_if".into());
    }
    if f.flatten {
        out.insert("flatten".into());
    }
    if matches!(f.ty, FTy::OptStr | FTy::OptU32 | FTy::OptVecU32 | FTy::OptRef(_) | FTy::OptGeneric { .. }) {
        out.insert("option-field".into());
    }
    if matches!(f.ty, FTy::Generic { .. } | FTy::OptGeneric { .. }) {
        out.insert("generic-helper-type".into());
    }
}
pub fn features(t: &TypeDef) -> BTreeSet<String> {
    let mut out = BTreeSet::new();
    if t.component {
        out.insert("component".into());
    }
    match &t.body {
        Body::Struct { fields, rename_all } => {
            out.insert("struct".into());
            if let Some(c) = rename_all {
                out.insert(format!("rename_all={}", CASES[*c as usize]));
            }
            fields.iter().for_each(|f| field_features(f, &mut out));
        }
        Body::Newtype(_) => {
            out.insert("newtype-struct".into());
        }
        Body::Tuple(_) => {
            out.insert("tuple-struct".into());
        }
        Body::TupleSkip { .. } => {
            out.insert("tuple-struct-with-skipped-element".into());
        }
        Body::Unit => {
            out.insert("unit-struct".into());
        }
        Body::UnitEnum { variants, rename_all, skip_de } => {
            out.insert("unit-enum".into());
            if !skip_de.is_empty() {
                out.insert("variant-skip_deserializing".into());
            }
            if let Some(c) = rename_all {
                out.insert(format!("variants-rename_all={}", CASES[*c as usize]));
            }
            if variants.iter().any(|v| v.1.is_some()) {
                out.insert(if variants.iter().any(|v| v.1.map_or(false, |r| RENAMES[r as usize].contains('-'))) { "variant-rename-with-dash".into() } else { "variant-rename".into() });
            }
        }
        Body::Enum { variants, tagging, rename_all, rename_all_fields } => {
            out.insert(format!("enum-{}", match tagging {
                Tagging::External => "externally-tagged",
                Tagging::Internal => "internally-tagged",
                Tagging::Adjacent => "adjacently-tagged",
                Tagging::Untagged => "untagged",
            }));
            if let Some(c) = rename_all {
                out.insert(format!("variants-rename_all={}", CASES[*c as usize]));
            }
            if let Some(c) = rename_all_fields {
                out.insert(format!("rename_all_fields={}", CASES[*c as usize]));
            }
            for v in variants {
                if v.rename.is_some() {
                    out.insert(if RENAMES[v.rename.unwrap() as usize].contains('-') { "variant-rename-with-dash".into() } else { "variant-rename".into() });
                }
                match &v.kind {
                    VKind::Unit => {
                        out.insert("unit-variant-in-data-enum".into());
                    }
                    VKind::Newtype(_) => {
                        out.insert("newtype-variant".into());
                    }
                    VKind::Struct(fields) => {
                        out.insert(if fields.is_empty() { "empty-struct-variant".into() } else { "struct-variant".into() });
                        fields.iter().for_each(|f| field_features(f, &mut out));
                    }
                    VKind::EmptyTuple => {
                        out.insert("empty-tuple-variant".into());
                    }
                    VKind::Tuple { skipped, .. } => {
                        out.insert(if skipped.is_some() { "tuple-variant-with-skipped-element".into() } else { "tuple-variant".into() });
                    }
                }
            }
        }
    }
    out
}

// ---------------------------------------------------------------- strategies

fn fty() -> impl Strategy<Value = FTy> {
    prop_oneof![
        3 => Just(FTy::Str),
        1 => Just(FTy::U8),
        2 => Just(FTy::U32),
        1 => Just(FTy::I64),
        1 => Just(FTy::F64),
        1 => Just(FTy::VecU32),
        1 => Just(FTy::VecStr),
        2 => Just(FTy::OptStr),
        1 => Just(FTy::OptU32),
        1 => Just(FTy::OptVecU32),
        2 => any::<u8>().prop_map(FTy::Ref),
        1 => any::<u8>().prop_map(FTy::OptRef),
        2 => prop::sample::select(vec![FTy::I8, FTy::I16, FTy::I32, FTy::U16, FTy::U64, FTy::F32, FTy::Arr3]),
        1 => (0u8..3, any::<u8>()).prop_map(|(which, arg)| FTy::Generic { which, arg }),
        1 => (0u8..3, any::<u8>()).prop_map(|(which, arg)| FTy::OptGeneric { which, arg }),
    ]
}
fn field() -> impl Strategy<Value = FieldDef> {
    (0u8..8, fty(), prop::option::weighted(0.2, 0u8..6), prop::bool::weighted(0.07), prop::bool::weighted(0.15), prop::bool::weighted(0.3), prop::bool::weighted(0.15), prop::bool::weighted(0.3)).prop_map(|(name, ty, rename, skip, default, skip_if_none, flatten, skip_if_empty)| FieldDef { name, ty, rename, skip, default, skip_if_none, flatten, skip_if_empty })
}
fn typedef() -> impl Strategy<Value = TypeDef> {
    let case = prop::option::weighted(0.5, 0u8..8);
    let variant = (0u8..6, prop::option::weighted(0.2, 0u8..6), prop_oneof![2 => Just(VKind::Unit), 2 => fty().prop_map(VKind::Newtype), 3 => vec(field(), 1..4).prop_map(VKind::Struct), 1 => Just(VKind::Struct(vec![])), 1 => Just(VKind::EmptyTuple), 2 => (vec(fty(), 2..=3), prop::option::weighted(0.3, 0u8..3)).prop_map(|(elems, skipped)| VKind::Tuple { elems, skipped })]).prop_map(|(name, rename, kind)| VariantDef { name, rename, kind });
    let tagging = prop_oneof![Just(Tagging::External), Just(Tagging::Internal), Just(Tagging::Adjacent), Just(Tagging::Untagged)];
    let body = prop_oneof![
        6 => (vec(field(), 0..6), case.clone()).prop_map(|(fields, rename_all)| Body::Struct { fields, rename_all }),
        1 => fty().prop_map(Body::Newtype),
        1 => vec(fty(), 2..4).prop_map(Body::Tuple),
        2 => (vec(fty(), 2..=3), 0u8..3, prop::option::weighted(0.4, 0u8..3)).prop_map(|(elems, skipped, also)| Body::TupleSkip { elems, skipped, also }),
        1 => Just(Body::Unit),
        2 => (vec((0u8..6, prop::option::weighted(0.2, 0u8..6)), 1..5), case.clone(), prop_oneof![3 => Just(vec![]), 1 => vec(0u8..5, 1..3)]).prop_map(|(variants, rename_all, skip_de)| Body::UnitEnum { variants, rename_all, skip_de }),
        4 => (vec(variant, 1..4), tagging, case.clone(), prop::option::weighted(0.25, 0u8..8)).prop_map(|(variants, tagging, rename_all, rename_all_fields)| Body::Enum { variants, tagging, rename_all, rename_all_fields }),
    ];
    (body, prop::bool::weighted(0.2), prop_oneof![12 => Just(0u8), 1 => Just(1u8), 1 => Just(2u8), 1 => Just(3u8)]).prop_map(|(body, component, proxy)| TypeDef { body, component, proxy })
}

// ---------------------------------------------------------------- compile & run

struct Externs {
    deps: String,
    ohkami: String,
    serde: String,
    serde_json: String,
}
fn externs() -> Result<Externs, String> {
    let p = verif_dir().join("target").join("typegen-base").join("externs.json");
    let v: serde_json::Value = serde_json::from_str(&std::fs::read_to_string(&p).map_err(|e| format!("{}: {e} (run ./check C16, which builds /verif/typegen first)", p.display()))?).map_err(|e| e.to_string())?;
    let g = |k: &str| v[k].as_str().map(|s| s.to_string()).ok_or(format!("externs.json lacks {k}"));
    Ok(Externs { deps: g("deps")?, ohkami: g("ohkami")?, serde: g("serde")?, serde_json: g("serde_json")? })
}

static PROG_NO: std::sync::atomic::AtomicU64 = std::sync::atomic::AtomicU64::new(0);

enum Compiled {
    Ok(std::path::PathBuf),
    /// (line, message) of every error
    Errors(Vec<(usize, String)>),
}

fn compile(src: &str, dir: &std::path::Path) -> Result<Compiled, String> {
    let ex = externs()?;
    std::fs::create_dir_all(dir).map_err(|e| e.to_string())?;
    let main = dir.join("main.rs");
    std::fs::write(&main, src).map_err(|e| e.to_string())?;
    let bin = dir.join("prog");
    let out = std::process::Command::new("rustc")
        .args(["--edition", "2021", "--error-format=json", "-A", "warnings", "-C", "debuginfo=0", "-C", "opt-level=0"])
        .arg(&main)
        .arg("-o")
        .arg(&bin)
        .arg("-L")
        .arg(format!("dependency={}", ex.deps))
        .args(["--extern", &format!("ohkami={}", ex.ohkami), "--extern", &format!("serde={}", ex.serde), "--extern", &format!("serde_json={}", ex.serde_json)])
        .output()
        .map_err(|e| format!("rustc: {e}"))?;
    if out.status.success() {
        return Ok(Compiled::Ok(bin));
    }
    let mut errs = Vec::new();
    for l in String::from_utf8_lossy(&out.stderr).lines() {
        let Ok(v) = serde_json::from_str::<serde_json::Value>(l) else { continue };
        if v["level"] != "error" {
            continue;
        }
        let msg = v["message"].as_str().unwrap_or("").to_string();
        if msg.starts_with("aborting due to") {
            continue;
        }
        let mut lines: Vec<usize> = Vec::new();
        fn spans(v: &serde_json::Value, out: &mut Vec<usize>) {
            if let Some(a) = v["spans"].as_array() {
                for s in a {
                    if let Some(l) = s["line_start"].as_u64() {
                        out.push(l as usize)
                    }
                    // macro expansions: the call site
                    let mut e = &s["expansion"];
                    while e.is_object() {
                        if let Some(l) = e["span"]["line_start"].as_u64() {
                            out.push(l as usize)
                        }
                        e = &e["span"]["expansion"];
                    }
                }
            }
        }
        spans(&v, &mut lines);
        if lines.is_empty() {
            errs.push((0, msg));
        } else {
            for l in lines {
                errs.push((l, msg.clone()));
            }
        }
    }
    if errs.is_empty() {
        return Err(format!("rustc failed without a diagnostic: {}", String::from_utf8_lossy(&out.stderr).chars().take(400).collect::<String>()));
    }
    Ok(Compiled::Errors(errs))
}

/// types that (transitively) reference a removed type are removed as well
fn drop_types(types: &[TypeDef], bad: &BTreeSet<usize>) -> Vec<Option<TypeDef>> {
    let mut keep: Vec<bool> = (0..types.len()).map(|i| !bad.contains(&i)).collect();
    fn refs(t: &TypeDef) -> Vec<usize> {
        let mut v = Vec::new();
        let mut f = |ft: &FTy| {
            if let FTy::Ref(k) | FTy::OptRef(k) = ft {
                v.push(*k as usize)
            }
            if let FTy::Generic { arg, .. } | FTy::OptGeneric { arg, .. } = ft {
                if *arg >= 2 {
                    v.push(*arg as usize - 2)
                }
            }
        };
        match &t.body {
            Body::Struct { fields, .. } => fields.iter().for_each(|x| f(&x.ty)),
            Body::Newtype(ft) => f(ft),
            Body::Tuple(fs) | Body::TupleSkip { elems: fs, .. } => fs.iter().for_each(|x| f(x)),
            Body::Enum { variants, .. } => variants.iter().for_each(|v| match &v.kind {
                VKind::Newtype(ft) => f(ft),
                VKind::Struct(fields) => fields.iter().for_each(|x| f(&x.ty)),
                VKind::Tuple { elems, .. } => elems.iter().for_each(|x| f(x)),
                _ => {}
            }),
            _ => {}
        }
        v
    }
    for i in 0..types.len() {
        if keep[i] && refs(&types[i]).iter().any(|k| !keep[*k]) {
            keep[i] = false
        }
    }
    types.iter().enumerate().map(|(i, t)| if keep[i] { Some(t.clone()) } else { None }).collect()
}

fn type_refs(t: &TypeDef) -> Vec<usize> {
    let mut v = Vec::new();
    let mut f = |ft: &FTy| {
        if let FTy::Ref(k) | FTy::OptRef(k) = ft {
            v.push(*k as usize)
        }
        if let FTy::Generic { arg, .. } | FTy::OptGeneric { arg, .. } = ft {
            if *arg >= 2 {
                v.push(*arg as usize - 2)
            }
        }
    };
    match &t.body {
        Body::Struct { fields, .. } => fields.iter().for_each(|x| f(&x.ty)),
        Body::Newtype(ft) => f(ft),
        Body::Tuple(fs) | Body::TupleSkip { elems: fs, .. } => fs.iter().for_each(|x| f(x)),
        Body::Enum { variants, .. } => variants.iter().for_each(|v| match &v.kind {
            VKind::Newtype(ft) => f(ft),
            VKind::Struct(fields) => fields.iter().for_each(|x| f(&x.ty)),
            VKind::Tuple { elems, .. } => elems.iter().for_each(|x| f(x)),
            _ => {}
        }),
        _ => {}
    }
    v
}

fn collect_refs(v: &serde_json::Value, out: &mut Vec<String>) {
    match v {
        serde_json::Value::Object(o) => {
            for (k, x) in o {
                if k == "$ref" {
                    if let Some(s) = x.as_str() {
                        out.push(s.to_string())
                    }
                }
                collect_refs(x, out);
            }
        }
        serde_json::Value::Array(a) => a.iter().for_each(|x| collect_refs(x, out)),
        _ => {}
    }
}

fn serde_keys_never_omitted(values: &[serde_json::Value], full: &[serde_json::Value], key: &str) -> bool {
    values.iter().chain(full).all(|v| v.as_object().map_or(true, |o| o.contains_key(key)))
}

impl Property for C16 {
    type Case = Case;
    const ID: &'static str = "C16";
    const RULE: &'static str = "generated programs: batches of 24 type definitions over the supported grammar — structs (named fields, newtype, tuple, unit) and enums (unit-only, externally/internally/adjacently tagged, untagged; unit, newtype, struct and tuple variants, a tuple element possibly #[serde(skip)] — also all but one of them) with fields of the scalar types that implement Schema (String, u8 u16 u32 u64 i8 i16 i32 i64 with MIN/MAX values, f32 f64, [u8; 3], Vec), references to earlier generated types, generic helper types over a simple argument (ShippingOption<A>, Timed<A>, the newtype PickOption<A>), Option, #[serde(rename, rename_all = each of the 8 cases, rename_all_fields, skip, default, skip_serializing_if, flatten, tag, content, untagged)], #[openapi(component)]; field and variant names chosen so that every case rule gives a different result (multi-word, digits, acronyms, single letters). Each batch is compiled with rustc against ohkami/serde built from /repo and run; a definition the derive rejects is recorded and removed (with its dependents), then the batch is recompiled. Oracle per type on 10 generated values: keys of serde_json::to_value over full values = the schema's property names; required(k) ⇔ serde never omits k when writing and cannot read an object without k; every serialised value validates against the schema (Python jsonschema sidecar, nullable honoured). Non-trivial type = carries at least one serde attribute or is an enum; distinct by definition.";
    const ASSUMPTIONS: &'static [&'static str] = &[
        "the batch compiles with serde alone (normalisation keeps serde's own restrictions: flatten only over structs, internally tagged newtype variants wrap structs, skipped fields are Default)",
        "attribute combinations outside the grammar (serde(with), generics, lifetimes) are not covered",
        "a failure key is the check kind plus the serde features of the blamed definition (field-level where the sidecar names the property)",
    ];

    fn new(_: Tier) -> Self {
        C16 { sidecar: RefCell::new(None) }
    }
    fn n_cases(&self, tier: Tier) -> u64 {
        tier.pick(168, 5600)
    }
    fn chunk(&self, _tier: Tier) -> u64 {
        4
    }
    fn hang_secs(&self) -> u64 {
        300
    }
    fn shrink_budget(&self) -> (u32, u32) {
        (12, 60)
    }
    fn fail_fast(&self) -> bool {
        true
    }
    fn in_domain(&self, case: &Case) -> bool {
        let mut t = case.types.clone();
        normalise(&mut t);
        t == case.types
    }
    fn strategy(&self, _tier: Tier) -> BoxedStrategy<Case> {
        (vec(typedef(), 24), any::<u64>())
            .prop_map(|(mut types, value_seed)| {
                normalise(&mut types);
                Case { types, value_seed }
            })
            .boxed()
    }

    fn check(&self, case: &Case, obs: &mut Obs) {
        if !self.in_domain(case) || case.types.is_empty() {
            obs.label("out-of-domain");
            return;
        }
        let no = PROG_NO.fetch_add(1, std::sync::atomic::Ordering::SeqCst);
        let dir = verif_dir().join("target").join("typegen-scratch").join(format!("p{}-{no}", std::process::id()));
        let cleanup = || {
            if std::env::var("VERIF_KEEP_SCRATCH").is_err() {
                let _ = std::fs::remove_dir_all(&dir);
            }
        };
        // compile, dropping what the derive rejects (≤ 4 rounds)
        let mut live: Vec<Option<TypeDef>> = case.types.iter().cloned().map(Some).collect();
        let mut bin = None;
        let mut index_map: Vec<usize> = Vec::new(); // position in the compiled program → original index
        for _round in 0..5 {
            // re-number the live types densely (references are re-pointed)
            let mut dense: Vec<TypeDef> = Vec::new();
            let mut new_index: BTreeMap<usize, usize> = BTreeMap::new();
            index_map.clear();
            for (i, t) in live.iter().enumerate() {
                if let Some(t) = t {
                    let mut t = t.clone();
                    let remap = |ft: &mut FTy, new_index: &BTreeMap<usize, usize>| {
                        if let FTy::Ref(k) | FTy::OptRef(k) = ft {
                            *k = new_index[&(*k as usize)] as u8
                        }
                        if let FTy::Generic { arg, .. } | FTy::OptGeneric { arg, .. } = ft {
                            if *arg >= 2 {
                                *arg = new_index[&(*arg as usize - 2)] as u8 + 2
                            }
                        }
                    };
                    match &mut t.body {
                        Body::Struct { fields, .. } => fields.iter_mut().for_each(|f| remap(&mut f.ty, &new_index)),
                        Body::Newtype(ft) => remap(ft, &new_index),
                        Body::Tuple(fs) | Body::TupleSkip { elems: fs, .. } => fs.iter_mut().for_each(|f| remap(f, &new_index)),
                        Body::Enum { variants, .. } => variants.iter_mut().for_each(|v| match &mut v.kind {
                            VKind::Newtype(ft) => remap(ft, &new_index),
                            VKind::Struct(fields) => fields.iter_mut().for_each(|f| remap(&mut f.ty, &new_index)),
                            VKind::Tuple { elems, .. } => elems.iter_mut().for_each(|f| remap(f, &new_index)),
                            _ => {}
                        }),
                        _ => {}
                    }
                    new_index.insert(i, dense.len());
                    index_map.push(i);
                    dense.push(t);
                }
            }
            if dense.is_empty() {
                break;
            }
            let (src, ranges) = codegen(&dense, case.value_seed);
            match compile(&src, &dir) {
                Err(e) => {
                    obs.fail("HARNESS-BUG c16-compile", e);
                    cleanup();
                    return;
                }
                Ok(Compiled::Ok(b)) => {
                    bin = Some(b);
                    break;
                }
                Ok(Compiled::Errors(errs)) => {
                    let mut bad: BTreeSet<usize> = BTreeSet::new();
                    for (line, msg) in &errs {
                        // a dependent of a rejected type fails with "the trait bound `Tn: Schema` is not satisfied": a
                        // cascade, not a rejection of its own (dependents are dropped together with the rejected type)
                        let cascade = msg.contains("ohkami::openapi::Schema` is not satisfied") && msg.contains("`T");
                        match ranges.iter().position(|(a, b)| line >= a && line < b) {
                            Some(pos) => {
                                if cascade {
                                    continue;
                                }
                                let orig = index_map[pos];
                                if bad.insert(orig) {
                                    // A definition the derive refuses at compile time has no derived schema: the property does
                                    // not speak about it. Counted (by the features that usually matter) so that it stays visible.
                                    let feats = features(&case.types[orig]);
                                    let blame: Vec<&String> = feats.iter().filter(|f| f.contains("flatten") || f.contains("-with-dash") || f.contains("kebab") || f.contains("KEBAB")).collect();
                                    let tag = if blame.is_empty() { "other".to_string() } else { blame.iter().map(|s| s.as_str()).collect::<Vec<_>>().join("+") };
                                    obs.labels.push(leak_label(&format!("derive-rejects:{tag}")));
                                    obs.excluded.push(leak_label(&format!("derive-rejects:{}", if msg.contains("panicked") { "macro-panic" } else { "type-error" })));
                                }
                            }
                            None => {
                                if !cascade {
                                    obs.fail("HARNESS-BUG c16-generated-code", format!("line {line}: {msg}"));
                                    cleanup();
                                    return;
                                }
                            }
                        }
                    }
                    if bad.is_empty() {
                        obs.fail("HARNESS-BUG c16-generated-code", format!("compile errors could not be attributed: {:?}", errs.iter().take(3).collect::<Vec<_>>()));
                        cleanup();
                        return;
                    }
                    live = drop_types(&case.types, &(0..case.types.len()).filter(|i| live[*i].is_none() || bad.contains(i)).collect());
                }
            }
        }
        let Some(bin) = bin else {
            cleanup();
            return;
        };
        let out = match std::process::Command::new(&bin).output() {
            Ok(o) => o,
            Err(e) => {
                obs.fail("HARNESS-BUG c16-run", e.to_string());
                cleanup();
                return;
            }
        };
        cleanup();
        let text = String::from_utf8_lossy(&out.stdout);
        let mut any_nontrivial = false;
        // a type that contains a type with a deviation inherits it: report every root cause at its origin only
        let mut deviating: BTreeSet<usize> = BTreeSet::new();
        let component_names: BTreeSet<String> = (0..case.types.len()).map(|i| format!("T{i}")).collect();
        for line in text.lines() {
            let Ok(r) = serde_json::from_str::<serde_json::Value>(line) else { continue };
            let pos = r["t"].as_u64().unwrap_or(0) as usize;
            let Some(&orig) = index_map.get(pos) else { continue };
            let def = &case.types[orig];
            let feats = features(def);
            obs.evals += 1;
            let nontrivial = feats.iter().any(|f| !matches!(f.as_str(), "struct" | "newtype-struct" | "tuple-struct" | "unit-struct"));
            if nontrivial {
                any_nontrivial = true;
                obs.sub_digests.push(fnv(format!("{def:?}").as_bytes()));
            }
            for f in &feats {
                if f.starts_with("enum-") || f.starts_with("rename_all") || f.starts_with("variants-rename_all") || f == "flatten" || f == "unit-enum" {
                    obs.labels.push(leak_label(f));
                }
            }
            if type_refs(def).iter().any(|k| deviating.contains(k)) {
                deviating.insert(orig);
                obs.labels.push("contains-a-deviating-type");
                continue;
            }
            let mut failed_here = false;
            let body_kind = match &def.body {
                Body::Struct { .. } => "struct".to_string(),
                Body::Newtype(_) => "newtype-struct".to_string(),
                Body::Tuple(_) | Body::TupleSkip { .. } => "tuple-struct".to_string(),
                Body::Unit => "unit-struct".to_string(),
                Body::UnitEnum { .. } => "unit-enum".to_string(),
                Body::Enum { tagging, .. } => format!("enum-{}", match tagging {
                    Tagging::External => "externally-tagged",
                    Tagging::Internal => "internally-tagged",
                    Tagging::Adjacent => "adjacently-tagged",
                    Tagging::Untagged => "untagged",
                }),
            };
            let variant_case = feats.iter().find(|f| f.starts_with("variants-rename_all=")).map(|f| f.trim_start_matches("variants-rename_all=").to_string());
            if let Some(p) = r.get("panic") {
                obs.fail(format!("schema-panics:{body_kind}"), format!("type #{orig}: Schema::schema() panicked: {p}; definition {def:?}"));
                deviating.insert(orig);
                continue;
            }
            let schema = &r["schema"];
            let values: Vec<serde_json::Value> = r["values"].as_array().cloned().unwrap_or_default();
            let full: Vec<serde_json::Value> = r["full"].as_array().cloned().unwrap_or_default();
            if values.iter().chain(&full).any(|v| v.get("__serde_error__").is_some()) {
                obs.label("serde-refuses-value");
                continue;
            }
            // a `$ref` that names no component of the batch: the derive turned a string (the tag) into a reference
            let mut refs = Vec::new();
            collect_refs(schema, &mut refs);
            if let Some(bad) = refs.iter().find(|r| !r.strip_prefix("#/components/schemas/").map_or(false, |n| component_names.contains(n))) {
                obs.fail(format!("dangling-ref:{body_kind}"), format!("type #{orig}: the schema refers to {bad:?}, which is no component (a tag/variant name emitted as a $ref?); schema {schema}; definition {def:?}"));
                deviating.insert(orig);
                continue;
            }
            // (1)+(2) for structs with named fields
            // (a type written through a proxy is described by the proxy's shape: only the validation of the written values
            // in (3) applies to it)
            if def.proxy != 0 {
                obs.label("serde-proxy-type");
            }
            if let (Body::Struct { fields, rename_all }, 0) = (&def.body, def.proxy) {
                let props: BTreeSet<String> = schema["properties"].as_object().map(|o| o.keys().cloned().collect()).unwrap_or_default();
                let keys: BTreeSet<String> = full.iter().filter_map(|v| v.as_object()).flat_map(|o| o.keys().cloned()).collect();
                if props != keys {
                    let cause = if fields.iter().any(|f| f.flatten) {
                        "flatten".to_string()
                    } else if let Some(c) = rename_all {
                        format!("rename_all={}", CASES[*c as usize])
                    } else if fields.iter().any(|f| f.rename.is_some()) {
                        "field-rename".to_string()
                    } else {
                        "plain".to_string()
                    };
                    failed_here = true;
                    obs.fail(format!("property-names:{cause}"), format!("type #{orig}: schema properties {props:?}, serde writes keys {keys:?}; definition {def:?}"));
                } else {
                    let required: BTreeSet<String> = schema["required"].as_array().map(|a| a.iter().filter_map(|x| x.as_str().map(|s| s.to_string())).collect()).unwrap_or_default();
                    for k in &keys {
                        // no probe: the complete object does not read back (untagged enums inside, …) — no verdict on requiredness
                        let Some(omit_ok) = r["omit_ok"][k].as_bool() else {
                            obs.label("requiredness-not-probed");
                            continue;
                        };
                        let never_omitted = serde_keys_never_omitted(&values, &full, k);
                        let must_be_required = never_omitted && !omit_ok;
                        let may_be_optional = !never_omitted || omit_ok;
                        let is_req = required.contains(k);
                        if is_req && !must_be_required || !is_req && !may_be_optional {
                            // which field writes this key? (ask serde's own renaming through the model of the 8 case rules is
                            // what is under test, so match loosely: letters and digits only)
                            let norm = |s: &str| s.chars().filter(|c| c.is_alphanumeric()).collect::<String>().to_lowercase();
                            // a field with skip_serializing_if *can* be omitted by serde, whether or not one of the sampled
                            // values happened to show it
                            let skippable = fields.iter().any(|f| (f.skip_if_none || f.skip_if_empty) && norm(f.rename.map(|r| RENAMES[r as usize]).unwrap_or(FIELD_NAMES[f.name as usize])) == norm(k));
                            if skippable && !is_req {
                                continue;
                            }
                            let mut ff = BTreeSet::new();
                            for f in fields {
                                let written = f.rename.map(|r| RENAMES[r as usize]).unwrap_or(FIELD_NAMES[f.name as usize]);
                                if norm(written) == norm(k) {
                                    field_features(f, &mut ff);
                                }
                            }
                            ff.retain(|x| matches!(x.as_str(), "default" | "skip_serializing_if" | "option-field" | "flatten"));
                            let cause = if ff.is_empty() { "plain-field".to_string() } else { ff.into_iter().collect::<Vec<_>>().join("+") };
                            failed_here = true;
                            obs.fail(format!("required:{}:{cause}", if is_req { "listed-but-serde-can-omit-or-default" } else { "not-listed-but-serde-needs-and-always-writes" }), format!("type #{orig} key {k:?}: schema required = {is_req}; serde never omits it when writing = {never_omitted}; serde reads an object without it = {omit_ok}; definition {def:?}"));
                        }
                    }
                }
            }
            // unit enums: the enumerated strings are what serde writes
            if let (Body::UnitEnum { variants, .. }, 0) = (&def.body, def.proxy) {
                let en: BTreeSet<String> = schema["enum"].as_array().map(|a| a.iter().filter_map(|x| x.as_str().map(|s| s.to_string())).collect()).unwrap_or_default();
                let written: BTreeSet<String> = values.iter().chain(&full).filter_map(|v| v.as_str().map(|s| s.to_string())).collect();
                if !written.is_subset(&en) {
                    let cause = match (&variant_case, variants.iter().any(|v| v.1.is_some())) {
                        (Some(c), _) => format!("variants-rename_all={c}"),
                        (None, true) => "variant-rename".to_string(),
                        _ => "plain".to_string(),
                    };
                    failed_here = true;
                    obs.fail(format!("enum-values:{cause}"), format!("type #{orig}: serde writes {written:?}, the schema enumerates {en:?}; definition {def:?}"));
                }
            }
            // (3) every serialised value validates
            if !failed_here {
                let mut sc = self.sidecar.borrow_mut();
                if sc.is_none() {
                    match Sidecar::spawn() {
                        Ok(s) => *sc = Some(s),
                        Err(e) => {
                            obs.fail("HARNESS-BUG sidecar", e);
                            return;
                        }
                    }
                }
                let instances: Vec<&serde_json::Value> = values.iter().chain(&full).collect();
                match sc.as_mut().unwrap().call(&serde_json::json!({"op": "validate", "schema": schema, "instances": instances, "components": {}})) {
                    Ok(errs) => {
                        if let Some((i, msg)) = errs.first() {
                            let kind = if *i < 0 {
                                "schema-unusable"
                            } else if msg.starts_with("None is not") {
                                "null-not-allowed"
                            } else if msg.contains("is a required property") {
                                "required-property-missing"
                            } else if msg.contains("is not of type") {
                                "wrong-type"
                            } else if msg.contains("is not valid under any of the given schemas") {
                                "no-oneOf-alternative-matches"
                            } else if msg.contains("is valid under each of") {
                                "several-oneOf-alternatives-match"
                            } else if msg.contains("is not one of") {
                                "not-in-enum"
                            } else {
                                "other"
                            };
                            // the cause, as far as the definition shows it
                            let has_unit_variant = feats.contains("unit-variant-in-data-enum");
                            let cause = match &def.body {
                                Body::Enum { .. } => {
                                    let mut c = body_kind.clone();
                                    if has_unit_variant && matches!(kind, "wrong-type" | "no-oneOf-alternative-matches" | "null-not-allowed") {
                                        c.push_str("+unit-variant");
                                    } else if let Some(vc) = &variant_case {
                                        c.push_str(&format!("+variants-rename_all={vc}"));
                                    } else if feats.contains("variant-rename") {
                                        c.push_str("+variant-rename");
                                    }
                                    if let Some(f) = feats.iter().find(|f| f.starts_with("rename_all_fields=")) {
                                        if kind == "required-property-missing" {
                                            c.push_str(&format!("+{f}"));
                                        }
                                    }
                                    c
                                }
                                _ => body_kind.clone(),
                            };
                            failed_here = true;
                            obs.fail(format!("instance-invalid:{kind}:{cause}"), format!("type #{orig}: serde writes {} which does not validate: {msg}; schema {schema}; definition {def:?}", instances[(*i).max(0) as usize]));
                        }
                    }
                    Err(e) => obs.fail("HARNESS-BUG sidecar", e),
                }
            }
            if failed_here {
                deviating.insert(orig);
            }
        }
        obs.nontrivial = any_nontrivial;
    }
}

fn leak_label(s: &str) -> &'static str {
    use std::sync::Mutex;
    static TABLE: Mutex<BTreeMap<String, &'static str>> = Mutex::new(BTreeMap::new());
    let mut t = TABLE.lock().unwrap();
    if let Some(v) = t.get(s) {
        return v;
    }
    let l: &'static str = Box::leak(s.to_string().into_boxed_str());
    t.insert(s.to_string(), l);
    l
}
