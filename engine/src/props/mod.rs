pub mod c01;
pub mod c03;
pub mod c20;
