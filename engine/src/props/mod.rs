pub mod c20;
