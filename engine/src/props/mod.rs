pub mod c01;
pub mod c02;
pub mod c03;
pub mod c04;
pub mod c14;
pub mod c19;
pub mod c20;
