pub mod c01;
pub mod c20;
