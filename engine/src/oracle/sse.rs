//! Independent WHATWG event-stream parser (HTML Living Standard §9.2.6), written from the spec.

#[derive(Debug, Clone, PartialEq, Default)]
pub struct Event {
    pub data: String,
    pub event: String,
    pub id: Option<String>,
    pub retry: Option<String>,
}

#[derive(Debug, Default)]
pub struct Parsed {
    pub events: Vec<Event>,
    /// fields that are neither data/event/id/retry nor comments
    pub unknown_fields: Vec<String>,
    /// bytes after the last blank line (an unterminated event)
    pub trailing_incomplete: bool,
}

pub fn parse(stream: &str) -> Parsed {
    let s = stream.strip_prefix('\u{feff}').unwrap_or(stream);
    // lines end with CRLF, LF or CR
    let mut lines: Vec<&str> = Vec::new();
    let b = s.as_bytes();
    let mut start = 0;
    let mut i = 0;
    let mut ended_with_terminator = true;
    while i < b.len() {
        if b[i] == b'\r' {
            lines.push(&s[start..i]);
            i += if b.get(i + 1) == Some(&b'\n') { 2 } else { 1 };
            start = i;
        } else if b[i] == b'\n' {
            lines.push(&s[start..i]);
            i += 1;
            start = i;
        } else {
            i += 1;
        }
    }
    if start < b.len() {
        lines.push(&s[start..]);
        ended_with_terminator = false;
    }
    let mut out = Parsed::default();
    let mut data = String::new();
    let mut has_data = false;
    let mut event = String::new();
    let mut id: Option<String> = None;
    let mut retry: Option<String> = None;
    let mut dirty = false;
    for line in lines {
        if line.is_empty() {
            // dispatch
            if has_data {
                let mut d = std::mem::take(&mut data);
                if d.ends_with('\n') {
                    d.pop();
                }
                out.events.push(Event { data: d, event: std::mem::take(&mut event), id: id.clone(), retry: retry.take() });
            } else {
                data.clear();
                event.clear();
            }
            has_data = false;
            dirty = false;
            continue;
        }
        dirty = true;
        if line.starts_with(':') {
            continue;
        }
        let (field, value) = match line.find(':') {
            Some(c) => {
                let v = &line[c + 1..];
                (&line[..c], v.strip_prefix(' ').unwrap_or(v))
            }
            None => (line, ""),
        };
        match field {
            "data" => {
                data.push_str(value);
                data.push('\n');
                has_data = true;
            }
            "event" => event = value.to_string(),
            "id" => {
                if !value.contains('\0') {
                    id = Some(value.to_string())
                }
            }
            "retry" => retry = Some(value.to_string()),
            other => out.unknown_fields.push(other.to_string()),
        }
    }
    out.trailing_incomplete = dirty || !ended_with_terminator;
    out
}

/// what the client must see for a message: line breaks normalised to LF
pub fn normalise(msg: &str) -> String {
    msg.replace("\r\n", "\n").replace('\r', "\n")
}
