//! Independent IMF-fixdate rendering (civil-from-days, Howard Hinnant's algorithm).

pub fn civil_from_days(z: i64) -> (i64, u32, u32) {
    let z = z + 719468;
    let era = if z >= 0 { z } else { z - 146096 } / 146097;
    let doe = (z - era * 146097) as u64; // [0, 146096]
    let yoe = (doe - doe / 1460 + doe / 36524 - doe / 146096) / 365; // [0, 399]
    let y = yoe as i64 + era * 400;
    let doy = doe - (365 * yoe + yoe / 4 - yoe / 100); // [0, 365]
    let mp = (5 * doy + 2) / 153; // [0, 11]
    let d = (doy - (153 * mp + 2) / 5 + 1) as u32; // [1, 31]
    let m = if mp < 10 { mp + 3 } else { mp - 9 } as u32; // [1, 12]
    (if m <= 2 { y + 1 } else { y }, m, d)
}

const WD: [&str; 7] = ["Sun", "Mon", "Tue", "Wed", "Thu", "Fri", "Sat"];
const MON: [&str; 12] = ["Jan", "Feb", "Mar", "Apr", "May", "Jun", "Jul", "Aug", "Sep", "Oct", "Nov", "Dec"];

pub fn imf_fixdate(ts: u64) -> String {
    let days = (ts / 86400) as i64;
    let sod = ts % 86400;
    let (y, m, d) = civil_from_days(days);
    let wd = WD[((days + 4) % 7) as usize];
    format!("{wd}, {d:02} {} {y:04} {:02}:{:02}:{:02} GMT", MON[(m - 1) as usize], sod / 3600, (sod / 60) % 60, sod % 60)
}
