//! Reference route matching over the flattened route table (independent of any tree shape and of
//! registration order). Computes the four readings A/B × best/greedy described in DESIGN.md §7 C01.

use crate::harness::app::{Flat, FlatRoute, Seg, M};

#[derive(Debug, Clone, PartialEq)]
pub enum Expect {
    /// index into `Flat::routes`, raw captured segments in order
    Hit(usize, Vec<Vec<u8>>),
    Miss,
}

/// Normalise a request target's path: strip one trailing slash, split into segments.
/// `None`: some segment is empty (matches nothing) or the path does not start with `/`.
pub fn split_path(raw: &[u8]) -> Option<Vec<&[u8]>> {
    if raw.first() != Some(&b'/') {
        return None;
    }
    let raw = if raw.last() == Some(&b'/') { &raw[..raw.len() - 1] } else { raw };
    if raw.is_empty() {
        return Some(vec![]);
    }
    let segs: Vec<&[u8]> = raw[1..].split(|b| *b == b'/').collect();
    if segs.iter().any(|s| s.is_empty()) {
        return None;
    }
    Some(segs)
}

fn seg_matches(p: &Seg, s: &[u8]) -> bool {
    match p {
        Seg::S(lit) => lit.as_bytes() == s,
        Seg::P(_) => !s.is_empty(),
    }
}
fn route_matches(p: &[Seg], req: &[&[u8]]) -> bool {
    p.len() == req.len() && p.iter().zip(req).all(|(p, s)| seg_matches(p, s))
}
fn captures(p: &[Seg], req: &[&[u8]]) -> Vec<Vec<u8>> {
    p.iter().zip(req).filter(|(p, _)| p.is_param()).map(|(_, s)| s.to_vec()).collect()
}
/// `a` is preferred to `b` ("static beats param" at the first position where they differ)
fn better(a: &[Seg], b: &[Seg]) -> bool {
    for (x, y) in a.iter().zip(b) {
        match (x.is_param(), y.is_param()) {
            (false, true) => return true,
            (true, false) => return false,
            _ => {}
        }
    }
    false
}

fn best<'a>(cands: impl Iterator<Item = &'a [Seg]>, req: &[&[u8]]) -> Option<&'a [Seg]> {
    let mut best: Option<&[Seg]> = None;
    for c in cands {
        if route_matches(c, req) {
            best = match best {
                None => Some(c),
                Some(b) => Some(if better(c, b) { c } else { b }),
            }
        }
    }
    best
}

/// Greedy walk: commit to the static alternative whenever one exists at a position.
fn greedy<'a>(patterns: &[&'a [Seg]], req: &[&[u8]]) -> Vec<&'a [Seg]> {
    let mut node: Vec<&[Seg]> = patterns.to_vec();
    for (i, s) in req.iter().enumerate() {
        let statics: Vec<&[Seg]> = node.iter().copied().filter(|p| p.len() > i && matches!(&p[i], Seg::S(l) if l.as_bytes() == *s)).collect();
        if !statics.is_empty() {
            node = statics;
            continue;
        }
        let params: Vec<&[Seg]> = node.iter().copied().filter(|p| p.len() > i && p[i].is_param()).collect();
        if !params.is_empty() && !s.is_empty() {
            node = params;
            continue;
        }
        return vec![];
    }
    node.into_iter().filter(|p| p.len() == req.len()).collect()
}

fn find_route(flat: &Flat, pattern: &[Seg], m: M) -> Option<usize> {
    flat.routes.iter().position(|r| r.method == m && crate::harness::app::unify_eq(&r.segs, pattern))
}

pub struct Readings {
    pub a_best: Expect,
    pub a_greedy: Expect,
    pub b_best: Expect,
    pub b_greedy: Expect,
}
impl Readings {
    pub fn all(&self) -> [&Expect; 4] {
        [&self.a_best, &self.a_greedy, &self.b_best, &self.b_greedy]
    }
    pub fn decided(&self) -> Option<&Expect> {
        if self.a_best == self.a_greedy && self.a_best == self.b_best && self.a_best == self.b_greedy {
            Some(&self.a_best)
        } else {
            None
        }
    }
}

/// `method` must already be mapped (HEAD → GET). OPTIONS/unknown: no route can be registered → Miss.
pub fn expect(flat: &Flat, method: M, raw_path: &[u8]) -> Readings {
    let miss = || Readings { a_best: Expect::Miss, a_greedy: Expect::Miss, b_best: Expect::Miss, b_greedy: Expect::Miss };
    let Some(req) = split_path(raw_path) else { return miss() };
    let of_method: Vec<&FlatRoute> = flat.routes.iter().filter(|r| r.method == method).collect();
    let hit = |pattern: Option<&[Seg]>| -> Expect {
        match pattern.and_then(|p| find_route(flat, p, method).map(|i| (i, p))) {
            Some((i, _)) => Expect::Hit(i, captures(&flat.routes[i].segs, &req)),
            None => Expect::Miss,
        }
    };
    // A: only the routes registered for the request's method
    let a_pats: Vec<&[Seg]> = of_method.iter().map(|r| r.segs.as_slice()).collect();
    let a_best = hit(best(a_pats.iter().copied(), &req));
    let a_greedy = hit(greedy(&a_pats, &req).first().copied());
    // B: every route of every method and every mount prefix; the method is looked up on the route found
    let all_routes: Vec<&[Seg]> = flat.routes.iter().map(|r| r.segs.as_slice()).collect();
    let b_best = hit(best(all_routes.iter().copied(), &req));
    let mut b_pats = all_routes.clone();
    for a in &flat.apps {
        b_pats.push(a.prefix.as_slice());
    }
    let b_greedy = {
        let ends = greedy(&b_pats, &req);
        // among the patterns ending here, one that is a route with this method
        let mut e = Expect::Miss;
        for p in ends {
            if let Some(i) = find_route(flat, p, method) {
                e = Expect::Hit(i, captures(&flat.routes[i].segs, &req));
                break;
            }
        }
        e
    };
    Readings { a_best, a_greedy, b_best, b_greedy }
}
