//! Independent, strict HTTP/1.1 message parsers used as oracles.

#[derive(Debug, Clone, PartialEq)]
pub struct ParsedResponse {
    pub status: u16,
    pub reason: String,
    /// header lines in wire order, names as written, values with optional whitespace trimmed
    pub headers: Vec<(String, String)>,
    pub body: Vec<u8>,
    /// total number of bytes this message occupies
    pub consumed: usize,
    pub chunked: bool,
}
impl ParsedResponse {
    pub fn get_all(&self, name: &str) -> Vec<&str> {
        self.headers.iter().filter(|(n, _)| n.eq_ignore_ascii_case(name)).map(|(_, v)| v.as_str()).collect()
    }
    pub fn get(&self, name: &str) -> Option<&str> {
        self.get_all(name).first().copied()
    }
}

fn is_tchar(b: u8) -> bool {
    b.is_ascii_alphanumeric() || b"!#$%&'*+-.^_`|~".contains(&b)
}

fn find(hay: &[u8], needle: &[u8]) -> Option<usize> {
    hay.windows(needle.len()).position(|w| w == needle)
}

/// Parse exactly one response at the start of `bytes`. `head_only`: the request was HEAD (no body follows
/// whatever the headers say). A response to be delimited by connection close is an error here:
/// the statement demands that the client can find the end without waiting for close.
pub fn parse_response(bytes: &[u8], head_only: bool) -> Result<ParsedResponse, String> {
    let head_end = find(bytes, b"\r\n\r\n").ok_or("no blank line terminating the head")?;
    let head = &bytes[..head_end];
    let mut line_list: Vec<&[u8]> = Vec::new();
    {
        let mut rest = head;
        loop {
            match find(rest, b"\r\n") {
                Some(i) => {
                    line_list.push(&rest[..i]);
                    rest = &rest[i + 2..];
                }
                None => {
                    line_list.push(rest);
                    break;
                }
            }
        }
    }
    if line_list.iter().any(|l| l.contains(&b'\n') || l.contains(&b'\r')) {
        return Err("bare CR or LF inside the head".into());
    }
    let mut lines = line_list.into_iter();
    let status_line = lines.next().ok_or("empty head")?;
    let sl = std::str::from_utf8(status_line).map_err(|_| "status line is not UTF-8")?;
    let rest = sl.strip_prefix("HTTP/1.1 ").ok_or_else(|| format!("status line does not start with `HTTP/1.1 `: {sl:?}"))?;
    if rest.len() < 3 || !rest.as_bytes()[..3].iter().all(|b| b.is_ascii_digit()) {
        return Err(format!("no 3-digit status code: {sl:?}"));
    }
    let status: u16 = rest[..3].parse().unwrap();
    let reason = match &rest[3..] {
        "" => String::new(),
        r if r.starts_with(' ') => r[1..].to_string(),
        _ => return Err(format!("garbage after the status code: {sl:?}")),
    };
    let mut headers = Vec::new();
    for l in lines {
        let colon = l.iter().position(|b| *b == b':').ok_or_else(|| format!("header line without colon: {:?}", String::from_utf8_lossy(l)))?;
        let (name, value) = (&l[..colon], &l[colon + 1..]);
        if name.is_empty() || !name.iter().all(|b| is_tchar(*b)) {
            return Err(format!("invalid header name: {:?}", String::from_utf8_lossy(name)));
        }
        let value = std::str::from_utf8(value).map_err(|_| "header value is not UTF-8")?;
        if value.bytes().any(|b| b == 0 || b == b'\n') {
            return Err("NUL/LF in header value".into());
        }
        headers.push((String::from_utf8(name.to_vec()).unwrap(), value.trim_matches(|c| c == ' ' || c == '\t').to_string()));
    }
    let body_start = head_end + 4;
    let mut pr = ParsedResponse { status, reason, headers, body: vec![], consumed: body_start, chunked: false };
    let no_body_status = (100..200).contains(&status) || status == 204 || status == 304;
    if head_only || no_body_status {
        return Ok(pr);
    }
    let te = pr.get_all("Transfer-Encoding");
    let cl = pr.get_all("Content-Length");
    if !te.is_empty() {
        if te.len() != 1 || !te[0].eq_ignore_ascii_case("chunked") {
            return Err(format!("unsupported Transfer-Encoding {te:?}"));
        }
        if !cl.is_empty() {
            return Err("both Transfer-Encoding and Content-Length".into());
        }
        let (body, used) = dechunk(&bytes[body_start..])?;
        pr.body = body;
        pr.consumed = body_start + used;
        pr.chunked = true;
        return Ok(pr);
    }
    if cl.is_empty() {
        return Err("a response that may carry a body has neither Content-Length nor chunked coding: its end cannot be determined".into());
    }
    if cl.len() != 1 {
        return Err(format!("Content-Length appears {} times", cl.len()));
    }
    if cl[0].is_empty() || !cl[0].bytes().all(|b| b.is_ascii_digit()) {
        return Err(format!("Content-Length is not a number: {:?}", cl[0]));
    }
    let n: usize = cl[0].parse().map_err(|_| "Content-Length overflows")?;
    if bytes.len() < body_start + n {
        return Err(format!("Content-Length {n} but only {} body bytes follow", bytes.len() - body_start));
    }
    pr.body = bytes[body_start..body_start + n].to_vec();
    pr.consumed = body_start + n;
    Ok(pr)
}

/// Strict chunked-coding decoder: `hex-size CRLF data CRLF … 0 CRLF CRLF`. Returns (payload, bytes used).
pub fn dechunk(mut b: &[u8]) -> Result<(Vec<u8>, usize), String> {
    let total = b.len();
    let mut out = Vec::new();
    loop {
        let eol = find(b, b"\r\n").ok_or("chunk size line not terminated")?;
        let size_s = std::str::from_utf8(&b[..eol]).map_err(|_| "chunk size is not ASCII")?;
        if size_s.is_empty() || !size_s.bytes().all(|c| c.is_ascii_hexdigit()) {
            return Err(format!("invalid chunk size {size_s:?}"));
        }
        if size_s.len() > 1 && size_s.starts_with('0') && size_s.bytes().any(|c| c != b'0') {
            // leading zeros are legal per RFC 9112; accepted
        }
        let size = usize::from_str_radix(size_s, 16).map_err(|_| "chunk size overflows")?;
        b = &b[eol + 2..];
        if size == 0 {
            // no trailers expected
            if !b.starts_with(b"\r\n") {
                return Err("missing final CRLF after the zero chunk".into());
            }
            b = &b[2..];
            return Ok((out, total - b.len()));
        }
        if b.len() < size + 2 {
            return Err(format!("chunk of size {size} truncated"));
        }
        out.extend_from_slice(&b[..size]);
        if &b[size..size + 2] != b"\r\n" {
            return Err("chunk data not followed by CRLF".into());
        }
        b = &b[size + 2..];
    }
}

/// Split a byte stream into consecutive responses (`head_only[i]` says whether request i was HEAD).
pub fn parse_responses(mut bytes: &[u8], head_only: &[bool]) -> Result<Vec<ParsedResponse>, String> {
    let mut v = Vec::new();
    let mut i = 0;
    while !bytes.is_empty() {
        let ho = head_only.get(i).copied().unwrap_or(false);
        let r = parse_response(bytes, ho).map_err(|e| format!("response #{i}: {e}"))?;
        bytes = &bytes[r.consumed..];
        v.push(r);
        i += 1;
    }
    Ok(v)
}
