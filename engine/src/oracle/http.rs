//! Independent, strict HTTP/1.1 message parsers used as oracles.

#[derive(Debug, Clone, PartialEq)]
pub struct ParsedResponse {
    pub status: u16,
    pub reason: String,
    /// header lines in wire order, names as written, values with optional whitespace trimmed
    pub headers: Vec<(String, String)>,
    pub body: Vec<u8>,
    /// total number of bytes this message occupies
    pub consumed: usize,
    pub chunked: bool,
}
impl ParsedResponse {
    pub fn get_all(&self, name: &str) -> Vec<&str> {
        self.headers.iter().filter(|(n, _)| n.eq_ignore_ascii_case(name)).map(|(_, v)| v.as_str()).collect()
    }
    pub fn get(&self, name: &str) -> Option<&str> {
        self.get_all(name).first().copied()
    }
}

fn is_tchar(b: u8) -> bool {
    b.is_ascii_alphanumeric() || b"!#$%&'*+-.^_`|~".contains(&b)
}

fn find(hay: &[u8], needle: &[u8]) -> Option<usize> {
    hay.windows(needle.len()).position(|w| w == needle)
}

/// Parse exactly one response at the start of `bytes`. `head_only`: the request was HEAD (no body follows
/// whatever the headers say). A response to be delimited by connection close is an error here:
/// the statement demands that the client can find the end without waiting for close.
pub fn parse_response(bytes: &[u8], head_only: bool) -> Result<ParsedResponse, String> {
    let head_end = find(bytes, b"\r\n\r\n").ok_or("no blank line terminating the head")?;
    let head = &bytes[..head_end];
    let mut line_list: Vec<&[u8]> = Vec::new();
    {
        let mut rest = head;
        loop {
            match find(rest, b"\r\n") {
                Some(i) => {
                    line_list.push(&rest[..i]);
                    rest = &rest[i + 2..];
                }
                None => {
                    line_list.push(rest);
                    break;
                }
            }
        }
    }
    if line_list.iter().any(|l| l.contains(&b'\n') || l.contains(&b'\r')) {
        return Err("bare CR or LF inside the head".into());
    }
    let mut lines = line_list.into_iter();
    let status_line = lines.next().ok_or("empty head")?;
    let sl = std::str::from_utf8(status_line).map_err(|_| "status line is not UTF-8")?;
    let rest = sl.strip_prefix("HTTP/1.1 ").ok_or_else(|| format!("status line does not start with `HTTP/1.1 `: {sl:?}"))?;
    if rest.len() < 3 || !rest.as_bytes()[..3].iter().all(|b| b.is_ascii_digit()) {
        return Err(format!("no 3-digit status code: {sl:?}"));
    }
    let status: u16 = rest[..3].parse().unwrap();
    let reason = match &rest[3..] {
        "" => String::new(),
        r if r.starts_with(' ') => r[1..].to_string(),
        _ => return Err(format!("garbage after the status code: {sl:?}")),
    };
    let mut headers = Vec::new();
    for l in lines {
        let colon = l.iter().position(|b| *b == b':').ok_or_else(|| format!("header line without colon: {:?}", String::from_utf8_lossy(l)))?;
        let (name, value) = (&l[..colon], &l[colon + 1..]);
        if name.is_empty() || !name.iter().all(|b| is_tchar(*b)) {
            return Err(format!("invalid header name: {:?}", String::from_utf8_lossy(name)));
        }
        let value = std::str::from_utf8(value).map_err(|_| "header value is not UTF-8")?;
        if value.bytes().any(|b| b == 0 || b == b'\n') {
            return Err("NUL/LF in header value".into());
        }
        headers.push((String::from_utf8(name.to_vec()).unwrap(), value.trim_matches(|c| c == ' ' || c == '\t').to_string()));
    }
    let body_start = head_end + 4;
    let mut pr = ParsedResponse { status, reason, headers, body: vec![], consumed: body_start, chunked: false };
    let no_body_status = (100..200).contains(&status) || status == 204 || status == 304;
    if head_only || no_body_status {
        return Ok(pr);
    }
    let te = pr.get_all("Transfer-Encoding");
    let cl = pr.get_all("Content-Length");
    if !te.is_empty() {
        if te.len() != 1 || !te[0].eq_ignore_ascii_case("chunked") {
            return Err(format!("unsupported Transfer-Encoding {te:?}"));
        }
        if !cl.is_empty() {
            return Err("both Transfer-Encoding and Content-Length".into());
        }
        let (body, used) = dechunk(&bytes[body_start..])?;
        pr.body = body;
        pr.consumed = body_start + used;
        pr.chunked = true;
        return Ok(pr);
    }
    if cl.is_empty() {
        return Err("a response that may carry a body has neither Content-Length nor chunked coding: its end cannot be determined".into());
    }
    if cl.len() != 1 {
        return Err(format!("Content-Length appears {} times", cl.len()));
    }
    if cl[0].is_empty() || !cl[0].bytes().all(|b| b.is_ascii_digit()) {
        return Err(format!("Content-Length is not a number: {:?}", cl[0]));
    }
    let n: usize = cl[0].parse().map_err(|_| "Content-Length overflows")?;
    if bytes.len() < body_start + n {
        return Err(format!("Content-Length {n} but only {} body bytes follow", bytes.len() - body_start));
    }
    pr.body = bytes[body_start..body_start + n].to_vec();
    pr.consumed = body_start + n;
    Ok(pr)
}

/// Strict chunked-coding decoder: `hex-size CRLF data CRLF … 0 CRLF CRLF`. Returns (payload, bytes used).
pub fn dechunk(mut b: &[u8]) -> Result<(Vec<u8>, usize), String> {
    let total = b.len();
    let mut out = Vec::new();
    loop {
        let eol = find(b, b"\r\n").ok_or("chunk size line not terminated")?;
        let size_s = std::str::from_utf8(&b[..eol]).map_err(|_| "chunk size is not ASCII")?;
        if size_s.is_empty() || !size_s.bytes().all(|c| c.is_ascii_hexdigit()) {
            return Err(format!("invalid chunk size {size_s:?}"));
        }
        if size_s.len() > 1 && size_s.starts_with('0') && size_s.bytes().any(|c| c != b'0') {
            // leading zeros are legal per RFC 9112; accepted
        }
        let size = usize::from_str_radix(size_s, 16).map_err(|_| "chunk size overflows")?;
        b = &b[eol + 2..];
        if size == 0 {
            // no trailers expected
            if !b.starts_with(b"\r\n") {
                return Err("missing final CRLF after the zero chunk".into());
            }
            b = &b[2..];
            return Ok((out, total - b.len()));
        }
        if b.len() < size + 2 {
            return Err(format!("chunk of size {size} truncated"));
        }
        out.extend_from_slice(&b[..size]);
        if &b[size..size + 2] != b"\r\n" {
            return Err("chunk data not followed by CRLF".into());
        }
        b = &b[size + 2..];
    }
}

/// Split a byte stream into consecutive responses (`head_only[i]` says whether request i was HEAD).
pub fn parse_responses(mut bytes: &[u8], head_only: &[bool]) -> Result<Vec<ParsedResponse>, String> {
    let mut v = Vec::new();
    let mut i = 0;
    while !bytes.is_empty() {
        let ho = head_only.get(i).copied().unwrap_or(false);
        let r = parse_response(bytes, ho).map_err(|e| format!("response #{i}: {e}"))?;
        bytes = &bytes[r.consumed..];
        v.push(r);
        i += 1;
    }
    Ok(v)
}

// ---------------------------------------------------------------- requests

#[derive(Debug, Clone, PartialEq)]
pub struct RefRequest {
    pub method: String,
    pub raw_path: Vec<u8>,
    /// percent-decoded path (valid UTF-8)
    pub path: String,
    pub raw_query: Option<Vec<u8>>,
    /// decoded query pairs in wire order
    pub query: Vec<(String, String)>,
    /// header lines in wire order: (name as written, value with OWS trimmed)
    pub headers: Vec<(String, String)>,
    pub body: Vec<u8>,
    pub head_len: usize,
    pub consumed: usize,
}
impl RefRequest {
    /// values of all lines with this name (case-insensitive), joined with ", " in wire order
    pub fn header(&self, name: &str) -> Option<String> {
        let v: Vec<&str> = self.headers.iter().filter(|(n, _)| n.eq_ignore_ascii_case(name)).map(|(_, v)| v.as_str()).collect();
        if v.is_empty() {
            None
        } else {
            Some(v.join(", "))
        }
    }
}

#[derive(Debug, Clone, PartialEq)]
pub enum RefErr {
    /// structurally broken: must be refused
    Hard(String),
    /// outside the stated subset in a way a lenient parser may tolerate (byte-content classes,
    /// doubled separators, obsolete forms): refusal or faithful acceptance are both fine
    Soft(String),
    /// the head is fine but fewer body bytes than announced are present
    Incomplete { missing: usize, head_len: usize },
}

pub fn pct_decode_strict(raw: &[u8]) -> Result<Vec<u8>, String> {
    let mut out = Vec::with_capacity(raw.len());
    let mut i = 0;
    while i < raw.len() {
        if raw[i] == b'%' {
            if i + 3 > raw.len() {
                return Err("truncated escape".into());
            }
            let h = (raw[i + 1] as char).to_digit(16).ok_or("invalid escape")?;
            let l = (raw[i + 2] as char).to_digit(16).ok_or("invalid escape")?;
            out.push((h * 16 + l) as u8);
            i += 3;
        } else {
            out.push(raw[i]);
            i += 1;
        }
    }
    Ok(out)
}

/// lenient percent-decoding as browsers and the `percent-encoding` crate do: invalid escapes stay literal
pub fn pct_decode_lenient(raw: &[u8]) -> Vec<u8> {
    let mut out = Vec::with_capacity(raw.len());
    let mut i = 0;
    while i < raw.len() {
        if raw[i] == b'%' && i + 3 <= raw.len() {
            let h = (raw[i + 1] as char).to_digit(16);
            let l = (raw[i + 2] as char).to_digit(16);
            if let (Some(h), Some(l)) = (h, l) {
                out.push((h * 16 + l) as u8);
                i += 3;
                continue;
            }
        }
        out.push(raw[i]);
        i += 1;
    }
    out
}

fn is_pchar_or_slash(b: u8) -> bool {
    b.is_ascii_alphanumeric() || b"-._~!$&'()*+,;=:@/%".contains(&b)
}
fn is_query_char(b: u8) -> bool {
    is_pchar_or_slash(b) || b == b'?'
}

pub const METHODS: [&str; 7] = ["GET", "PUT", "POST", "PATCH", "DELETE", "HEAD", "OPTIONS"];

/// Strict parser for exactly the subset the statement names.
pub fn parse_request(bytes: &[u8]) -> Result<RefRequest, RefErr> {
    let hard = |s: &str| RefErr::Hard(s.to_string());
    let soft = |s: &str| RefErr::Soft(s.to_string());
    let head_end = find(bytes, b"\r\n\r\n").ok_or_else(|| hard("no blank line: the head is truncated"))?;
    let head = &bytes[..head_end];
    let mut lines: Vec<&[u8]> = Vec::new();
    {
        let mut rest = head;
        loop {
            match find(rest, b"\r\n") {
                Some(i) => {
                    lines.push(&rest[..i]);
                    rest = &rest[i + 2..];
                }
                None => {
                    lines.push(rest);
                    break;
                }
            }
        }
    }
    let bare = lines.iter().any(|l| l.contains(&b'\n') || l.contains(&b'\r'));
    let rl = lines[0];
    let parts: Vec<&[u8]> = rl.split(|b| *b == b' ').collect();
    if parts.len() != 3 {
        return Err(hard("request line does not consist of three space-separated parts"));
    }
    let method = std::str::from_utf8(parts[0]).map_err(|_| hard("method is not ASCII"))?;
    if !METHODS.contains(&method) {
        return Err(hard("unknown method"));
    }
    if parts[2] != b"HTTP/1.1" {
        return Err(hard("version is not HTTP/1.1"));
    }
    let target = parts[1];
    if target.first() != Some(&b'/') {
        return Err(hard("target is not in origin form"));
    }
    let (raw_path, raw_query) = match target.iter().position(|b| *b == b'?') {
        Some(i) => (&target[..i], Some(&target[i + 1..])),
        None => (target, None),
    };
    let mut softness: Option<RefErr> = None;
    if bare {
        // a doubled or stray CR/LF: obsolete line folding / lenient line ends — byte-content class
        softness.get_or_insert(soft("bare CR or LF inside the head"));
    }
    if !raw_path.iter().all(|b| is_pchar_or_slash(*b)) {
        softness.get_or_insert(soft("byte outside pchar in the path"));
    }
    let path = match pct_decode_strict(raw_path).ok().and_then(|b| String::from_utf8(b).ok()) {
        Some(p) => p,
        None => {
            softness.get_or_insert(soft("path has an invalid escape or is not UTF-8 after decoding"));
            String::from_utf8_lossy(&pct_decode_lenient(raw_path)).into_owned()
        }
    };
    let mut query = Vec::new();
    if let Some(q) = raw_query {
        if !q.iter().all(|b| is_query_char(*b)) {
            softness.get_or_insert(soft("byte outside the query alphabet"));
        }
        if !q.is_empty() {
            for kv in q.split(|b| *b == b'&') {
                let Some(eq) = kv.iter().position(|b| *b == b'=') else {
                    softness.get_or_insert(soft("query part without `=`"));
                    continue;
                };
                if eq == 0 {
                    softness.get_or_insert(soft("query part with empty key"));
                    continue;
                }
                let dec = |raw: &[u8]| -> Option<String> { pct_decode_strict(raw).ok().and_then(|b| String::from_utf8(b).ok()) };
                match (dec(&kv[..eq]), dec(&kv[eq + 1..])) {
                    (Some(k), Some(v)) => query.push((k, v)),
                    _ => {
                        softness.get_or_insert(soft("query escape invalid or not UTF-8"));
                    }
                }
            }
        }
    }
    let mut headers = Vec::new();
    for l in &lines[1..] {
        let colon = l.iter().position(|b| *b == b':').ok_or_else(|| hard("header line without colon"))?;
        let (name, rest) = (&l[..colon], &l[colon + 1..]);
        if name.is_empty() {
            return Err(hard("empty header name"));
        }
        if !name.iter().all(|b| is_tchar(*b)) {
            softness.get_or_insert(soft("header name is not a token"));
        }
        if rest.contains(&0) {
            softness.get_or_insert(soft("NUL in a header value"));
        }
        if !(rest.first() == Some(&b' ') && rest.get(1).map_or(true, |b| *b != b' ' && *b != b'\t') && rest.last().map_or(true, |b| rest.len() == 1 || (*b != b' ' && *b != b'\t'))) {
            softness.get_or_insert(soft("header line is not of the form `Name: value` (optional whitespace differs)"));
        }
        let value = match std::str::from_utf8(rest) {
            Ok(v) => v.trim_matches(|c| c == ' ' || c == '\t').to_string(),
            Err(_) => {
                softness.get_or_insert(soft("header value is not UTF-8"));
                String::from_utf8_lossy(rest).trim().to_string()
            }
        };
        if value.bytes().any(|b| b < 0x20 && b != b'\t' || b == 0x7f) {
            softness.get_or_insert(soft("control byte in a header value"));
        }
        headers.push((String::from_utf8_lossy(name).into_owned(), value));
    }
    let head_len = head_end + 4;
    let mut r = RefRequest { method: method.to_string(), raw_path: raw_path.to_vec(), path, raw_query: raw_query.map(|q| q.to_vec()), query, headers, body: vec![], head_len, consumed: head_len };
    if r.headers.iter().any(|(n, _)| n.eq_ignore_ascii_case("Transfer-Encoding")) {
        return Err(soft("Transfer-Encoding is outside the supported subset"));
    }
    let cls: Vec<&String> = r.headers.iter().filter(|(n, _)| n.eq_ignore_ascii_case("Content-Length")).map(|(_, v)| v).collect();
    let mut n = 0usize;
    if cls.len() > 1 {
        return Err(hard("Content-Length repeated"));
    }
    if let Some(v) = cls.first() {
        if v.is_empty() || !v.bytes().all(|b| b.is_ascii_digit()) {
            return Err(hard("Content-Length is not a number"));
        }
        n = v.parse::<usize>().map_err(|_| hard("Content-Length overflows"))?;
        if n as u64 >= (1u64 << 32) {
            return Err(hard("Content-Length beyond the payload limit"));
        }
    }
    if let Some(s) = softness {
        return Err(s);
    }
    let avail = bytes.len() - head_len;
    if avail < n {
        return Err(RefErr::Incomplete { missing: n - avail, head_len });
    }
    r.body = bytes[head_len..head_len + n].to_vec();
    r.consumed = head_len + n;
    Ok(r)
}
