pub mod date;
pub mod http;
pub mod routes;
pub mod sse;
