pub mod date;
