pub mod date;
pub mod http;
pub mod routes;
