//! Verification engine for ohkami (property-based testing / fuzzing): library part, shared by the `ohv`
//! binary and the cargo-fuzz targets in /verif/fuzz.

pub mod core;
pub mod fuzzing;
pub mod harness;
pub mod oracle;
pub mod props;
