//! ohv — verification engine for ohkami (property-based testing / fuzzing).
//!
//!   ohv run <ID> <quick|thorough> [--cases N]     supervisor (what ./check calls)
//!   ohv replay <ID> <path>                        re-execute a stored case without proptest
//!   ohv worker / exec-case                        internal

use engine::core::{supervisor, worker, Tier};
use engine::props;
use proptest::strategy::ValueTree;

macro_rules! dispatch {
    ($id:expr, $f:ident ( $($arg:expr),* )) => {
        match $id {
            "C01" => $f::<props::c01::C01>($($arg),*),
            "C02" => $f::<props::c02::C02>($($arg),*),
            "C03" => $f::<props::c03::C03>($($arg),*),
            "C04" => $f::<props::c04::C04>($($arg),*),
            "C05" => $f::<props::c05::C05>($($arg),*),
            "C06" => $f::<props::c06::C06>($($arg),*),
            "C07" => $f::<props::c07::C07>($($arg),*),
            "C08" => $f::<props::c08::C08>($($arg),*),
            "C09" => $f::<props::c09::C09>($($arg),*),
            "C10" => $f::<props::c10::C10>($($arg),*),
            "C11" => $f::<props::c11::C11>($($arg),*),
            "C12" => $f::<props::c12::C12>($($arg),*),
            "C13" => $f::<props::c13::C13>($($arg),*),
            "C14" => $f::<props::c14::C14>($($arg),*),
            "C15" => $f::<props::c15::C15>($($arg),*),
            "C16" => $f::<props::c16::C16>($($arg),*),
            "C17" => $f::<props::c17::C17>($($arg),*),
            "C18" => $f::<props::c18::C18>($($arg),*),
            "C19" => $f::<props::c19::C19>($($arg),*),
            "C20" => $f::<props::c20::C20>($($arg),*),
            other => {
                eprintln!("unknown property id {other}");
                std::process::exit(2)
            }
        }
    };
}

fn main() {
    let args: Vec<String> = std::env::args().collect();
    let usage = || -> ! {
        eprintln!("usage: ohv run <ID> <quick|thorough> [--cases N] | ohv replay <ID> <path>");
        std::process::exit(2)
    };
    if args.len() < 3 {
        usage()
    }
    let seed: u64 = std::env::var("VERIF_SEED").ok().and_then(|s| s.parse().ok()).unwrap_or(1);
    match args[1].as_str() {
        "run" => {
            let id = args[2].as_str();
            let tier = args.get(3).and_then(|s| Tier::parse(s)).or_else(|| std::env::var("VERIF_TIER").ok().and_then(|s| Tier::parse(&s))).unwrap_or(Tier::Quick);
            let cases = args.iter().position(|a| a == "--cases").and_then(|i| args.get(i + 1)).and_then(|s| s.parse().ok());
            let ra = supervisor::RunArgs { tier, seed, cases };
            use supervisor::run;
            dispatch!(id, run(ra))
        }
        "worker" => {
            // worker <ID> <tier> <seed> <lo> <hi> <out> <last>
            // a worker does not outlive its supervisor (a supervisor ended from outside would leave workers that spin for ever
            // in a case that does not terminate)
            unsafe {
                libc::prctl(libc::PR_SET_PDEATHSIG, libc::SIGKILL);
            }
            if args.len() < 9 {
                usage()
            }
            let id = args[2].as_str();
            let wa = worker::WorkerArgs {
                tier: Tier::parse(&args[3]).unwrap(),
                seed: args[4].parse().unwrap(),
                lo: args[5].parse().unwrap(),
                hi: args[6].parse().unwrap(),
                out: (&args[7]).into(),
                last: (&args[8]).into(),
            };
            use worker::run_worker;
            dispatch!(id, run_worker(wa))
        }
        "exec-case" => {
            unsafe {
                libc::prctl(libc::PR_SET_PDEATHSIG, libc::SIGKILL);
            }
            let id = args[2].as_str();
            let tier = args.get(3).and_then(|s| Tier::parse(s)).unwrap_or(Tier::Quick);
            use supervisor::exec_case_main;
            dispatch!(id, exec_case_main(tier))
        }
        "corpus" => {
            // ohv corpus <c02_bytes|c08_bytes> <n> <dir>: seed files for the byte-level fuzz targets, taken from the
            // properties' own generators (deterministic: VERIF_SEED)
            use engine::core::{new_tree, Property};
            let n: u64 = args[3].parse().expect("n");
            let dir = std::path::PathBuf::from(&args[4]);
            std::fs::create_dir_all(&dir).expect("corpus dir");
            match args[2].as_str() {
                "c02_bytes" => {
                    let p = props::c02::C02::new(Tier::Quick);
                    let st = p.strategy(Tier::Quick);
                    for i in 0..n {
                        let c = new_tree::<props::c02::C02>(&st, seed, i).current();
                        std::fs::write(dir.join(format!("gen-{i:04}")), &c.bytes.0).unwrap();
                    }
                }
                "c08_bytes" => {
                    let p = props::c08::C08::new(Tier::Quick);
                    let st = p.strategy(Tier::Quick);
                    for i in 0..n {
                        let c = new_tree::<props::c08::C08>(&st, seed, i).current();
                        let mut v = vec![c.dec, (c.ty & 0xff) as u8, (c.ty >> 8) as u8];
                        v.extend_from_slice(&c.bytes.0);
                        std::fs::write(dir.join(format!("gen-{i:04}")), v).unwrap();
                    }
                }
                other => {
                    eprintln!("no corpus generator for {other}");
                    std::process::exit(2)
                }
            }
        }
        "c18-child" => props::c18::child_main(args[2].parse().expect("port")),
        "replay" => {
            if args.len() < 4 {
                usage()
            }
            let id = args[2].as_str();
            let path = args[3].as_str();
            use supervisor::replay_main;
            dispatch!(id, replay_main(Tier::Quick, path))
        }
        _ => usage(),
    }
}
