//! ohv — verification engine for ohkami (property-based testing / fuzzing).
//!
//!   ohv run <ID> <quick|thorough> [--cases N]     supervisor (what ./check calls)
//!   ohv replay <ID> <path>                        re-execute a stored case without proptest
//!   ohv worker / exec-case                        internal

mod core;
mod harness;
mod oracle;
mod props;

use crate::core::{supervisor, worker, Tier};

macro_rules! dispatch {
    ($id:expr, $f:ident ( $($arg:expr),* )) => {
        match $id {
            "C01" => $f::<props::c01::C01>($($arg),*),
            "C02" => $f::<props::c02::C02>($($arg),*),
            "C03" => $f::<props::c03::C03>($($arg),*),
            "C04" => $f::<props::c04::C04>($($arg),*),
            "C05" => $f::<props::c05::C05>($($arg),*),
            "C06" => $f::<props::c06::C06>($($arg),*),
            "C07" => $f::<props::c07::C07>($($arg),*),
            "C08" => $f::<props::c08::C08>($($arg),*),
            "C09" => $f::<props::c09::C09>($($arg),*),
            "C10" => $f::<props::c10::C10>($($arg),*),
            "C11" => $f::<props::c11::C11>($($arg),*),
            "C12" => $f::<props::c12::C12>($($arg),*),
            "C13" => $f::<props::c13::C13>($($arg),*),
            "C14" => $f::<props::c14::C14>($($arg),*),
            "C15" => $f::<props::c15::C15>($($arg),*),
            "C16" => $f::<props::c16::C16>($($arg),*),
            "C17" => $f::<props::c17::C17>($($arg),*),
            "C18" => $f::<props::c18::C18>($($arg),*),
            "C19" => $f::<props::c19::C19>($($arg),*),
            "C20" => $f::<props::c20::C20>($($arg),*),
            other => {
                eprintln!("unknown property id {other}");
                std::process::exit(2)
            }
        }
    };
}

fn main() {
    let args: Vec<String> = std::env::args().collect();
    let usage = || -> ! {
        eprintln!("usage: ohv run <ID> <quick|thorough> [--cases N] | ohv replay <ID> <path>");
        std::process::exit(2)
    };
    if args.len() < 3 {
        usage()
    }
    let seed: u64 = std::env::var("VERIF_SEED").ok().and_then(|s| s.parse().ok()).unwrap_or(1);
    match args[1].as_str() {
        "run" => {
            let id = args[2].as_str();
            let tier = args.get(3).and_then(|s| Tier::parse(s)).or_else(|| std::env::var("VERIF_TIER").ok().and_then(|s| Tier::parse(&s))).unwrap_or(Tier::Quick);
            let cases = args.iter().position(|a| a == "--cases").and_then(|i| args.get(i + 1)).and_then(|s| s.parse().ok());
            let ra = supervisor::RunArgs { tier, seed, cases };
            use supervisor::run;
            dispatch!(id, run(ra))
        }
        "worker" => {
            // worker <ID> <tier> <seed> <lo> <hi> <out> <last>
            if args.len() < 9 {
                usage()
            }
            let id = args[2].as_str();
            let wa = worker::WorkerArgs {
                tier: Tier::parse(&args[3]).unwrap(),
                seed: args[4].parse().unwrap(),
                lo: args[5].parse().unwrap(),
                hi: args[6].parse().unwrap(),
                out: (&args[7]).into(),
                last: (&args[8]).into(),
            };
            use worker::run_worker;
            dispatch!(id, run_worker(wa))
        }
        "exec-case" => {
            let id = args[2].as_str();
            let tier = args.get(3).and_then(|s| Tier::parse(s)).unwrap_or(Tier::Quick);
            use supervisor::exec_case_main;
            dispatch!(id, exec_case_main(tier))
        }
        "c18-child" => props::c18::child_main(args[2].parse().expect("port")),
        "replay" => {
            if args.len() < 4 {
                usage()
            }
            let id = args[2].as_str();
            let path = args[3].as_str();
            use supervisor::replay_main;
            dispatch!(id, replay_main(Tier::Quick, path))
        }
        _ => usage(),
    }
}
