//! Minimal executors owned by the harness.

use std::future::Future;
use std::pin::Pin;
use std::sync::atomic::{AtomicUsize, Ordering};
use std::sync::Arc;
use std::task::{Context, Poll, Wake, Waker};

pub struct CountWaker(pub AtomicUsize);
impl Wake for CountWaker {
    fn wake(self: Arc<Self>) {
        self.0.fetch_add(1, Ordering::SeqCst);
    }
    fn wake_by_ref(self: &Arc<Self>) {
        self.0.fetch_add(1, Ordering::SeqCst);
    }
}

/// Poll `fut` to completion on the current thread. The futures driven this way never depend on a
/// reactor; a future that stays `Pending` without waking itself is reported as stuck.
pub fn block_on<F: Future>(fut: F) -> Result<F::Output, &'static str> {
    let cw = Arc::new(CountWaker(AtomicUsize::new(0)));
    let waker = Waker::from(cw.clone());
    let mut cx = Context::from_waker(&waker);
    let mut fut = std::pin::pin!(fut);
    loop {
        let before = cw.0.load(Ordering::SeqCst);
        match fut.as_mut().poll(&mut cx) {
            Poll::Ready(v) => return Ok(v),
            Poll::Pending => {
                // strict: a future that returns Pending must have arranged its wake-up (here: woken the waker it was
                // given, there being no reactor); polling it again "just in case" would hide a lost wake-up
                if cw.0.load(Ordering::SeqCst) == before {
                    return Err("future is Pending and nobody will wake it");
                }
            }
        }
    }
}

pub fn poll_once<F: Future + ?Sized>(fut: Pin<&mut F>, cw: &Arc<CountWaker>) -> Poll<F::Output> {
    let waker = Waker::from(cw.clone());
    let mut cx = Context::from_waker(&waker);
    fut.poll(&mut cx)
}

thread_local! {
    static RT: tokio::runtime::Runtime = tokio::runtime::Builder::new_current_thread().enable_all().build().unwrap();
}
/// tokio current-thread runtime for the checks that need a reactor (socketpair sessions).
pub fn tokio_block_on<F: Future>(fut: F) -> F::Output {
    RT.with(|rt| rt.block_on(fut))
}
