//! Silent panic hook + classification of panics into signatures.

use std::cell::RefCell;

#[derive(Clone, Debug)]
pub struct PanicInfo {
    pub msg: String,
    pub file: String,
    pub line: u32,
}

thread_local! {
    static LAST: RefCell<Option<PanicInfo>> = const { RefCell::new(None) };
    static QUIET: std::cell::Cell<bool> = const { std::cell::Cell::new(false) };
}

pub static LOUD: std::sync::atomic::AtomicBool = std::sync::atomic::AtomicBool::new(false);

pub fn install_hook() {
    let default = std::panic::take_hook();
    std::panic::set_hook(Box::new(move |info| {
        let msg = if let Some(s) = info.payload().downcast_ref::<&str>() {
            s.to_string()
        } else if let Some(s) = info.payload().downcast_ref::<String>() {
            s.clone()
        } else {
            "<non-string panic>".to_string()
        };
        let (file, line) = info.location().map(|l| (l.file().to_string(), l.line())).unwrap_or(("?".into(), 0));
        let quiet = QUIET.with(|q| q.get());
        LAST.with(|l| *l.borrow_mut() = Some(PanicInfo { msg, file, line }));
        // in the classification child (`exec-case`) every panic is printed: a non-unwinding one aborts the
        // process and the supervisor keys the abort on what was printed
        if !quiet || LOUD.load(std::sync::atomic::Ordering::SeqCst) {
            default(info)
        }
    }));
}

/// Run `f`, catching an unwinding panic. Panics on other threads are not seen here.
pub fn catch<R>(f: impl FnOnce() -> R + std::panic::UnwindSafe) -> Result<R, PanicInfo> {
    let prev = QUIET.with(|q| q.replace(true));
    LAST.with(|l| *l.borrow_mut() = None);
    let r = std::panic::catch_unwind(f);
    QUIET.with(|q| q.set(prev));
    match r {
        Ok(v) => Ok(v),
        Err(_) => Err(LAST.with(|l| l.borrow_mut().take()).unwrap_or(PanicInfo { msg: "<unknown>".into(), file: "?".into(), line: 0 })),
    }
}

/// message stem: digits collapsed, quoted/backticked payloads collapsed, truncated
pub fn stem(msg: &str) -> String {
    let mut out = String::new();
    let mut prev_hash = false;
    for ch in msg.chars().take(200) {
        if ch.is_ascii_digit() {
            if !prev_hash {
                out.push('#');
                prev_hash = true
            }
        } else if ch == '\n' {
            break;
        } else {
            out.push(ch);
            prev_hash = false
        }
    }
    out.truncate(out.char_indices().nth(90).map(|(i, _)| i).unwrap_or(out.len()));
    out.trim().to_string()
}

pub fn short_file(file: &str) -> String {
    if let Some(rest) = file.strip_prefix("/repo/") {
        return rest.to_string();
    }
    if let Some(i) = file.find("/registry/src/") {
        let rest = &file[i + "/registry/src/".len()..];
        // skip the index directory
        if let Some(j) = rest.find('/') {
            return format!("dep:{}", &rest[j + 1..]);
        }
    }
    if let Some(i) = file.find("/library/") {
        return format!("std:{}", &file[i + "/library/".len()..]);
    }
    if file.starts_with("src/") || file.starts_with("/verif/") {
        return format!("engine:{}", file.trim_start_matches("/verif/engine/"));
    }
    file.to_string()
}

impl PanicInfo {
    pub fn is_harness(&self) -> bool {
        short_file(&self.file).starts_with("engine:")
    }
    pub fn key(&self) -> String {
        let f = short_file(&self.file);
        if f.starts_with("engine:") {
            format!("HARNESS-BUG panic@{}:{}:{}", f, self.line, stem(&self.msg))
        } else {
            format!("panic@{}:{}", f, stem(&self.msg))
        }
    }
    pub fn describe(&self) -> String {
        format!("panicked at {}:{}: {}", self.file, self.line, self.msg.chars().take(400).collect::<String>())
    }
}
