//! Supervisor: regressions, enumerations, worker pool, merging, evidence, exit code.

use super::*;
use std::collections::{BTreeMap, HashSet, VecDeque};
use std::path::{Path, PathBuf};
use std::process::{Child, Command, Stdio};
use std::time::{Duration, Instant};

pub struct RunArgs {
    pub tier: Tier,
    pub seed: u64,
    /// override number of generated cases (for sensitivity experiments)
    pub cases: Option<u64>,
}

#[derive(Serialize, Deserialize, Debug, Default)]
pub struct ChildReport {
    pub failures: Vec<Failure>,
    pub nontrivial: bool,
}

struct ChildOutcome {
    report: Option<ChildReport>,
    died: Option<String>,
    timed_out: bool,
}

fn self_exe() -> PathBuf {
    std::env::current_exe().expect("current_exe")
}

/// Run one case in a fresh process (`ohv exec-case <ID> <tier>` reads the case JSON on stdin).
fn exec_case_in_child(id: &str, tier: Tier, case: &serde_json::Value, limit: Duration) -> ChildOutcome {
    use std::io::{Read, Write};
    let mut child = Command::new(self_exe())
        .args(["exec-case", id, tier.as_str()])
        .stdin(Stdio::piped())
        .stdout(Stdio::piped())
        .stderr(Stdio::piped())
        .spawn()
        .expect("spawn exec-case");
    {
        let mut stdin = child.stdin.take().unwrap();
        let _ = stdin.write_all(case.to_string().as_bytes());
    }
    let mut stdout = child.stdout.take().unwrap();
    let mut stderr = child.stderr.take().unwrap();
    let t_out = std::thread::spawn(move || {
        let mut s = String::new();
        let _ = stdout.read_to_string(&mut s);
        s
    });
    let t_err = std::thread::spawn(move || {
        let mut s = Vec::new();
        let _ = stderr.read_to_end(&mut s);
        String::from_utf8_lossy(&s).into_owned()
    });
    let t0 = Instant::now();
    let status = loop {
        match child.try_wait() {
            Ok(Some(st)) => break Some(st),
            Ok(None) => {
                if t0.elapsed() > limit {
                    let _ = child.kill();
                    let _ = child.wait();
                    break None;
                }
                std::thread::sleep(Duration::from_millis(2));
            }
            Err(_) => break None,
        }
    };
    let out = t_out.join().unwrap_or_default();
    let err = t_err.join().unwrap_or_default();
    match status {
        None => ChildOutcome { report: None, died: None, timed_out: true },
        Some(st) if st.success() => ChildOutcome { report: serde_json::from_str(&out).ok(), died: None, timed_out: false },
        Some(st) => ChildOutcome { report: None, died: Some(abort_key(&st, &err)), timed_out: false },
    }
}

fn abort_key(st: &std::process::ExitStatus, stderr: &str) -> String {
    use std::os::unix::process::ExitStatusExt;
    let sig = st.signal().map(|s| format!("signal{s}")).unwrap_or_else(|| format!("exit{}", st.code().unwrap_or(-1)));
    // the most telling stderr line
    let mut line = stderr
        .lines()
        .rev()
        .find(|l| l.contains("unsafe precondition") || l.contains("panicked at") || l.contains("overflowed its stack") || l.contains("AddressSanitizer") || l.contains("panic in a function that cannot unwind") || l.contains("memory allocation"))
        .unwrap_or("")
        .to_string();
    if line.contains("panicked at") {
        // the message is on the following line in recent std; join both
        let mut it = stderr.lines().skip_while(|l| !l.contains("panicked at"));
        let a = it.next().unwrap_or("");
        let b = it.next().unwrap_or("");
        let loc = a.split("panicked at ").nth(1).unwrap_or("").trim_end_matches(':');
        let file = loc.split(':').next().unwrap_or("");
        line = format!("{}:{}", panic::short_file(file), b.trim());
    }
    format!("abort:{sig}:{}", panic::stem(&line))
}

fn write_replay(rf: &ReplayFile) -> PathBuf {
    let dir = verif_dir().join("replays").join(&rf.property);
    let _ = std::fs::create_dir_all(&dir);
    let name = format!("{:016x}.json", fnv(format!("{}{}", rf.key, rf.case).as_bytes()));
    let path = dir.join(name);
    let _ = std::fs::write(&path, serde_json::to_vec_pretty(rf).unwrap());
    path
}

struct Running {
    child: Child,
    lo: u64,
    hi: u64,
    out: PathBuf,
    last: PathBuf,
    last_index_seen: i64,
    last_beat_seen: String,
    last_progress: Instant,
}

fn read_last(path: &Path) -> Option<(u64, serde_json::Value)> {
    let s = std::fs::read_to_string(path).ok()?;
    let (idx, json) = s.split_once('\n')?;
    Some((idx.trim().parse().ok()?, serde_json::from_str(json).ok()?))
}

fn read_last_index(path: &Path) -> Option<u64> {
    use std::io::Read;
    let mut f = std::fs::File::open(path).ok()?;
    let mut buf = [0u8; 24];
    let n = f.read(&mut buf).ok()?;
    let s = std::str::from_utf8(&buf[..n]).ok()?;
    s.split('\n').next()?.trim().parse().ok()
}

pub fn run<P: Property>(args: RunArgs) -> ! {
    panic::install_hook();
    let t0 = Instant::now();
    let id = P::ID;
    let tier = args.tier;
    // the fixed applications of a check (echo application, handler catalogues, …) are built here through the public
    // API. They build on the unchanged tree; if the framework now refuses or panics on them, that is a finding about the
    // framework (a valid application turned away), not a crash of the check
    let p = match std::panic::catch_unwind(|| P::new(tier)) {
        Ok(p) => p,
        Err(e) => {
            let msg = e.downcast_ref::<String>().cloned().or_else(|| e.downcast_ref::<&str>().map(|s| s.to_string())).unwrap_or_else(|| "panic".into());
            let rf = ReplayFile { property: id.into(), key: format!("fixed-application-refused-at-construction:{}", panic::stem(&msg).chars().take(60).collect::<String>()), detail: format!("building the check's fixed application(s) through the public API panicked: {msg}"), seed: args.seed, index: -1, case: serde_json::Value::Null };
            let path = write_replay(&rf);
            println!("VIOLATION property={id} replay={}", path.display());
            println!("  key: {}", rf.key);
            println!("  {}", rf.detail);
            std::process::exit(1)
        }
    };
    let known = findings::for_property(id);
    let mut violations: Vec<(String, PathBuf, String)> = Vec::new(); // key, replay, detail
    let mut infra: Vec<String> = Vec::new();
    let mut known_lines: Vec<String> = Vec::new();
    let mut notes: Vec<String> = Vec::new();
    let mut regress_run = 0u64;
    let scratch = verif_dir().join("target").join("scratch").join(format!("{id}-{}", std::process::id()));
    let _ = std::fs::create_dir_all(&scratch);

    // ---- 1. regressions (fresh process each: several known defects abort) ----
    let mut referenced = HashSet::new();
    for k in &known {
        let Some(rel) = &k.regress else {
            if k.status == "known" {
                // a known finding without a stored case is confirmed (or not) by the generated stream
            }
            continue;
        };
        referenced.insert(rel.clone());
        let path = verif_dir().join(rel);
        let rf: ReplayFile = match std::fs::read_to_string(&path).ok().and_then(|s| serde_json::from_str(&s).ok()) {
            Some(r) => r,
            None => {
                infra.push(format!("regression file {rel} missing or unreadable"));
                continue;
            }
        };
        regress_run += 1;
        let oc = exec_case_in_child(id, tier, &rf.case, Duration::from_secs(120));
        let keys: Vec<String> = match (&oc.report, &oc.died) {
            (Some(r), _) => r.failures.iter().map(|f| f.key.clone()).collect(),
            (None, Some(d)) => vec![d.clone()],
            _ => {
                if oc.timed_out {
                    vec!["hang".to_string()]
                } else {
                    vec![]
                }
            }
        };
        let hit = keys.iter().any(|kk| findings::matches(&k.key, kk));
        match k.status.as_str() {
            "known" => {
                if hit {
                    known_lines.push(format!("KNOWN-FINDING: property={id} {} [key={}]", k.what, k.key));
                } else {
                    notes.push(format!("NOTE: known finding {} not reproduced by its regression case (observed: {:?})", k.key, keys));
                }
                // anything else the regression shows must itself be known
                for kk in &keys {
                    if !known.iter().any(|e| e.status == "known" && findings::matches(&e.key, kk)) {
                        violations.push((kk.clone(), path.clone(), format!("regression case of {} shows an unlisted deviation", k.key)));
                    }
                }
            }
            "fixed" => {
                for kk in &keys {
                    if !known.iter().any(|e| e.status == "known" && findings::matches(&e.key, kk)) {
                        violations.push((kk.clone(), path.clone(), format!("regression of fixed finding {} fails again", k.key)));
                    }
                }
                println!("fixed: property={id} {} {}", k.commit.clone().unwrap_or_default(), k.what);
            }
            other => infra.push(format!("known_findings.json: unknown status {other}")),
        }
    }
    // plain regressions not tied to a finding: must pass
    if let Ok(rd) = std::fs::read_dir(verif_dir().join("regress").join(id)) {
        let mut files: Vec<_> = rd.filter_map(|e| e.ok()).map(|e| e.path()).filter(|p| p.extension().map_or(false, |x| x == "json")).collect();
        files.sort();
        for path in files {
            let rel = path.strip_prefix(verif_dir()).unwrap().to_string_lossy().to_string();
            if referenced.contains(&rel) {
                continue;
            }
            let Some(rf) = std::fs::read_to_string(&path).ok().and_then(|s| serde_json::from_str::<ReplayFile>(&s).ok()) else {
                infra.push(format!("regression file {rel} unreadable"));
                continue;
            };
            regress_run += 1;
            let oc = exec_case_in_child(id, tier, &rf.case, Duration::from_secs(120));
            let keys: Vec<String> = match (&oc.report, &oc.died) {
                (Some(r), _) => r.failures.iter().map(|f| f.key.clone()).collect(),
                (None, Some(d)) => vec![d.clone()],
                _ => vec![],
            };
            for kk in keys {
                if !known.iter().any(|e| e.status == "known" && findings::matches(&e.key, &kk)) {
                    violations.push((kk, path.clone(), "committed regression case fails".into()));
                }
            }
        }
    }

    // ---- 2. enumerated sub-spaces (in this process) ----
    let mut enum_report: Option<EnumReport> = None;
    {
        let mut obs = Obs::default();
        let r = panic::catch(std::panic::AssertUnwindSafe(|| p.enumerate(tier, &mut obs)));
        match r {
            Ok(rep) => enum_report = rep,
            Err(pi) => obs.fail(pi.key(), pi.describe()),
        }
        for f in obs.failures {
            if f.key.starts_with("HARNESS-BUG") {
                infra.push(format!("{} :: {}", f.key, f.detail));
            } else if let Some(k) = known.iter().find(|k| k.status == "known" && findings::matches(&k.key, &f.key)) {
                let line = format!("KNOWN-FINDING: property={id} {} [key={}]", k.what, k.key);
                if !known_lines.contains(&line) {
                    known_lines.push(line)
                }
            } else {
                let rf = ReplayFile { property: id.into(), key: f.key.clone(), detail: f.detail.clone(), seed: args.seed, index: -1, case: serde_json::json!({"enumerated": f.detail}) };
                let path = write_replay(&rf);
                violations.push((f.key, path, f.detail));
            }
        }
    }

    // ---- 3. generated stream on a pool of worker processes ----
    let total = args.cases.unwrap_or_else(|| p.n_cases(tier));
    let chunk = p.chunk(tier).max(1);
    let mut queue: VecDeque<(u64, u64)> = VecDeque::new();
    let mut lo = 0;
    while lo < total {
        let hi = (lo + chunk).min(total);
        queue.push_back((lo, hi));
        lo = hi;
    }
    let max_workers = p.max_workers().max(1);
    let mut running: Vec<Running> = Vec::new();
    let mut merged = WorkerResult::default();
    let mut digests = HashSet::<u64>::new();
    let mut next_file = 0u64;
    let mut abort_keys_seen = HashSet::<String>::new();
    let mut lost_cases = 0u64;
    let mut not_run = 0u64;
    let strategy = p.strategy(tier);

    // a case that never returns costs the watchdog's patience three times (kill, confirm, confirm again); once one is on
    // record the run stops handing out work, and workers that stall afterwards are ended without further ceremony
    let hang_recorded = std::cell::Cell::new(false);
    let further_hangs = std::cell::Cell::new(0u64);
    let mut handle_dead_case = |index: u64, case: serde_json::Value, first: String, violations: &mut Vec<(String, PathBuf, String)>, merged: &mut WorkerResult, infra: &mut Vec<String>| {
        if hang_recorded.get() && first.starts_with("no progress") {
            further_hangs.set(further_hangs.get() + 1);
            return;
        }
        // confirm in a fresh process
        let oc = exec_case_in_child(id, tier, &case, Duration::from_secs(p.hang_secs()));
        let key = if oc.timed_out {
            // second confirmation for hangs
            let oc2 = exec_case_in_child(id, tier, &case, Duration::from_secs(p.hang_secs()));
            if oc2.timed_out {
                "hang:case does not terminate".to_string()
            } else {
                infra.push(format!("case {index}: hang not reproduced"));
                return;
            }
        } else if let Some(d) = oc.died {
            d
        } else {
            infra.push(format!("case {index}: worker died ({first}) but the case passes alone; not reproduced"));
            return;
        };
        if let Some(k) = known.iter().find(|k| k.status == "known" && findings::matches(&k.key, &key)) {
            *merged.known_hits.entry(k.key.clone()).or_default() += 1;
            return;
        }
        if !abort_keys_seen.insert(key.clone()) {
            return;
        }
        // shrink with one fresh process per candidate
        let mut tree = new_tree::<P>(&strategy, args.seed, index);
        let same = |c: &P::Case| -> bool {
            let v = serde_json::to_value(c).unwrap();
            let o = exec_case_in_child(id, tier, &v, Duration::from_secs(p.hang_secs()));
            if key.starts_with("hang:") {
                o.timed_out
            } else {
                o.died.as_deref() == Some(key.as_str())
            }
        };
        let mut best = tree.current();
        let mut iters = 0;
        if !key.starts_with("hang:") && tree.simplify() {
            loop {
                iters += 1;
                if iters > 300 {
                    break;
                }
                let cur = tree.current();
                if same(&cur) {
                    best = cur;
                    if !tree.simplify() {
                        break;
                    }
                } else if !tree.complicate() {
                    break;
                }
            }
        }
        let rf = ReplayFile { property: id.into(), key: key.clone(), detail: format!("process died / hung on this case ({first})"), seed: args.seed, index: index as i64, case: serde_json::to_value(&best).unwrap() };
        let path = write_replay(&rf);
        if key.starts_with("hang:") {
            hang_recorded.set(true);
        }
        violations.push((key, path, rf.detail.clone()));
    };

    // A run that has found something keeps going (a shallow defect must not hide what lies behind it) — but not for ever:
    // a change that breaks most cases makes every chunk end in a dead worker or in minutes of shrinking. Once a violation
    // is on record the run hands out work for a bounded time more; what was not run is counted in the evidence.
    let after_first_violation = Duration::from_secs(tier.pick(120, 900));
    let mut stop_at: Option<Instant> = None;
    let mut deaths = 0u64;
    loop {
        if stop_at.is_none() && (!violations.is_empty() || !merged.violations.is_empty()) {
            stop_at = Some(Instant::now() + after_first_violation);
        }
        if stop_at.map_or(false, |t| Instant::now() > t) || (deaths > 40 && !violations.is_empty()) {
            if !queue.is_empty() {
                not_run += queue.iter().map(|(lo, hi)| hi - lo).sum::<u64>();
                queue.clear();
            }
        }
        // spawn
        while running.len() < max_workers {
            let Some((lo, hi)) = queue.pop_front() else { break };
            next_file += 1;
            let out = scratch.join(format!("w{next_file}.json"));
            let last = scratch.join(format!("w{next_file}.last"));
            let child = Command::new(self_exe())
                .args(["worker", id, tier.as_str(), &args.seed.to_string(), &lo.to_string(), &hi.to_string()])
                .arg(&out)
                .arg(&last)
                .stdin(Stdio::null())
                .stdout(Stdio::null())
                .stderr(if std::env::var("VERIF_WORKER_STDERR").is_ok() { Stdio::inherit() } else { Stdio::null() })
                .spawn()
                .expect("spawn worker");
            running.push(Running { child, lo, hi, out, last, last_index_seen: -1, last_beat_seen: String::new(), last_progress: Instant::now() });
        }
        if running.is_empty() {
            break;
        }
        std::thread::sleep(Duration::from_millis(15));
        let mut i = 0;
        while i < running.len() {
            let r = &mut running[i];
            match r.child.try_wait() {
                Ok(Some(st)) => {
                    let r = running.swap_remove(i);
                    if st.success() {
                        match std::fs::read(&r.out).ok().and_then(|b| serde_json::from_slice::<WorkerResult>(&b).ok()) {
                            Some(w) => {
                                merge(&mut merged, &mut digests, w);
                                if p.fail_fast() && !merged.violations.is_empty() && !queue.is_empty() {
                                    not_run = queue.iter().map(|(lo, hi)| hi - lo).sum();
                                    queue.clear();
                                }
                            }
                            None => infra.push(format!("worker [{}, {}) left no result", r.lo, r.hi)),
                        }
                    } else {
                        // died: which case?
                        deaths += 1;
                        let first = format!("{st}");
                        match read_last(&r.last) {
                            Some((index, case)) => {
                                lost_cases += index.saturating_sub(r.lo);
                                handle_dead_case(index, case, first, &mut violations, &mut merged, &mut infra);
                                if index + 1 < r.hi {
                                    queue.push_front((index + 1, r.hi));
                                }
                            }
                            None => infra.push(format!("worker [{}, {}) died ({first}) before its first case", r.lo, r.hi)),
                        }
                    }
                    let _ = std::fs::remove_file(&r.out);
                    let _ = std::fs::remove_file(&r.last);
                    let _ = std::fs::remove_file(r.last.with_extension("beat"));
                    continue;
                }
                Ok(None) => {
                    // hang watchdog
                    let idx = read_last_index(&r.last).map(|v| v as i64).unwrap_or(-1);
                    let beat = std::fs::read_to_string(r.last.with_extension("beat")).unwrap_or_default();
                    if idx != r.last_index_seen || beat != r.last_beat_seen {
                        r.last_index_seen = idx;
                        r.last_beat_seen = beat;
                        r.last_progress = Instant::now();
                    } else if r.last_progress.elapsed() > Duration::from_secs(p.hang_secs()) {
                        let _ = r.child.kill();
                        let _ = r.child.wait();
                        let r = running.swap_remove(i);
                        match read_last(&r.last) {
                            Some((index, case)) => {
                                lost_cases += index.saturating_sub(r.lo);
                                handle_dead_case(index, case, "no progress (watchdog)".into(), &mut violations, &mut merged, &mut infra);
                                if hang_recorded.get() {
                                    not_run += queue.iter().map(|(lo, hi)| hi - lo).sum::<u64>() + (r.hi - index - 1);
                                    queue.clear();
                                } else if index + 1 < r.hi {
                                    queue.push_front((index + 1, r.hi));
                                }
                            }
                            None => infra.push(format!("worker [{}, {}) hung before its first case", r.lo, r.hi)),
                        }
                        continue;
                    }
                }
                Err(e) => infra.push(format!("try_wait: {e}")),
            }
            i += 1;
        }
    }
    let _ = std::fs::remove_dir_all(&scratch);

    for e in merged.harness_errors.drain(..) {
        infra.push(e)
    }
    // violations from workers: write replay files
    let mut seen_keys = HashSet::new();
    for rf in merged.violations.drain(..) {
        if !seen_keys.insert(rf.key.clone()) {
            continue;
        }
        let path = write_replay(&rf);
        violations.push((rf.key.clone(), path, rf.detail.clone()));
    }
    // known findings confirmed only by the stream
    for (k, n) in &merged.known_hits {
        if let Some(e) = known.iter().find(|e| &e.key == k) {
            let line = format!("KNOWN-FINDING: property={id} {} [key={}]", e.what, e.key);
            if !known_lines.contains(&line) {
                known_lines.push(line);
            }
            let _ = n;
        }
    }

    // ---- 4. evidence ----
    let wall = t0.elapsed().as_secs_f64();
    let (e_evals, e_dn, exhaustive, e_note, mut e_samples) = match enum_report {
        Some(r) => (r.evaluations, r.distinct_nontrivial, r.exhaustive, r.note, r.samples),
        None => (0, 0, false, String::new(), vec![]),
    };
    let mut samples = merged.samples.clone();
    samples.truncate(6);
    samples.append(&mut e_samples);
    if samples.is_empty() {
        samples.push(serde_json::json!("(no non-trivial case in this run)"));
    }
    let mut coverage = serde_json::json!({
        "evaluations": merged.evaluations + e_evals + regress_run,
        "distinct_nontrivial": digests.len() as u64 + e_dn,
        "rule": P::RULE,
        "samples": samples,
        "generated_cases": merged.cases,
        "nontrivial_cases": merged.nontrivial_cases,
        "enumerated_evaluations": e_evals,
        "regressions_replayed": regress_run,
        "classes": merged.labels,
        "excluded_by_construction": merged.excluded,
        "known_findings_hit": merged.known_hits,
        "ambiguous_accept_either": merged.ambiguous,
        "rejected_configs": merged.rejected_configs,
        "cases_lost_to_worker_death": lost_cases,
        "cases_not_run_after_first_violation": not_run,
        "workers_stalled_after_the_recorded_hang": further_hangs.get(),
        "workers": max_workers,
    });
    if exhaustive {
        coverage["exhaustive_subspace"] = serde_json::json!(e_note);
    } else if !e_note.is_empty() {
        coverage["enumeration_note"] = serde_json::json!(e_note);
    }
    let evidence = serde_json::json!({
        "property_id": id,
        "tier": tier.as_str(),
        "seed": args.seed,
        "level": "exploration",
        "coverage": coverage,
        "assumptions": P::ASSUMPTIONS,
        "wall_s": (wall * 100.0).round() / 100.0,
        "violations": violations.len(),
        "infrastructure_problems": infra,
        "known_findings_reported": known_lines,
        "notes": notes,
    });
    let evdir = verif_dir().join("evidence");
    let _ = std::fs::create_dir_all(&evdir);
    std::fs::write(evdir.join(format!("{id}.json")), serde_json::to_vec_pretty(&evidence).unwrap()).expect("write evidence");

    // ---- 5. report ----
    println!(
        "{id} {}: {} cases ({} evaluations), {} distinct non-trivial, {} regressions, {:.1}s, seed {}",
        tier.as_str(),
        merged.cases,
        merged.evaluations + e_evals,
        digests.len() as u64 + e_dn,
        regress_run,
        wall,
        args.seed
    );
    for n in &notes {
        println!("{n}")
    }
    for l in &known_lines {
        println!("{l}")
    }
    for (key, path, detail) in &violations {
        println!("VIOLATION property={id} replay={}", path.display());
        println!("  key: {key}");
        println!("  {}", detail.chars().take(600).collect::<String>().replace('\n', "\n  "));
    }
    for e in &infra {
        println!("INFRASTRUCTURE: {e}")
    }
    if !violations.is_empty() {
        std::process::exit(1)
    }
    if !infra.is_empty() {
        std::process::exit(2)
    }
    std::process::exit(0)
}

fn merge(into: &mut WorkerResult, digests: &mut HashSet<u64>, w: WorkerResult) {
    into.evaluations += w.evaluations;
    into.cases += w.cases;
    into.nontrivial_cases += w.nontrivial_cases;
    into.ambiguous += w.ambiguous;
    into.rejected_configs += w.rejected_configs;
    for d in w.digests {
        digests.insert(d);
    }
    fn add(a: &mut BTreeMap<String, u64>, b: BTreeMap<String, u64>) {
        for (k, v) in b {
            *a.entry(k).or_default() += v
        }
    }
    add(&mut into.labels, w.labels);
    add(&mut into.excluded, w.excluded);
    add(&mut into.known_hits, w.known_hits);
    // samples: keep the lowest ranges first for determinism
    if into.samples.len() < 6 {
        for s in w.samples {
            if into.samples.len() < 6 {
                into.samples.push(s)
            }
        }
    }
    into.violations.extend(w.violations);
    into.harness_errors.extend(w.harness_errors);
}

/// `ohv exec-case <ID> <tier>`: case JSON on stdin → ChildReport JSON on stdout.
pub fn exec_case_main<P: Property>(tier: Tier) -> ! {
    use std::io::Read;
    let mut s = String::new();
    std::io::stdin().read_to_string(&mut s).expect("stdin");
    let v: serde_json::Value = serde_json::from_str(&s).expect("case json");
    panic::LOUD.store(true, std::sync::atomic::Ordering::SeqCst);
    // the default hook stays audible here: the supervisor reads stderr to classify aborts
    let obs = worker::replay_case::<P>(tier, &v);
    let rep = ChildReport { failures: obs.failures, nontrivial: obs.nontrivial };
    println!("{}", serde_json::to_string(&rep).unwrap());
    std::process::exit(0)
}

/// `ohv replay <ID> <path>`: human-readable re-execution of a stored case, no proptest involved.
pub fn replay_main<P: Property>(tier: Tier, path: &str) -> ! {
    let text = std::fs::read_to_string(path).unwrap_or_else(|e| {
        eprintln!("cannot read {path}: {e}");
        std::process::exit(2)
    });
    let rf: ReplayFile = serde_json::from_str(&text).unwrap_or_else(|e| {
        eprintln!("{path} is not a replay file: {e}");
        std::process::exit(2)
    });
    println!("replaying {} case (recorded key: {})", rf.property, rf.key);
    println!("case: {}", rf.case);
    let known = findings::for_property(P::ID);
    let obs = worker::replay_case::<P>(tier, &rf.case);
    let mut bad = false;
    if obs.failures.is_empty() {
        println!("PASS: the case shows no deviation on the current tree");
    }
    for f in &obs.failures {
        let k = known.iter().find(|k| k.status == "known" && findings::matches(&k.key, &f.key));
        match k {
            Some(k) => println!("KNOWN-FINDING: property={} {} [key={}]", P::ID, k.what, k.key),
            None => {
                bad = true;
                println!("VIOLATION property={} replay={path}", P::ID);
            }
        }
        println!("  key: {}\n  {}", f.key, f.detail.replace('\n', "\n  "));
    }
    std::process::exit(if bad { 1 } else { 0 })
}
