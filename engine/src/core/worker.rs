//! Worker: executes a contiguous range of generated cases in-process.

use super::*;
use std::io::{Seek, SeekFrom, Write};

pub struct WorkerArgs {
    pub tier: Tier,
    pub seed: u64,
    pub lo: u64,
    pub hi: u64,
    pub out: std::path::PathBuf,
    pub last: std::path::PathBuf,
}

pub fn run_worker<P: Property>(a: WorkerArgs) -> ! {
    panic::install_hook();
    let p = P::new(a.tier);
    let strategy = p.strategy(a.tier);
    let known = findings::for_property(P::ID);
    let mut res = WorkerResult { lo: a.lo, hi: a.hi, ..Default::default() };
    let mut digests = std::collections::HashSet::<u64>::new();
    let mut last = std::fs::OpenOptions::new().create(true).write(true).truncate(true).open(&a.last).expect("last-case file");
    let _ = HEARTBEAT.set(a.last.with_extension("beat"));
    let mut reservoir_seen = 0u64;
    let mut reported_keys = std::collections::HashSet::<String>::new();

    for index in a.lo..a.hi {
        let tree = new_tree::<P>(&strategy, a.seed, index);
        let case = tree.current();
        let json = serde_json::to_vec(&case).expect("case serialises");
        // last-case record: index + case, written before execution
        {
            let head = format!("{index}\n");
            let _ = last.seek(SeekFrom::Start(0));
            let _ = last.set_len(0);
            let _ = last.write_all(head.as_bytes());
            let _ = last.write_all(&json);
            let _ = last.flush();
        }
        let obs = run_case(&p, &case);
        res.cases += 1;
        res.evaluations += obs.evals;
        res.ambiguous += obs.ambiguous;
        if obs.rejected_config {
            res.rejected_configs += 1
        }
        for l in &obs.labels {
            *res.labels.entry(l.to_string()).or_default() += 1
        }
        for l in &obs.excluded {
            *res.excluded.entry(l.to_string()).or_default() += 1
        }
        if obs.nontrivial {
            res.nontrivial_cases += 1;
            if obs.sub_digests.is_empty() {
                digests.insert(fnv(&json));
            } else {
                for d in &obs.sub_digests {
                    digests.insert(*d);
                }
            }
            // samples: first two, then reservoir of four
            reservoir_seen += 1;
            if res.samples.len() < 6 {
                res.samples.push(truncate_sample(serde_json::from_slice(&json).unwrap()));
            } else {
                // deterministic reservoir replacement driven by the case digest
                let r = fnv(&[&json[..], &reservoir_seen.to_le_bytes()[..]].concat()) % reservoir_seen;
                if r < 4 {
                    res.samples[2 + r as usize] = truncate_sample(serde_json::from_slice(&json).unwrap());
                }
            }
        }
        for f in obs.failures {
            if f.key.starts_with("HARNESS-BUG") {
                if res.harness_errors.len() < 5 {
                    res.harness_errors.push(format!("case {index}: {} :: {}", f.key, f.detail));
                }
                continue;
            }
            if let Some(k) = known.iter().find(|k| k.status == "known" && findings::matches(&k.key, &f.key)) {
                *res.known_hits.entry(k.key.clone()).or_default() += 1;
                continue;
            }
            if !reported_keys.insert(f.key.clone()) {
                continue; // one replay per signature and worker
            }
            // a deviation that does not show again on the same case is not a reproducible unit: report it as
            // inconclusive (exit 2), never as a violation
            if !(0..3).any(|_| run_case(&p, &case).failures.iter().any(|g| g.key == f.key)) {
                res.harness_errors.push(format!("case {index}: deviation `{}` was observed once and not reproduced in three re-runs of the same case (inconclusive): {}", f.key, f.detail.chars().take(300).collect::<String>()));
                continue;
            }
            let (min_case, min_f) = if std::env::var("VERIF_NO_SHRINK").is_ok() {
                (case.clone(), f.clone())
            } else {
                let tree = new_tree::<P>(&strategy, a.seed, index);
                let (min_case, min_f, _) = shrink(&p, tree, &f.key);
                reduce_structurally(&p, min_case, &f.key, min_f)
            };
            res.violations.push(ReplayFile {
                property: P::ID.into(),
                key: min_f.key,
                detail: min_f.detail,
                seed: a.seed,
                index: index as i64,
                case: serde_json::to_value(&min_case).unwrap(),
            });
        }
        res.done = index + 1 - a.lo;
        if p.fail_fast() && !res.violations.is_empty() {
            break;
        }
    }
    res.digests = digests.into_iter().collect();
    std::fs::write(&a.out, serde_json::to_vec(&res).unwrap()).expect("write worker result");
    std::process::exit(0)
}

fn truncate_sample(v: serde_json::Value) -> serde_json::Value {
    let s = v.to_string();
    if s.len() > 6000 {
        serde_json::json!({ "truncated_json_prefix": s.chars().take(6000).collect::<String>() })
    } else {
        v
    }
}

/// Execute one stored case (replay file or regression) and print expectation vs observation.
pub fn replay_case<P: Property>(tier: Tier, case_json: &serde_json::Value) -> Obs {
    panic::install_hook();
    let p = match std::panic::catch_unwind(|| P::new(tier)) {
        Ok(p) => p,
        Err(e) => {
            let msg = e.downcast_ref::<String>().cloned().or_else(|| e.downcast_ref::<&str>().map(|s| s.to_string())).unwrap_or_else(|| "panic".into());
            println!("VIOLATION property={} replay=(construction)", P::ID);
            println!("  key: fixed-application-refused-at-construction:{}", panic::stem(&msg).chars().take(60).collect::<String>());
            println!("  building the check's fixed application(s) through the public API panicked: {msg}");
            std::process::exit(1)
        }
    };
    let case: P::Case = match serde_json::from_value(case_json.clone()) {
        Ok(c) => c,
        Err(e) => {
            eprintln!("replay: case does not deserialise for {}: {e}", P::ID);
            std::process::exit(2)
        }
    };
    run_case(&p, &case)
}
