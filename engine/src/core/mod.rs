//! Engine core: property trait, per-case driver, shrinking, panic capture.

pub mod exec;
pub mod findings;
pub mod panic;
pub mod supervisor;
pub mod worker;

use proptest::strategy::{BoxedStrategy, Strategy, ValueTree};
use proptest::test_runner::{Config, RngAlgorithm, TestRng, TestRunner};
use serde::{de::DeserializeOwned, Deserialize, Serialize};
use std::collections::BTreeMap;

#[derive(Clone, Copy, Debug, PartialEq, Eq, Serialize, Deserialize)]
pub enum Tier {
    Quick,
    Thorough,
}
impl Tier {
    pub fn parse(s: &str) -> Option<Tier> {
        match s {
            "quick" => Some(Tier::Quick),
            "thorough" => Some(Tier::Thorough),
            _ => None,
        }
    }
    pub fn as_str(&self) -> &'static str {
        match self {
            Tier::Quick => "quick",
            Tier::Thorough => "thorough",
        }
    }
    pub fn pick<T>(&self, quick: T, thorough: T) -> T {
        match self {
            Tier::Quick => quick,
            Tier::Thorough => thorough,
        }
    }
}

/// One deviation between the code under test and the oracle.
#[derive(Clone, Debug, Serialize, Deserialize, PartialEq)]
pub struct Failure {
    /// machine-computed signature (what `known_findings.json` keys on)
    pub key: String,
    /// expectation next to observation, for humans
    pub detail: String,
}
impl Failure {
    pub fn new(key: impl Into<String>, detail: impl Into<String>) -> Self {
        Failure { key: key.into(), detail: detail.into() }
    }
}

/// What a property's check reports about one case besides failures.
#[derive(Default, Debug)]
pub struct Obs {
    pub nontrivial: bool,
    /// sub-evaluations inside the case (requests of an application, steps of a history); at least 1
    pub evals: u64,
    pub labels: Vec<&'static str>,
    pub ambiguous: u64,
    pub rejected_config: bool,
    pub excluded: Vec<&'static str>,
    pub failures: Vec<Failure>,
    /// extra digests of non-trivial sub-cases (when a case bundles many requests)
    pub sub_digests: Vec<u64>,
}
impl Obs {
    pub fn label(&mut self, l: &'static str) {
        self.labels.push(l)
    }
    /// a label computed at run time (interned)
    pub fn label_dyn(&mut self, s: &str) {
        use std::sync::Mutex;
        static TABLE: Mutex<std::collections::BTreeMap<String, &'static str>> = Mutex::new(std::collections::BTreeMap::new());
        let mut t = TABLE.lock().unwrap();
        let l = match t.get(s) {
            Some(v) => *v,
            None => {
                let l: &'static str = Box::leak(s.to_string().into_boxed_str());
                t.insert(s.to_string(), l);
                l
            }
        };
        drop(t);
        self.labels.push(l)
    }
    pub fn fail(&mut self, key: impl Into<String>, detail: impl Into<String>) {
        let f = Failure::new(key, detail);
        if !self.failures.iter().any(|g| g.key == f.key) {
            self.failures.push(f)
        }
    }
    pub fn nontrivial_sub(&mut self, digest: u64) {
        self.nontrivial = true;
        self.sub_digests.push(digest)
    }
}

pub trait Property {
    type Case: std::fmt::Debug + Clone + Serialize + DeserializeOwned + 'static;
    const ID: &'static str;
    /// how cases are generated and what makes one non-trivial / distinct
    const RULE: &'static str;
    /// assumptions / trusted base, copied into the evidence file
    const ASSUMPTIONS: &'static [&'static str];

    fn new(tier: Tier) -> Self;
    fn n_cases(&self, tier: Tier) -> u64;
    fn strategy(&self, tier: Tier) -> BoxedStrategy<Self::Case>;
    /// Execute one case against the code under test and the oracle.
    /// Panics of the code under test may simply unwind: the driver catches and classifies them.
    fn check(&self, case: &Self::Case, obs: &mut Obs);

    /// Cases enumerated rather than generated (run by the supervisor process itself, before the
    /// generated stream). Returns `(evaluations, distinct_nontrivial, exhaustive)`.
    fn enumerate(&self, _tier: Tier, _obs: &mut Obs) -> Option<EnumReport> {
        None
    }
    /// maximum number of workers that may run concurrently (file-system or signal bound checks)
    fn max_workers(&self) -> usize {
        14
    }
    /// cases per worker process (an `Ohkami` leaks by design, so workers are recycled)
    fn chunk(&self, _tier: Tier) -> u64 {
        2000
    }
    /// seconds without progress on one case before the supervisor declares a hang candidate
    fn hang_secs(&self) -> u64 {
        60
    }
    /// upper bounds on re-executions while shrinking (proptest simplification, structural reduction);
    /// lower them when one execution is expensive (compiling a generated program)
    fn shrink_budget(&self) -> (u32, u32) {
        (4000, 3000)
    }
    /// Stop generating once a violation is on record (for checks whose failing cases are expensive: each one waits
    /// out a time limit or compiles a program). Never changes anything on a tree where the property holds.
    fn fail_fast(&self) -> bool {
        false
    }
    /// Is this (possibly hand-reduced) case inside the domain the property quantifies over?
    /// Used by the structural reducer, which deletes array elements of the case's JSON form.
    fn in_domain(&self, _case: &Self::Case) -> bool {
        true
    }
}

#[derive(Default, Debug, Serialize, Deserialize)]
pub struct EnumReport {
    pub evaluations: u64,
    pub distinct_nontrivial: u64,
    pub exhaustive: bool,
    pub note: String,
    pub samples: Vec<serde_json::Value>,
}

pub fn fnv(bytes: &[u8]) -> u64 {
    let mut h: u64 = 0xcbf29ce484222325;
    for b in bytes {
        h ^= *b as u64;
        h = h.wrapping_mul(0x100000001b3);
    }
    h
}

pub fn case_rng(seed: u64, id: &str, index: u64) -> TestRng {
    let mut s = [0u8; 32];
    s[..8].copy_from_slice(&seed.to_le_bytes());
    s[8..16].copy_from_slice(&index.to_le_bytes());
    s[16..24].copy_from_slice(&fnv(id.as_bytes()).to_le_bytes());
    s[24..32].copy_from_slice(&fnv(&[&seed.to_le_bytes()[..], &index.to_le_bytes()[..], id.as_bytes()].concat()).to_le_bytes());
    TestRng::from_seed(RngAlgorithm::ChaCha, &s)
}

pub fn case_runner(seed: u64, id: &str, index: u64) -> TestRunner {
    let config = Config { failure_persistence: None, cases: 1, ..Config::default() };
    TestRunner::new_with_rng(config, case_rng(seed, id, index))
}

/// Result of running `check` on one case with panics caught.
pub fn run_case<P: Property>(p: &P, case: &P::Case) -> Obs {
    heartbeat();
    let mut obs = Obs::default();
    let r = panic::catch(std::panic::AssertUnwindSafe(|| p.check(case, &mut obs)));
    if let Err(pi) = r {
        obs.fail(pi.key(), pi.describe());
    }
    if obs.evals == 0 {
        obs.evals = 1
    }
    obs
}

/// Shrink `tree` as far as the failure with signature `key` persists.
pub fn shrink<P: Property>(p: &P, mut tree: Box<dyn ValueTree<Value = P::Case>>, key: &str) -> (P::Case, Failure, u32) {
    let fails = |c: &P::Case| -> Option<Failure> { run_case(p, c).failures.into_iter().find(|f| f.key == key) };
    let mut last = tree.current();
    let mut last_f = fails(&last).unwrap_or_else(|| Failure::new(key, "(not reproduced on re-run: depends on hidden state)"));
    let mut iters = 0u32;
    // (minimisation is a courtesy: when failing evaluations are slow — they wait out time limits — it stops after 90 s
    // and the case is reported less small)
    let started = std::time::Instant::now();
    if tree.simplify() {
        loop {
            iters += 1;
            if iters > p.shrink_budget().0 || started.elapsed() > std::time::Duration::from_secs(90) {
                break;
            }
            let cur = tree.current();
            if let Some(f) = fails(&cur) {
                last = cur;
                last_f = f;
                if !tree.simplify() {
                    break;
                }
            } else if !tree.complicate() {
                break;
            }
        }
    }
    (last, last_f, iters)
}

/// Structural reduction after proptest's own shrinking: repeatedly delete one element of any array in
/// the case's JSON form (routes, items, methods, requests, operations, bytes) while the failure with
/// the same signature persists and the case stays in the property's domain.
pub fn reduce_structurally<P: Property>(p: &P, case: P::Case, key: &str, fail: Failure) -> (P::Case, Failure) {
    fn arrays(v: &serde_json::Value, path: &mut Vec<String>, out: &mut Vec<(Vec<String>, usize)>) {
        match v {
            serde_json::Value::Array(a) => {
                out.push((path.clone(), a.len()));
                for (i, x) in a.iter().enumerate() {
                    path.push(i.to_string());
                    arrays(x, path, out);
                    path.pop();
                }
            }
            serde_json::Value::Object(o) => {
                for (k, x) in o {
                    path.push(k.clone());
                    arrays(x, path, out);
                    path.pop();
                }
            }
            _ => {}
        }
    }
    fn at<'a>(v: &'a mut serde_json::Value, path: &[String]) -> Option<&'a mut serde_json::Value> {
        let mut cur = v;
        for k in path {
            cur = match cur {
                serde_json::Value::Array(a) => a.get_mut(k.parse::<usize>().ok()?)?,
                serde_json::Value::Object(o) => o.get_mut(k)?,
                _ => return None,
            };
        }
        Some(cur)
    }
    let mut best = case;
    let mut best_f = fail;
    let mut budget = p.shrink_budget().1;
    let started = std::time::Instant::now();
    'outer: loop {
        if started.elapsed() > std::time::Duration::from_secs(90) {
            break;
        }
        let json = serde_json::to_value(&best).unwrap();
        let mut list = Vec::new();
        arrays(&json, &mut Vec::new(), &mut list);
        // larger deletions first: whole tail halves, then single elements
        for (path, len) in list {
            let mut spans: Vec<(usize, usize)> = Vec::new();
            if len >= 4 {
                spans.push((len / 2, len));
                spans.push((0, len / 2));
            }
            for i in (0..len).rev() {
                spans.push((i, i + 1));
            }
            for (lo, hi) in spans {
                if budget == 0 || started.elapsed() > std::time::Duration::from_secs(90) {
                    break 'outer;
                }
                let mut cand = json.clone();
                match at(&mut cand, &path) {
                    Some(serde_json::Value::Array(a)) if hi <= a.len() => {
                        a.drain(lo..hi);
                    }
                    _ => continue,
                }
                let Ok(c) = serde_json::from_value::<P::Case>(cand) else { continue };
                if !p.in_domain(&c) {
                    continue;
                }
                budget -= 1;
                if let Some(f) = run_case(p, &c).failures.into_iter().find(|f| f.key == key) {
                    best = c;
                    best_f = f;
                    continue 'outer;
                }
            }
        }
        // strings: try empty, first half, second half
        let mut strings = Vec::new();
        fn collect(v: &serde_json::Value, path: &mut Vec<String>, out: &mut Vec<(Vec<String>, String)>) {
            match v {
                serde_json::Value::String(s) if s.len() > 2 => out.push((path.clone(), s.clone())),
                serde_json::Value::Array(a) => {
                    for (i, x) in a.iter().enumerate() {
                        path.push(i.to_string());
                        collect(x, path, out);
                        path.pop();
                    }
                }
                serde_json::Value::Object(o) => {
                    for (k, x) in o {
                        path.push(k.clone());
                        collect(x, path, out);
                        path.pop();
                    }
                }
                _ => {}
            }
        }
        collect(&json, &mut Vec::new(), &mut strings);
        for (path, sv) in strings {
            let chars: Vec<char> = sv.chars().collect();
            let cands = [String::new(), chars[..chars.len() / 2].iter().collect::<String>(), chars[chars.len() / 2..].iter().collect::<String>(), chars[..chars.len() - 1].iter().collect::<String>()];
            for cs in cands {
                if budget == 0 || started.elapsed() > std::time::Duration::from_secs(90) {
                    break 'outer;
                }
                let mut cand = json.clone();
                match at(&mut cand, &path) {
                    Some(x @ serde_json::Value::String(_)) => *x = serde_json::Value::String(cs),
                    _ => continue,
                }
                let Ok(c) = serde_json::from_value::<P::Case>(cand) else { continue };
                if !p.in_domain(&c) {
                    continue;
                }
                budget -= 1;
                if let Some(f) = run_case(p, &c).failures.into_iter().find(|f| f.key == key) {
                    best = c;
                    best_f = f;
                    continue 'outer;
                }
            }
        }
        break;
    }
    (best, best_f)
}

#[derive(Serialize, Deserialize, Debug, Clone)]
pub struct ReplayFile {
    pub property: String,
    pub key: String,
    pub detail: String,
    pub seed: u64,
    pub index: i64,
    pub case: serde_json::Value,
}

#[derive(Serialize, Deserialize, Debug, Default)]
pub struct WorkerResult {
    pub lo: u64,
    pub hi: u64,
    pub done: u64,
    pub evaluations: u64,
    pub cases: u64,
    pub nontrivial_cases: u64,
    pub digests: Vec<u64>,
    pub labels: BTreeMap<String, u64>,
    pub excluded: BTreeMap<String, u64>,
    pub known_hits: BTreeMap<String, u64>,
    pub ambiguous: u64,
    pub rejected_configs: u64,
    pub samples: Vec<serde_json::Value>,
    pub violations: Vec<ReplayFile>,
    pub harness_errors: Vec<String>,
}

/// Heartbeat of a worker: while a failure is being confirmed and shrunk the last-case record does not change, and a
/// check whose failing evaluations wait out time limits would look hung to the supervisor's watchdog. `run_case`
/// beats at most once per second; a single evaluation that never returns still stops the beats.
pub static HEARTBEAT: std::sync::OnceLock<std::path::PathBuf> = std::sync::OnceLock::new();
pub fn heartbeat() {
    use std::cell::Cell;
    thread_local! {
        static LAST: Cell<Option<std::time::Instant>> = const { Cell::new(None) };
        static BEATS: Cell<u64> = const { Cell::new(0) };
    }
    if let Some(p) = HEARTBEAT.get() {
        if LAST.with(|c| c.get().map_or(true, |t| t.elapsed() >= std::time::Duration::from_secs(1))) {
            let n = BEATS.with(|b| {
                b.set(b.get() + 1);
                b.get()
            });
            let _ = std::fs::write(p, n.to_string());
            LAST.with(|c| c.set(Some(std::time::Instant::now())));
        }
    }
}

pub fn new_tree<P: Property>(strategy: &BoxedStrategy<P::Case>, seed: u64, index: u64) -> Box<dyn ValueTree<Value = P::Case>> {
    let mut runner = case_runner(seed, P::ID, index);
    Box::new(strategy.new_tree(&mut runner).expect("strategy rejected"))
}

pub fn verif_dir() -> std::path::PathBuf {
    std::env::var("VERIF_DIR").map(Into::into).unwrap_or_else(|_| "/verif".into())
}
