//! known_findings.json: read-only at run time.

use serde::{Deserialize, Serialize};

#[derive(Serialize, Deserialize, Debug, Clone)]
pub struct Finding {
    pub property: String,
    /// "known" or "fixed"
    pub status: String,
    pub key: String,
    pub what: String,
    /// path relative to /verif of the minimal case (replayed first in every tier)
    #[serde(default)]
    pub regress: Option<String>,
    #[serde(default)]
    pub commit: Option<String>,
}

pub fn load() -> Vec<Finding> {
    let p = super::verif_dir().join("known_findings.json");
    match std::fs::read_to_string(&p) {
        Ok(s) => serde_json::from_str(&s).unwrap_or_else(|e| {
            eprintln!("known_findings.json does not parse: {e}");
            std::process::exit(2)
        }),
        Err(_) => Vec::new(),
    }
}

pub fn for_property(id: &str) -> Vec<Finding> {
    load().into_iter().filter(|f| f.property == id).collect()
}

/// A key matches an entry when equal, or when the entry ends in `*` and is a prefix.
pub fn matches(entry_key: &str, key: &str) -> bool {
    if let Some(p) = entry_key.strip_suffix('*') {
        key.starts_with(p)
    } else {
        entry_key == key
    }
}
