//! Scripted I/O and the in-memory session loop (hook H2 exposes the real read / handle / send).

use crate::core::exec::block_on;
use ohkami::__verif__::{send, VerifRequest, VerifRouter};
use std::collections::VecDeque;
use std::pin::Pin;
use std::task::{Context, Poll};
use tokio::io::{AsyncRead, ReadBuf};

/// An `AsyncRead` that hands out one scripted segment per call (at most the caller's capacity; the
/// rest of a segment stays for the next call) and EOF after the last one.
pub struct ScriptedReader {
    segs: VecDeque<Vec<u8>>,
    pub reads: usize,
    /// number of reads that were issued when nothing was left (answered with EOF)
    pub eof_reads: usize,
    pub delivered: usize,
}
impl ScriptedReader {
    pub fn new(segs: Vec<Vec<u8>>) -> Self {
        ScriptedReader { segs: segs.into_iter().filter(|s| !s.is_empty()).collect(), reads: 0, eof_reads: 0, delivered: 0 }
    }
    pub fn one(bytes: &[u8]) -> Self {
        Self::new(vec![bytes.to_vec()])
    }
    pub fn exhausted(&self) -> bool {
        self.segs.is_empty()
    }
}
impl AsyncRead for ScriptedReader {
    fn poll_read(mut self: Pin<&mut Self>, _cx: &mut Context<'_>, buf: &mut ReadBuf<'_>) -> Poll<std::io::Result<()>> {
        self.reads += 1;
        if buf.remaining() == 0 {
            return Poll::Ready(Ok(()));
        }
        match self.segs.pop_front() {
            None => {
                self.eof_reads += 1;
                Poll::Ready(Ok(()))
            }
            Some(mut seg) => {
                let n = seg.len().min(buf.remaining());
                buf.put_slice(&seg[..n]);
                self.delivered += n;
                if n < seg.len() {
                    seg.drain(..n);
                    self.segs.push_front(seg);
                }
                Poll::Ready(Ok(()))
            }
        }
    }
}

thread_local! {
    /// at most this many bytes are accepted per `write` by the sinks of `drive_conn` (None: everything)
    static WRITE_LIMIT: std::cell::Cell<Option<usize>> = const { std::cell::Cell::new(None) };
}
/// Sets the per-write acceptance limit of the response sink on this thread; returns the previous one.
pub fn set_write_limit(limit: Option<usize>) -> Option<usize> {
    WRITE_LIMIT.with(|c| c.replace(limit.map(|n| n.max(1))))
}

thread_local! {
    /// called by the sinks of `drive_conn` at the start of every `write` call with the call's index (0, 1, …): what
    /// another task on the same thread does while this send is suspended in the middle of its output
    static WRITE_HOOK: std::cell::RefCell<Option<Box<dyn FnMut(usize)>>> = const { std::cell::RefCell::new(None) };
}
pub fn set_write_hook(hook: Option<Box<dyn FnMut(usize)>>) {
    WRITE_HOOK.with(|h| *h.borrow_mut() = hook)
}

/// An `AsyncWrite` that accepts at most `limit` bytes per call (a socket whose send buffer is nearly full): a caller
/// that ignores the returned count loses bytes here, as it would on a real connection.
pub struct ChoppySink {
    pub out: Vec<u8>,
    pub limit: Option<usize>,
    pub short_writes: usize,
    pub calls: usize,
}
impl ChoppySink {
    pub fn new() -> Self {
        ChoppySink { out: Vec::new(), limit: WRITE_LIMIT.with(|c| c.get()), short_writes: 0, calls: 0 }
    }
}
impl tokio::io::AsyncWrite for ChoppySink {
    fn poll_write(mut self: Pin<&mut Self>, _cx: &mut Context<'_>, buf: &[u8]) -> Poll<std::io::Result<usize>> {
        let call = self.calls;
        self.calls += 1;
        // (the hook is taken out while it runs: what it does may write into sinks of its own)
        if let Some(mut hook) = WRITE_HOOK.with(|h| h.borrow_mut().take()) {
            hook(call);
            WRITE_HOOK.with(|h| {
                let mut h = h.borrow_mut();
                if h.is_none() {
                    *h = Some(hook)
                }
            });
        }
        let n = match self.limit {
            Some(l) if l < buf.len() => {
                self.short_writes += 1;
                l
            }
            _ => buf.len(),
        };
        self.out.extend_from_slice(&buf[..n]);
        Poll::Ready(Ok(n))
    }
    fn poll_flush(self: Pin<&mut Self>, _cx: &mut Context<'_>) -> Poll<std::io::Result<()>> {
        Poll::Ready(Ok(()))
    }
    fn poll_shutdown(self: Pin<&mut Self>, _cx: &mut Context<'_>) -> Poll<std::io::Result<()>> {
        Poll::Ready(Ok(()))
    }
}

#[derive(Debug, Clone, PartialEq)]
pub enum ReadOutcome {
    /// `Ok(Some(()))`: a request was parsed and handled
    Handled,
    /// `Err(response)`: refused by the parser with this response
    Refused,
    /// `Ok(None)`: the connection is closed without a response
    Closed,
}

#[derive(Debug, Clone)]
pub struct Exchange {
    pub outcome: ReadOutcome,
    /// bytes written for this exchange
    pub wire: Vec<u8>,
    /// bytes the serializer reserved (`status line + headers.size + payload`), when a response was sent
    pub declared: Option<usize>,
}

/// The session loop of `Session::manage`, re-stated over a scripted reader:
/// clear → read → (handle → send | send error | stop), until close.
pub fn drive_conn(router: &VerifRouter, reader: &mut ScriptedReader, max_exchanges: usize) -> Result<Vec<Exchange>, String> {
    let mut req = VerifRequest::init(std::net::IpAddr::V4(std::net::Ipv4Addr::new(127, 0, 0, 1)));
    let mut out = Vec::new();
    for _ in 0..max_exchanges {
        req.clear();
        let r = block_on(req.read(reader)).map_err(|e| format!("read: {e}"))?;
        match r {
            Ok(Some(())) => {
                let close = matches!(req.get().headers.Connection(), Some("close" | "Close"));
                let res = block_on(router.handle(&mut req)).map_err(|e| format!("handle: {e}"))?;
                let declared = ohkami::__verif__::declared_size(&res);
                let mut sink = ChoppySink::new();
                let _ = block_on(send(res, &mut sink)).map_err(|e| format!("send: {e}"))?;
                out.push(Exchange { outcome: ReadOutcome::Handled, wire: sink.out, declared: Some(declared) });
                if close {
                    break;
                }
            }
            Ok(None) => {
                out.push(Exchange { outcome: ReadOutcome::Closed, wire: vec![], declared: None });
                break;
            }
            Err(res) => {
                let declared = ohkami::__verif__::declared_size(&res);
                let mut sink = ChoppySink::new();
                let _ = block_on(send(res, &mut sink)).map_err(|e| format!("send: {e}"))?;
                out.push(Exchange { outcome: ReadOutcome::Refused, wire: sink.out, declared: Some(declared) });
            }
        }
    }
    Ok(out)
}

/// One request on a fresh connection delivered as a single segment; returns the first exchange.
pub fn drive_one(router: &VerifRouter, bytes: &[u8]) -> Result<Exchange, String> {
    let mut reader = ScriptedReader::one(bytes);
    let mut v = drive_conn(router, &mut reader, 1)?;
    v.pop().ok_or_else(|| "no exchange".to_string())
}

pub fn freeze_clock() {
    // 2024-02-29 12:34:56 UTC
    ohkami::util::__verif_clock__::freeze(1709210096);
}
pub const FROZEN_NOW: u64 = 1709210096;

// ---------------------------------------------------------------- one request → observed outcome

use crate::harness::app::{take_log, Ev};
use crate::oracle::http::{parse_response, ParsedResponse};

#[derive(Debug, Clone)]
pub struct Observed {
    pub outcome: ReadOutcome,
    pub res: Option<ParsedResponse>,
    pub log: Vec<Ev>,
    pub wire: Vec<u8>,
    pub declared: Option<usize>,
}
impl Observed {
    pub fn status(&self) -> u16 {
        self.res.as_ref().map(|r| r.status).unwrap_or(0)
    }
    pub fn handlers(&self) -> Vec<&Ev> {
        self.log.iter().filter(|e| matches!(e, Ev::Handler(..))).collect()
    }
    pub fn summary(&self) -> String {
        match &self.res {
            Some(r) => format!("{:?} status {} body {:?} log {:?}", self.outcome, r.status, String::from_utf8_lossy(&r.body[..r.body.len().min(120)]), self.log),
            None => format!("{:?} (no response) log {:?}", self.outcome, self.log),
        }
    }
}

pub fn request_bytes(method: &str, target: &str, headers: &[(String, String)], body: Option<&[u8]>) -> Vec<u8> {
    let mut v = format!("{method} {target} HTTP/1.1\r\n").into_bytes();
    for (n, val) in headers {
        v.extend_from_slice(n.as_bytes());
        v.extend_from_slice(b": ");
        v.extend_from_slice(val.as_bytes());
        v.extend_from_slice(b"\r\n");
    }
    if let Some(b) = body {
        v.extend_from_slice(format!("Content-Length: {}\r\n", b.len()).as_bytes());
    }
    v.extend_from_slice(b"\r\n");
    if let Some(b) = body {
        v.extend_from_slice(b);
    }
    v
}

/// Send one request on a fresh in-memory connection; parse what comes back with the independent parser.
/// `Err` = the response is not a well-formed HTTP message (or the harness executor got stuck).
pub fn request(router: &VerifRouter, method: &str, target: &str, headers: &[(String, String)], body: Option<&[u8]>) -> Result<Observed, String> {
    let bytes = request_bytes(method, target, headers, body);
    request_prebuilt(router, method, bytes)
}
/// … with the request bytes written by the caller (targets that are not UTF-8, odd line structure)
pub fn request_prebuilt(router: &VerifRouter, method: &str, bytes: Vec<u8>) -> Result<Observed, String> {
    let _ = take_log();
    let ex = drive_one(router, &bytes)?;
    let log = take_log();
    let res = if ex.wire.is_empty() {
        None
    } else {
        let r = parse_response(&ex.wire, method == "HEAD").map_err(|e| format!("malformed response ({e}): {:?}", String::from_utf8_lossy(&ex.wire[..ex.wire.len().min(300)])))?;
        if r.consumed != ex.wire.len() {
            return Err(format!("{} stray bytes after the response", ex.wire.len() - r.consumed));
        }
        Some(r)
    };
    Ok(Observed { outcome: ex.outcome, res, log, wire: ex.wire, declared: ex.declared })
}
