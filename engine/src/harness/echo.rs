//! A fixed echo application: every handler reflects everything it can observe about the request, so
//! that a byte attributed to the wrong request, a stale header or a leaked context entry changes the response.

use crate::core::fnv;
use ohkami::__verif__::VerifRouter;
use ohkami::prelude::*;

#[derive(Clone)]
pub struct Marker(pub String);

#[derive(Clone)]
struct SetCtx;
impl FangAction for SetCtx {
    async fn fore<'a>(&'a self, req: &'a mut Request) -> Result<(), Response> {
        if let Some(v) = req.headers.get("X-Set-Ctx") {
            let v = v.to_string();
            req.context.set(Marker(v));
        }
        // a gateway-style fang: hop-by-hop headers are not for the handlers. (What the client said about the
        // connection stays what the client said: the session must not ask the application's copy afterwards.)
        if req.headers.get("X-Strip-Hop").is_some() {
            req.headers.set().Connection(None);
        }
        Ok(())
    }
}

pub fn render(req: &Request, params: &[String]) -> String {
    let mut s = String::new();
    s.push_str(&format!("method={}\n", req.method.as_str()));
    s.push_str(&format!("path={}\n", req.path.str()));
    s.push_str(&format!("params={}\n", params.join("|")));
    s.push_str(&format!("query={:?}\n", req.query.iter().map(|(k, v)| (k.into_owned(), v.into_owned())).collect::<Vec<_>>()));
    s.push_str(&format!("headers={:?}\n", req.headers));
    match req.payload() {
        Some(p) => s.push_str(&format!("payload={}:{:016x}\n", p.len(), fnv(p))),
        None => s.push_str("payload=none\n"),
    }
    match req.context.get::<Marker>() {
        Some(m) => s.push_str(&format!("ctx={}\n", m.0)),
        None => s.push_str("ctx=none\n"),
    }
    s
}

async fn echo0(req: &Request) -> String {
    render(req, &[])
}
async fn echo1(a: String, req: &Request) -> String {
    render(req, &[a])
}
async fn echo2((a, b): (String, String), req: &Request) -> String {
    render(req, &[a, b])
}

/// a streamed (chunked, event-stream) response in the middle of a connection
async fn events(req: &Request) -> ohkami::sse::DataStream<String> {
    let first = format!("query={:?}", req.query.iter().map(|(k, v)| (k.into_owned(), v.into_owned())).collect::<Vec<_>>());
    ohkami::sse::DataStream::new(move |mut s| async move {
        s.send(first);
        s.send("second event".to_string());
    })
}

pub fn echo_app() -> Ohkami {
    let ctx_app = Ohkami::with(SetCtx, ("/get".GET(echo0), "/set".POST(echo0).PUT(echo0)));
    Ohkami::new((
        "/".GET(echo0).POST(echo0).PUT(echo0).PATCH(echo0).DELETE(echo0),
        "/e/:a".GET(echo1).PUT(echo1).POST(echo1).PATCH(echo1).DELETE(echo1),
        "/e/:a/:b".GET(echo2).POST(echo2).PUT(echo2),
        "/ctx".By(ctx_app),
        "/sse".GET(events),
    ))
}

pub fn echo_router() -> VerifRouter {
    VerifRouter::new(echo_app())
}

/// targets that hit the echo application (the generator picks among these and free ones)
pub fn echo_target(kind: u8, a: &str, b: &str) -> String {
    match kind % 8 {
        7 => "/sse".to_string(),
        0 => "/".to_string(),
        1 | 2 => format!("/e/{a}"),
        3 => format!("/e/{a}/{b}"),
        4 => "/ctx/get".to_string(),
        5 => "/ctx/set".to_string(),
        _ => format!("/nope/{a}"),
    }
}
