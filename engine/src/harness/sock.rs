//! The real `Session::manage` over a `socketpair(2)` posing as a TCP stream (hook H2 `VerifRouter::session`).

use ohkami::__verif__::VerifRouter;
use std::os::fd::{FromRawFd, IntoRawFd};
use std::time::Duration;
use tokio::io::{AsyncReadExt, AsyncWriteExt};

fn pending_on(fd: i32) -> i32 {
    let mut n: libc::c_int = 0;
    unsafe { libc::ioctl(fd, libc::FIONREAD, &mut n) };
    n
}

/// Write the segments one by one to a real session; segment i+1 is written only after the server
/// has consumed segment i (FIONREAD on the server's descriptor reads 0) and, when `wait_for_response`
/// says so for that segment, after `responses_expected` more complete responses were read (decided by
/// `complete`: given all bytes read so far, how many complete responses do they hold?).
/// Returns every byte the server wrote until it closed the connection.
pub fn run_session(router: &VerifRouter, segments: &[Vec<u8>], wait_after: &[bool], complete: impl Fn(&[u8]) -> usize) -> Result<Vec<u8>, String> {
    crate::core::exec::tokio_block_on(async move {
        let (client, server) = std::os::unix::net::UnixStream::pair().map_err(|e| e.to_string())?;
        client.set_nonblocking(true).map_err(|e| e.to_string())?;
        server.set_nonblocking(true).map_err(|e| e.to_string())?;
        let server_fd = server.into_raw_fd();
        let server_std = unsafe { std::net::TcpStream::from_raw_fd(server_fd) };
        let server_tokio = tokio::net::TcpStream::from_std(server_std).map_err(|e| e.to_string())?;
        let mut client = tokio::net::UnixStream::from_std(client).map_err(|e| e.to_string())?;
        let r = router.clone();
        let task = tokio::spawn(async move { r.session(server_tokio, std::net::IpAddr::V4(std::net::Ipv4Addr::LOCALHOST)).await });
        let mut got: Vec<u8> = Vec::new();
        let mut buf = vec![0u8; 1 << 16];
        let mut responses_seen = 0usize;
        let mut closed = false;
        for (i, seg) in segments.iter().enumerate() {
            if closed {
                break;
            }
            if client.write_all(seg).await.is_err() {
                break;
            }
            let _ = client.flush().await;
            // pace: until the server has taken the bytes out of its socket buffer
            let mut spins = 0;
            loop {
                // drain whatever the server has written meanwhile
                match tokio::time::timeout(Duration::from_millis(1), client.read(&mut buf)).await {
                    Ok(Ok(0)) => {
                        closed = true;
                        break;
                    }
                    Ok(Ok(n)) => got.extend_from_slice(&buf[..n]),
                    Ok(Err(_)) => {
                        closed = true;
                        break;
                    }
                    Err(_) => {}
                }
                let pending = pending_on(server_fd);
                let need_response = wait_after.get(i).copied().unwrap_or(false);
                let have = complete(&got);
                if pending == 0 && (!need_response || have > responses_seen) {
                    // give the session one more scheduling round so that a read() that already returned is processed
                    tokio::task::yield_now().await;
                    if pending_on(server_fd) == 0 {
                        if need_response {
                            responses_seen = have;
                        }
                        break;
                    }
                }
                spins += 1;
                if spins > 4000 {
                    break; // the server does not answer this segment (it will time out); move on
                }
            }
        }
        // half-close: the server sees EOF and ends the session
        let _ = client.shutdown().await;
        loop {
            match tokio::time::timeout(Duration::from_secs(8), client.read(&mut buf)).await {
                Ok(Ok(0)) | Ok(Err(_)) => break,
                Ok(Ok(n)) => got.extend_from_slice(&buf[..n]),
                Err(_) => return Err("session did not end within 8 s after the client closed".into()),
            }
        }
        let _ = tokio::time::timeout(Duration::from_secs(8), task).await;
        Ok(got)
    })
}
