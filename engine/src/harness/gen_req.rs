//! Generator of well-formed requests in the supported HTTP/1.1 subset (C02 domain A), shared by
//! C02, C05, C06.

use proptest::collection::vec;
use proptest::prelude::*;
use serde::{Deserialize, Serialize};

pub const STD_NAMES: [&str; 46] = [
    "Accept", "Accept-Encoding", "Accept-Language", "Access-Control-Request-Headers", "Access-Control-Request-Method", "Authorization", "Cache-Control", "Connection", "Content-Disposition", "Content-Encoding", "Content-Language",
    "Content-Length", "Content-Location", "Content-Type", "Cookie", "Date", "Expect", "Forwarded", "From", "Host", "If-Match", "If-Modified-Since", "If-None-Match", "If-Range", "If-Unmodified-Since", "Link", "Max-Forwards", "Origin",
    "Proxy-Authorization", "Range", "Referer", "Sec-Fetch-Dest", "Sec-Fetch-Mode", "Sec-Fetch-Site", "Sec-Fetch-User", "Sec-WebSocket-Extensions", "Sec-WebSocket-Key", "Sec-WebSocket-Protocol", "Sec-WebSocket-Version", "TE", "Trailer",
    "Transfer-Encoding", "User-Agent", "Upgrade", "Upgrade-Insecure-Requests", "Via",
];

#[derive(Debug, Clone, Serialize, Deserialize, PartialEq)]
pub struct WReq {
    pub method: String,
    /// raw (already escaped) target: path and optional `?query`
    pub target: String,
    /// header lines as (name as written, value); Content-Length is added by `to_bytes` when there is a body
    pub headers: Vec<(String, String)>,
    pub body: Option<Vec<u8>>,
    /// how the Content-Length name is written: 0 canonical, 1 lower, 2 UPPER, 3 mixed
    pub cl_case: u8,
    /// this many further body bytes (a fixed pattern), written behind `body`: bodies of megabytes without megabytes in the case
    #[serde(default)]
    pub pad: u32,
}
impl WReq {
    pub fn full_body(&self) -> Option<Vec<u8>> {
        let mut b = self.body.clone()?;
        b.extend((0..self.pad).map(|i| (i.wrapping_mul(2654435761) >> 13) as u8));
        Some(b)
    }
}

pub fn recase(name: &str, mode: u8, salt: u64) -> String {
    match mode % 4 {
        0 => name.to_string(),
        1 => name.to_ascii_lowercase(),
        2 => name.to_ascii_uppercase(),
        _ => name.chars().enumerate().map(|(i, c)| if (salt >> (i % 60)) & 1 == 1 { c.to_ascii_uppercase() } else { c.to_ascii_lowercase() }).collect(),
    }
}

impl WReq {
    pub fn to_bytes(&self) -> Vec<u8> {
        let mut v = format!("{} {} HTTP/1.1\r\n", self.method, self.target).into_bytes();
        for (n, val) in &self.headers {
            v.extend_from_slice(n.as_bytes());
            v.extend_from_slice(b": ");
            v.extend_from_slice(val.as_bytes());
            v.extend_from_slice(b"\r\n");
        }
        let body = self.full_body();
        if let Some(b) = &body {
            v.extend_from_slice(recase("Content-Length", self.cl_case, 0x5a5a5a).as_bytes());
            v.extend_from_slice(format!(": {}\r\n", b.len()).as_bytes());
        }
        v.extend_from_slice(b"\r\n");
        if let Some(b) = &body {
            v.extend_from_slice(b);
        }
        v
    }
}

fn enc_component(s: &str, escape_all: bool, upper: bool) -> String {
    let mut out = String::new();
    for b in s.bytes() {
        let unreserved = b.is_ascii_alphanumeric() || b"-._~".contains(&b);
        if unreserved && !escape_all {
            out.push(b as char)
        } else if upper {
            out.push_str(&format!("%{b:02X}"))
        } else {
            out.push_str(&format!("%{b:02x}"))
        }
    }
    out
}

pub fn path_strategy() -> impl Strategy<Value = String> {
    let seg = prop_oneof![
        5 => "[a-zA-Z0-9._~-]{1,8}".prop_map(|s| s),
        1 => "[a-zA-Z0-9!$&'()*+,;=:@-]{1,6}",
        2 => ("\\PC{1,4}", any::<bool>(), any::<bool>()).prop_map(|(s, all, up)| enc_component(&s, all, up)),
    ];
    (vec(seg, 0..=5), prop::bool::weighted(0.15)).prop_map(|(segs, trailing)| {
        let mut p: String = segs.iter().map(|s| format!("/{s}")).collect();
        if p.is_empty() {
            p.push('/')
        } else if trailing {
            p.push('/')
        }
        p
    })
}

pub fn query_strategy() -> impl Strategy<Value = Option<String>> {
    let part = prop_oneof![
        4 => "[a-zA-Z0-9._~-]{1,6}".prop_map(|s| s),
        2 => ("\\PC{1,5}", any::<bool>(), any::<bool>()).prop_map(|(s, all, up)| enc_component(&s, all, up)),
    ];
    let val = prop_oneof![
        1 => Just(String::new()),
        4 => "[a-zA-Z0-9._~+-]{0,8}".prop_map(|s| s),
        // characters RFC 3986 allows raw in a query and that mean nothing inside a value: a second `=`, `?`, `/`, `:`, `@`
        2 => "[a-zA-Z0-9=?/:@!$'()*,;]{1,8}".prop_map(|s| s),
        2 => ("\\PC{0,6}", any::<bool>(), any::<bool>()).prop_map(|(s, all, up)| enc_component(&s, all, up)),
    ];
    prop::option::weighted(0.5, vec((part, val), 0..=6).prop_map(|kv| kv.iter().map(|(k, v)| format!("{k}={v}")).collect::<Vec<_>>().join("&")))
}

pub fn header_value() -> impl Strategy<Value = String> {
    prop_oneof![
        6 => "[!-~]([ -~]{0,30}[!-~])?",
        1 => "[!-~][ -~\\t]{0,20}[!-~]",
        1 => "[a-z]{1,5}[\\u{80}-\\u{2fff}]{1,4}[a-z]{0,3}",
        1 => Just(String::new()),
    ]
}

/// (name as written, value). `framing` headers (Content-Length, Transfer-Encoding) are never generated here.
pub fn header_line() -> impl Strategy<Value = (String, String)> {
    let std_name = (0usize..STD_NAMES.len(), 0u8..4, any::<u64>()).prop_filter_map("framing header", |(i, mode, salt)| {
        let n = STD_NAMES[i];
        if n == "Content-Length" || n == "Transfer-Encoding" || n == "Connection" || n == "Expect" || n == "Upgrade" {
            None
        } else {
            Some(recase(n, mode, salt))
        }
    });
    let custom = prop_oneof![
        3 => (prop_oneof![Just("X-Custom"), Just("X-Request-Id"), Just("X-Early-Access")], 0u8..4, any::<u64>()).prop_map(|(n, m, s)| recase(n, m, s)),
        1 => "[A-Za-z][A-Za-z0-9!#$%&'*+.^_`|~-]{0,12}".prop_filter("collides with a standard or framing name", |n| !STD_NAMES.iter().any(|s| s.eq_ignore_ascii_case(n))),
    ];
    (prop_oneof![3 => std_name, 1 => custom], header_value())
}

pub fn body_strategy(around: usize) -> impl Strategy<Value = Option<Vec<u8>>> {
    let bytes = prop_oneof![
        3 => vec(any::<u8>(), 1..200),
        1 => vec(any::<u8>(), 1..40).prop_map(|mut v| { v[0] = 0; v }),
        1 => vec(0x20u8..0x7f, 1..300),
        2 => (around.saturating_sub(40)..around + 40, any::<u8>(), any::<u8>()).prop_map(|(n, a, b)| (0..n.max(1)).map(|i| if i % 7 == 0 { a } else { b.wrapping_add(i as u8) }).collect()),
        1 => (1200usize..3000, any::<u8>()).prop_map(|(n, a)| (0..n).map(|i| a.wrapping_mul(i as u8).wrapping_add(i as u8 >> 3)).collect()),
        // binary form data: a NUL early, a blank line (CR LF CR LF) later — bytes that look like the end of a head
        1 => (vec(0x20u8..0x7f, 2..40), vec(any::<u8>(), 0..30), vec(0x20u8..0x7f, 0..60)).prop_map(|(a, b, c)| {
            let mut v = a;
            v.push(0);
            v.extend(b);
            v.extend_from_slice(b"\r\n\r\n");
            v.extend(c);
            v
        }),
    ];
    prop::option::weighted(0.5, bytes)
}

pub fn wreq() -> impl Strategy<Value = WReq> {
    (
        (0usize..7).prop_map(|i| crate::oracle::http::METHODS[i].to_string()),
        path_strategy(),
        query_strategy(),
        vec(header_line(), 0..=12),
        prop::bool::weighted(0.3),
        body_strategy(900),
        0u8..4,
    )
        .prop_map(|(method, path, query, mut headers, repeat, body, cl_case)| {
            if repeat && !headers.is_empty() {
                // repeat one of the lines 1–2 more times with other values
                let (n, v) = headers[0].clone();
                headers.push((n.clone(), format!("{v}2")));
                if headers.len() % 2 == 0 {
                    headers.push((n.to_ascii_lowercase(), "third".to_string()));
                }
            }
            let target = match query {
                Some(q) => format!("{path}?{q}"),
                None => path,
            };
            WReq { method, target, headers, body, cl_case, pad: 0 }
        })
}
