//! byte strings that serialise as hex (readable replay files)

use serde::{Deserialize, Deserializer, Serialize, Serializer};

#[derive(Clone, PartialEq, Eq, Default)]
pub struct HexBytes(pub Vec<u8>);

impl std::fmt::Debug for HexBytes {
    fn fmt(&self, f: &mut std::fmt::Formatter<'_>) -> std::fmt::Result {
        write!(f, "b\"{}\"", self.0.escape_ascii())
    }
}
impl Serialize for HexBytes {
    fn serialize<S: Serializer>(&self, s: S) -> Result<S::Ok, S::Error> {
        s.serialize_str(&self.0.iter().map(|b| format!("{b:02x}")).collect::<String>())
    }
}
impl<'de> Deserialize<'de> for HexBytes {
    fn deserialize<D: Deserializer<'de>>(d: D) -> Result<Self, D::Error> {
        let s = String::deserialize(d)?;
        if s.len() % 2 != 0 || !s.is_ascii() {
            return Err(serde::de::Error::custom("odd hex"));
        }
        (0..s.len()).step_by(2).map(|i| u8::from_str_radix(&s[i..i + 2], 16).map_err(serde::de::Error::custom)).collect::<Result<Vec<u8>, _>>().map(HexBytes)
    }
}
