//! Python sidecar (jsonschema, Draft 2020-12) for C15/C16.

use std::io::{BufRead, BufReader, Write};
use std::process::{Child, ChildStdin, ChildStdout, Command, Stdio};

pub struct Sidecar {
    _child: Child,
    stdin: ChildStdin,
    stdout: BufReader<ChildStdout>,
}

impl Sidecar {
    pub fn spawn() -> Result<Self, String> {
        let script = crate::core::verif_dir().join("tools").join("schema_oracle.py");
        let mut child = Command::new("python3-vt").arg(&script).stdin(Stdio::piped()).stdout(Stdio::piped()).stderr(Stdio::null()).spawn().map_err(|e| format!("cannot start python3-vt {}: {e}", script.display()))?;
        let stdin = child.stdin.take().unwrap();
        let stdout = BufReader::new(child.stdout.take().unwrap());
        Ok(Sidecar { _child: child, stdin, stdout })
    }
    /// returns the list of (index, message) errors
    pub fn call(&mut self, req: &serde_json::Value) -> Result<Vec<(i64, String)>, String> {
        writeln!(self.stdin, "{}", req).map_err(|e| e.to_string())?;
        self.stdin.flush().map_err(|e| e.to_string())?;
        let mut line = String::new();
        self.stdout.read_line(&mut line).map_err(|e| e.to_string())?;
        let v: serde_json::Value = serde_json::from_str(&line).map_err(|e| format!("sidecar answered {line:?}: {e}"))?;
        if let Some(f) = v.get("fatal") {
            return Err(format!("sidecar: {f}"));
        }
        Ok(v["errors"].as_array().cloned().unwrap_or_default().into_iter().map(|e| (e[0].as_i64().unwrap_or(-1), e[1].as_str().unwrap_or("").to_string())).collect())
    }
}
