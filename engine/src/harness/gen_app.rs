//! Strategies for application trees and for requests aimed at them.

use super::app::*;
use proptest::collection::vec;
use proptest::prelude::*;
use serde::{Deserialize, Serialize};

pub const STATICS: [&str; 11] = ["a", "ab", "abc", "b", "users", "users2", "x.y", "a-b", "a_b", "0", "A"];
pub const PARAMS: [&str; 3] = ["p", "q", "id"];

#[derive(Clone, Debug)]
pub struct GenCfg {
    pub max_depth: u32,
    pub max_routes: usize,
    pub max_mounts: usize,
    pub max_fangs: usize,
    pub max_locals: usize,
    pub early_fangs: bool,
    /// C04's quantifier: every mount prefix is used by exactly one application and nobody else registers under it
    pub exclusive_mounts: bool,
    pub allow_empty_prefix: bool,
    pub split_items: bool,
    pub max_route_len: usize,
}
impl GenCfg {
    pub fn routing(tier: crate::core::Tier) -> Self {
        GenCfg { max_depth: tier.pick(2, 3), max_routes: 6, max_mounts: 2, max_fangs: 0, max_locals: 0, early_fangs: false, exclusive_mounts: false, allow_empty_prefix: true, split_items: true, max_route_len: 4 }
    }
}

fn static_name() -> impl Strategy<Value = String> {
    (0usize..STATICS.len()).prop_map(|i| STATICS[i].to_string())
}
fn seg() -> impl Strategy<Value = Seg> {
    prop_oneof![
        4 => static_name().prop_map(Seg::S),
        1 => (0usize..PARAMS.len()).prop_map(|i| Seg::P(PARAMS[i].to_string())),
    ]
}
fn fang_desc(early: bool) -> impl Strategy<Value = FangDesc> {
    (if early { 0u8..4 } else { 0u8..1 }).prop_map(|e| FangDesc { id: 0, early: e == 3 })
}
fn handler_desc(cfg: &GenCfg) -> impl Strategy<Value = HandlerDesc> {
    (0u8..=2, vec(fang_desc(cfg.early_fangs), 0..=cfg.max_locals), 0u8..4).prop_map(|(arity, locals, local_pat)| HandlerDesc { id: 0, arity, locals, local_pat })
}
fn route_item(cfg: &GenCfg) -> impl Strategy<Value = RouteItem> {
    let methods = proptest::sample::subsequence(REG_METHODS.to_vec(), 1..=5);
    (vec(seg(), 0..=cfg.max_route_len), methods, vec(handler_desc(cfg), 5)).prop_map(|(segs, methods, hds)| RouteItem { segs, handlers: methods.into_iter().zip(hds).collect() })
}

fn raw_app(depth: u32, cfg: &GenCfg) -> BoxedStrategy<AppDesc> {
    let fangs = vec(fang_desc(cfg.early_fangs), 0..=cfg.max_fangs);
    let routes = vec(route_item(cfg), 0..=cfg.max_routes);
    if depth >= cfg.max_depth {
        (fangs, 0u8..4, routes).prop_map(|(fangs, fang_pat, routes)| AppDesc { fangs, fang_pat, items: routes.into_iter().map(Item::Route).collect() }).boxed()
    } else {
        let min_prefix = if cfg.allow_empty_prefix { 0 } else { 1 };
        let prefix = prop_oneof![
            6 => vec(seg(), 1..=2),
            1 => vec(seg(), min_prefix..=3),
        ];
        let mounts = vec((prefix, raw_app(depth + 1, cfg)), 0..=cfg.max_mounts);
        (fangs, 0u8..4, routes, mounts, any::<u64>())
            .prop_map(|(fangs, fang_pat, routes, mounts, mix)| {
                let mut items: Vec<Item> = routes.into_iter().map(Item::Route).collect();
                // interleave mounts among the routes at positions derived from the generated `mix`
                let mut mix = mix;
                for (prefix, app) in mounts {
                    let pos = (mix % (items.len() as u64 + 1)) as usize;
                    mix /= 7;
                    items.insert(pos, Item::Mount { prefix, app });
                }
                AppDesc { fangs, fang_pat, items }
            })
            .boxed()
    }
}

struct Norm<'a> {
    cfg: &'a GenCfg,
    next_id: u32,
    taken: Vec<(Vec<Seg>, M)>,
    mount_prefixes: Vec<Vec<Seg>>,
}

fn demote_excess_params(segs: &mut Vec<Seg>, budget: usize) {
    let mut seen = 0;
    for s in segs.iter_mut() {
        if let Seg::P(name) = s {
            seen += 1;
            if seen > budget {
                *s = Seg::S(name.clone());
            }
        }
    }
}

fn normalize_app(app: &mut AppDesc, prefix: &[Seg], n: &mut Norm) {
    let budget = 2usize.saturating_sub(n_params(prefix));
    for f in &mut app.fangs {
        n.next_id += 1;
        f.id = n.next_id;
    }
    // 1. clean the items
    let mut local_patterns: Vec<Vec<Seg>> = Vec::new();
    let mut local_mounts: Vec<Vec<Seg>> = Vec::new();
    let mut kept: Vec<Item> = Vec::new();
    let items = std::mem::take(&mut app.items);
    // mounts first decide what is exclusive
    if n.cfg.exclusive_mounts {
        for it in &items {
            if let Item::Mount { prefix: p, .. } = it {
                let mut p = p.clone();
                demote_excess_params(&mut p, budget);
                local_mounts.push(p);
            }
        }
    }
    let mut accepted_mounts: Vec<Vec<Seg>> = Vec::new();
    for it in items {
        match it {
            Item::Route(mut r) => {
                demote_excess_params(&mut r.segs, budget);
                if local_patterns.iter().any(|p| unify_eq(p, &r.segs)) {
                    continue;
                }
                let mut full = prefix.to_vec();
                full.extend(r.segs.iter().cloned());
                if n.cfg.exclusive_mounts {
                    // nobody else registers under a mount prefix (compared modulo param names), and a param
                    // segment of a mount prefix has no static sibling at its position
                    if local_mounts.iter().any(|mp| !mp.is_empty() && (unify_prefix(mp, &r.segs) || sibling_of_param(mp, &r.segs))) {
                        continue;
                    }
                    if n.mount_prefixes.iter().any(|mp| unify_prefix(mp, &full) && mp.len() > prefix.len()) {
                        continue;
                    }
                }
                r.handlers.retain(|(m, _)| !n.taken.iter().any(|(p, tm)| tm == m && unify_eq(p, &full)));
                if r.handlers.is_empty() {
                    continue;
                }
                let total_params = n_params(&full);
                for (m, h) in &mut r.handlers {
                    n.next_id += 1;
                    h.id = n.next_id;
                    h.arity = h.arity.min(total_params as u8);
                    for f in &mut h.locals {
                        n.next_id += 1;
                        f.id = n.next_id;
                    }
                    n.taken.push((full.clone(), *m));
                }
                local_patterns.push(r.segs.clone());
                kept.push(Item::Route(r));
            }
            Item::Mount { prefix: mut p, app: mut sub } => {
                demote_excess_params(&mut p, budget);
                if accepted_mounts.iter().any(|q| unify_eq(q, &p)) {
                    continue;
                }
                if n.cfg.exclusive_mounts {
                    if p.is_empty() {
                        continue;
                    }
                    // prefixes must not nest inside one another at the same level, nor be siblings of a param prefix
                    if accepted_mounts.iter().any(|q| unify_prefix(q, &p) || unify_prefix(&p, q) || sibling_of_param(q, &p) || sibling_of_param(&p, q)) {
                        continue;
                    }
                    if local_patterns.iter().any(|r| unify_prefix(&p, r) || sibling_of_param(&p, r)) {
                        continue;
                    }
                }
                let mut full = prefix.to_vec();
                full.extend(p.iter().cloned());
                accepted_mounts.push(p.clone());
                n.mount_prefixes.push(full.clone());
                normalize_app(&mut sub, &full, n);
                kept.push(Item::Mount { prefix: p, app: sub });
            }
        }
    }
    // 2. optionally split the methods of a route over two items
    if n.cfg.split_items {
        let mut out = Vec::new();
        for it in kept {
            match it {
                Item::Route(r) if r.handlers.len() >= 2 && (r.handlers[0].1.id % 3 == 0) => {
                    let k = 1 + (r.handlers[1].1.id as usize % (r.handlers.len() - 1));
                    let (a, b) = r.handlers.split_at(k);
                    out.push(Item::Route(RouteItem { segs: r.segs.clone(), handlers: a.to_vec() }));
                    out.push(Item::Route(RouteItem { segs: r.segs.clone(), handlers: b.to_vec() }));
                }
                other => out.push(other),
            }
        }
        kept = out;
    }
    app.items = kept;
}

/// `other` branches off `mount` at a position where `mount` has a param and `other` a static (or the
/// other way round) after an identical (unified) prefix: the static alternative would shadow the param.
fn sibling_of_param(mount: &[Seg], other: &[Seg]) -> bool {
    for i in 0..mount.len().min(other.len()) {
        if mount[i].unify_eq(&other[i]) {
            continue;
        }
        return mount[i].is_param() != other[i].is_param();
    }
    false
}

pub fn app_strategy(cfg: GenCfg) -> BoxedStrategy<AppDesc> {
    raw_app(0, &cfg)
        .prop_map(move |mut app| {
            let mut n = Norm { cfg: &cfg, next_id: 0, taken: vec![], mount_prefixes: vec![] };
            normalize_app(&mut app, &[], &mut n);
            app
        })
        .boxed()
}

// ---------------------------------------------------------------- requests

#[derive(Clone, Debug, Serialize, Deserialize, PartialEq)]
pub struct Req {
    pub method: M,
    /// request target (path and optional query), raw bytes as text (always ASCII here)
    pub target: String,
    /// ids of fangs asked to answer early (C04)
    #[serde(default)]
    pub early: Vec<u32>,
}

#[derive(Clone, Debug)]
pub enum Fill {
    OtherStatic(usize),
    StaticPlusSuffix(usize),
    ProperPrefix(usize),
    Pct2F,
    Pct61,
    PctUtf8,
    PctBad,
    Long,
    Plain(String),
}
#[derive(Clone, Debug)]
pub enum Mutn {
    None,
    TrailingSlash,
    DoubleTrailingSlash,
    DoubleSlash(usize),
    ExtraSeg(usize),
    MissingSeg,
    NearMiss(usize, u8),
    Query,
}
#[derive(Clone, Debug)]
pub struct Recipe {
    pub free: bool,
    pub route_pick: usize,
    pub fills: [Fill; 2],
    pub mutn: Mutn,
    pub registered_method: bool,
    pub method: M,
    pub free_segs: Vec<String>,
    pub early_pick: Option<usize>,
}

fn fill() -> impl Strategy<Value = Fill> {
    prop_oneof![
        3 => (0usize..STATICS.len()).prop_map(Fill::OtherStatic),
        2 => (0usize..STATICS.len()).prop_map(Fill::StaticPlusSuffix),
        1 => (0usize..STATICS.len()).prop_map(Fill::ProperPrefix),
        1 => Just(Fill::Pct2F),
        1 => Just(Fill::Pct61),
        1 => Just(Fill::PctUtf8),
        1 => Just(Fill::PctBad),
        1 => Just(Fill::Long),
        3 => "[a-zA-Z0-9._~-]{1,8}".prop_map(Fill::Plain),
    ]
}
fn mutn() -> impl Strategy<Value = Mutn> {
    prop_oneof![
        8 => Just(Mutn::None),
        2 => Just(Mutn::TrailingSlash),
        1 => Just(Mutn::DoubleTrailingSlash),
        1 => (0usize..5).prop_map(Mutn::DoubleSlash),
        2 => (0usize..STATICS.len()).prop_map(Mutn::ExtraSeg),
        2 => Just(Mutn::MissingSeg),
        3 => (0usize..5, 0u8..4).prop_map(|(p, k)| Mutn::NearMiss(p, k)),
        1 => Just(Mutn::Query),
    ]
}
pub fn recipe() -> impl Strategy<Value = Recipe> {
    let free_seg = prop_oneof![
        5 => static_name(),
        1 => "[a-z0-9]{1,3}",
        1 => Just(String::new()),
    ];
    (
        prop::bool::weighted(0.2),
        any::<prop::sample::Index>(),
        [fill(), fill()],
        mutn(),
        prop::bool::weighted(0.65),
        (0usize..7).prop_map(|i| ALL_METHODS[i]),
        vec(free_seg, 0..=4),
        prop::option::weighted(0.25, 0usize..64),
    )
        .prop_map(|(free, pick, fills, mutn, registered_method, method, free_segs, early_pick)| Recipe { free, route_pick: pick.index(1 << 16), fills, mutn, registered_method, method, free_segs, early_pick })
}

fn fill_value(f: &Fill) -> String {
    match f {
        Fill::OtherStatic(i) => STATICS[*i].to_string(),
        Fill::StaticPlusSuffix(i) => format!("{}2", STATICS[*i]),
        Fill::ProperPrefix(i) => {
            let s = STATICS[*i];
            if s.len() > 1 {
                s[..s.len() - 1].to_string()
            } else {
                "z".to_string()
            }
        }
        Fill::Pct2F => "x%2Fy".to_string(),
        Fill::Pct61 => "%61".to_string(),
        Fill::PctUtf8 => "%E4%B8%80%C3%A9".to_string(),
        Fill::PctBad => "%FF".to_string(),
        Fill::Long => "L".repeat(120),
        Fill::Plain(s) => s.clone(),
    }
}

pub fn concretize(flat: &Flat, r: &Recipe) -> Req {
    let all_fang_ids: Vec<u32> = {
        let mut v: Vec<u32> = flat.apps.iter().flat_map(|a| a.fangs.iter()).filter(|f| f.early).map(|f| f.id).collect();
        v.extend(flat.routes.iter().flat_map(|r| r.handler.locals.iter()).filter(|f| f.early).map(|f| f.id));
        v
    };
    let early = match (r.early_pick, all_fang_ids.len()) {
        (Some(k), n) if n > 0 => vec![all_fang_ids[k % n]],
        _ => vec![],
    };
    if r.free || flat.routes.is_empty() {
        let mut t: String = r.free_segs.iter().map(|s| format!("/{s}")).collect();
        if t.is_empty() {
            t = "/".into()
        }
        return Req { method: r.method, target: t, early };
    }
    // monotone index mapping
    let idx = (r.route_pick * flat.routes.len()) >> 16;
    let route = &flat.routes[idx.min(flat.routes.len() - 1)];
    let mut segs: Vec<String> = Vec::new();
    let mut k = 0;
    for s in &route.segs {
        match s {
            Seg::S(l) => segs.push(l.clone()),
            Seg::P(_) => {
                segs.push(fill_value(&r.fills[k.min(1)]));
                k += 1;
            }
        }
    }
    let mut query = "";
    let mut trailing = "";
    match &r.mutn {
        Mutn::None => {}
        Mutn::TrailingSlash => trailing = "/",
        Mutn::DoubleTrailingSlash => trailing = "//",
        Mutn::DoubleSlash(p) => {
            let pos = (*p).min(segs.len());
            segs.insert(pos, String::new());
        }
        Mutn::ExtraSeg(i) => segs.push(STATICS[*i].to_string()),
        Mutn::MissingSeg => {
            segs.pop();
        }
        Mutn::NearMiss(p, kind) => {
            if !segs.is_empty() {
                let pos = (*p) % segs.len();
                let s = &mut segs[pos];
                match kind {
                    0 => s.push('2'),
                    1 => s.push('x'),
                    2 => {
                        if s.len() > 1 {
                            s.pop();
                        }
                    }
                    _ => s.insert(0, 'a'),
                }
            }
        }
        Mutn::Query => query = "?k=v&x=%2F",
    }
    let mut t: String = segs.iter().map(|s| format!("/{s}")).collect();
    if t.is_empty() {
        t = "/".into();
        if trailing == "/" {
            trailing = ""
        }
    }
    let method = if r.registered_method { route.method } else { r.method };
    Req { method, target: format!("{t}{trailing}{query}"), early }
}
