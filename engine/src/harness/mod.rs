pub mod app;
pub mod drive;
pub mod gen_app;
pub mod echo;
pub mod gen_req;
pub mod hex;
pub mod sidecar;
pub mod sock;
