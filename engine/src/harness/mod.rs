pub mod app;
pub mod drive;
pub mod gen_app;
