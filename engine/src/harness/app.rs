//! Run-time descriptions of applications (routes, mounts, fangs) and their construction through
//! the real public API (`Route` methods, `Ohkami::with`, `Routing::apply` via hook H1).

use ohkami::__verif__::{HandlerSet, Routing};
use ohkami::fang::handler::IntoHandler;
use ohkami::prelude::*;
use ohkami::{Fang, FangProc};
use serde::{Deserialize, Serialize};
use std::cell::RefCell;

#[derive(Clone, Copy, Debug, PartialEq, Eq, Hash, PartialOrd, Ord, Serialize, Deserialize)]
pub enum M {
    GET,
    PUT,
    POST,
    PATCH,
    DELETE,
    HEAD,
    OPTIONS,
}
pub const REG_METHODS: [M; 5] = [M::GET, M::PUT, M::POST, M::PATCH, M::DELETE];
pub const ALL_METHODS: [M; 7] = [M::GET, M::PUT, M::POST, M::PATCH, M::DELETE, M::HEAD, M::OPTIONS];
impl M {
    pub fn as_str(&self) -> &'static str {
        match self {
            M::GET => "GET",
            M::PUT => "PUT",
            M::POST => "POST",
            M::PATCH => "PATCH",
            M::DELETE => "DELETE",
            M::HEAD => "HEAD",
            M::OPTIONS => "OPTIONS",
        }
    }
}

#[derive(Clone, Debug, PartialEq, Eq, Hash, PartialOrd, Ord, Serialize, Deserialize)]
pub enum Seg {
    S(String),
    P(String),
}
impl Seg {
    pub fn lit(&self) -> String {
        match self {
            Seg::S(s) => format!("/{s}"),
            Seg::P(p) => format!("/:{p}"),
        }
    }
    pub fn is_param(&self) -> bool {
        matches!(self, Seg::P(_))
    }
    /// equality up to param names
    pub fn unify_eq(&self, other: &Seg) -> bool {
        match (self, other) {
            (Seg::P(_), Seg::P(_)) => true,
            (Seg::S(a), Seg::S(b)) => a == b,
            _ => false,
        }
    }
}
pub fn lit(segs: &[Seg]) -> String {
    if segs.is_empty() {
        "/".to_string()
    } else {
        segs.iter().map(|s| s.lit()).collect()
    }
}
pub fn n_params(segs: &[Seg]) -> usize {
    segs.iter().filter(|s| s.is_param()).count()
}
pub fn unify_eq(a: &[Seg], b: &[Seg]) -> bool {
    a.len() == b.len() && a.iter().zip(b).all(|(x, y)| x.unify_eq(y))
}
pub fn unify_prefix(prefix: &[Seg], of: &[Seg]) -> bool {
    prefix.len() <= of.len() && prefix.iter().zip(of).all(|(x, y)| x.unify_eq(y))
}

#[derive(Clone, Debug, Serialize, Deserialize, PartialEq)]
pub struct FangDesc {
    pub id: u32,
    /// answers by itself (status 418) when the request carries `X-Early: <id>`
    pub early: bool,
}

#[derive(Clone, Debug, Serialize, Deserialize, PartialEq)]
pub struct HandlerDesc {
    pub id: u32,
    pub arity: u8,
    pub locals: Vec<FangDesc>,
    pub local_pat: u8,
}

#[derive(Clone, Debug, Serialize, Deserialize, PartialEq)]
pub struct RouteItem {
    pub segs: Vec<Seg>,
    pub handlers: Vec<(M, HandlerDesc)>,
}

#[derive(Clone, Debug, Serialize, Deserialize, PartialEq)]
pub enum Item {
    Route(RouteItem),
    Mount { prefix: Vec<Seg>, app: AppDesc },
}

#[derive(Clone, Debug, Serialize, Deserialize, PartialEq, Default)]
pub struct AppDesc {
    pub fangs: Vec<FangDesc>,
    /// which Rust types realise the fangs: 0 all `Fang` impls, 1 all `FangAction`s, 2/3 alternating
    pub fang_pat: u8,
    pub items: Vec<Item>,
}

// ---------------------------------------------------------------- trace

#[derive(Clone, Debug, PartialEq, Eq, Serialize)]
pub enum Ev {
    In(u32),
    Out(u32),
    Early(u32),
    Handler(u32, Vec<String>),
}

thread_local! {
    pub static LOG: RefCell<Vec<Ev>> = const { RefCell::new(Vec::new()) };
}
pub fn log(ev: Ev) {
    LOG.with(|l| l.borrow_mut().push(ev))
}
pub fn take_log() -> Vec<Ev> {
    LOG.with(|l| std::mem::take(&mut *l.borrow_mut()))
}

pub fn handler_body(id: u32, params: &[String]) -> String {
    format!("H{id}({})", params.join(","))
}

// ---------------------------------------------------------------- fangs

#[derive(Clone)]
pub struct TA {
    id: u32,
    early: bool,
}
impl TA {
    fn of(d: &FangDesc) -> Self {
        TA { id: d.id, early: d.early }
    }
}
fn wants_early(req: &Request, id: u32) -> bool {
    match req.headers.get("X-Early") {
        Some(v) => v.split(',').any(|x| x.trim().parse::<u32>().ok() == Some(id)),
        None => false,
    }
}
pub fn early_response(id: u32) -> Response {
    Response::new(Status::Im_a_teapot).with_text(format!("E{id}"))
}
impl FangAction for TA {
    async fn fore<'a>(&'a self, req: &'a mut Request) -> Result<(), Response> {
        if self.early && wants_early(req, self.id) {
            log(Ev::Early(self.id));
            return Err(early_response(self.id));
        }
        log(Ev::In(self.id));
        Ok(())
    }
    async fn back<'a>(&'a self, _res: &'a mut Response) {
        log(Ev::Out(self.id));
    }
}

#[derive(Clone)]
pub struct TF {
    id: u32,
    early: bool,
}
impl TF {
    fn of(d: &FangDesc) -> Self {
        TF { id: d.id, early: d.early }
    }
}
pub struct TFProc<I: FangProc> {
    id: u32,
    early: bool,
    inner: I,
}
impl<I: FangProc> Fang<I> for TF {
    type Proc = TFProc<I>;
    fn chain(&self, inner: I) -> Self::Proc {
        TFProc { id: self.id, early: self.early, inner }
    }
}
impl<I: FangProc> FangProc for TFProc<I> {
    async fn bite<'b>(&'b self, req: &'b mut Request) -> Response {
        if self.early && wants_early(req, self.id) {
            log(Ev::Early(self.id));
            return early_response(self.id);
        }
        log(Ev::In(self.id));
        let res = self.inner.bite(req).await;
        log(Ev::Out(self.id));
        res
    }
}

fn with_fangs(fs: &[FangDesc], pat: u8) -> Ohkami {
    match (fs.len(), pat % 4) {
        (0, _) => Ohkami::new(()),
        (1, 0) => Ohkami::with((TF::of(&fs[0]),), ()),
        (1, 1) => Ohkami::with((TA::of(&fs[0]),), ()),
        (1, 2) => Ohkami::with((TF::of(&fs[0]),), ()),
        (1, 3) => Ohkami::with((TA::of(&fs[0]),), ()),
        (2, 0) => Ohkami::with((TF::of(&fs[0]), TF::of(&fs[1]),), ()),
        (2, 1) => Ohkami::with((TA::of(&fs[0]), TA::of(&fs[1]),), ()),
        (2, 2) => Ohkami::with((TF::of(&fs[0]), TA::of(&fs[1]),), ()),
        (2, 3) => Ohkami::with((TA::of(&fs[0]), TF::of(&fs[1]),), ()),
        (3, 0) => Ohkami::with((TF::of(&fs[0]), TF::of(&fs[1]), TF::of(&fs[2]),), ()),
        (3, 1) => Ohkami::with((TA::of(&fs[0]), TA::of(&fs[1]), TA::of(&fs[2]),), ()),
        (3, 2) => Ohkami::with((TF::of(&fs[0]), TA::of(&fs[1]), TF::of(&fs[2]),), ()),
        (3, 3) => Ohkami::with((TA::of(&fs[0]), TF::of(&fs[1]), TA::of(&fs[2]),), ()),
        (4, 0) => Ohkami::with((TF::of(&fs[0]), TF::of(&fs[1]), TF::of(&fs[2]), TF::of(&fs[3]),), ()),
        (4, 1) => Ohkami::with((TA::of(&fs[0]), TA::of(&fs[1]), TA::of(&fs[2]), TA::of(&fs[3]),), ()),
        (4, 2) => Ohkami::with((TF::of(&fs[0]), TA::of(&fs[1]), TF::of(&fs[2]), TA::of(&fs[3]),), ()),
        (4, 3) => Ohkami::with((TA::of(&fs[0]), TF::of(&fs[1]), TA::of(&fs[2]), TF::of(&fs[3]),), ()),
        (5, 0) => Ohkami::with((TF::of(&fs[0]), TF::of(&fs[1]), TF::of(&fs[2]), TF::of(&fs[3]), TF::of(&fs[4]),), ()),
        (5, 1) => Ohkami::with((TA::of(&fs[0]), TA::of(&fs[1]), TA::of(&fs[2]), TA::of(&fs[3]), TA::of(&fs[4]),), ()),
        (5, 2) => Ohkami::with((TF::of(&fs[0]), TA::of(&fs[1]), TF::of(&fs[2]), TA::of(&fs[3]), TF::of(&fs[4]),), ()),
        (5, 3) => Ohkami::with((TA::of(&fs[0]), TF::of(&fs[1]), TA::of(&fs[2]), TF::of(&fs[3]), TA::of(&fs[4]),), ()),
        (6, 0) => Ohkami::with((TF::of(&fs[0]), TF::of(&fs[1]), TF::of(&fs[2]), TF::of(&fs[3]), TF::of(&fs[4]), TF::of(&fs[5]),), ()),
        (6, 1) => Ohkami::with((TA::of(&fs[0]), TA::of(&fs[1]), TA::of(&fs[2]), TA::of(&fs[3]), TA::of(&fs[4]), TA::of(&fs[5]),), ()),
        (6, 2) => Ohkami::with((TF::of(&fs[0]), TA::of(&fs[1]), TF::of(&fs[2]), TA::of(&fs[3]), TF::of(&fs[4]), TA::of(&fs[5]),), ()),
        (6, 3) => Ohkami::with((TA::of(&fs[0]), TF::of(&fs[1]), TA::of(&fs[2]), TF::of(&fs[3]), TA::of(&fs[4]), TF::of(&fs[5]),), ()),
        (7, 0) => Ohkami::with((TF::of(&fs[0]), TF::of(&fs[1]), TF::of(&fs[2]), TF::of(&fs[3]), TF::of(&fs[4]), TF::of(&fs[5]), TF::of(&fs[6]),), ()),
        (7, 1) => Ohkami::with((TA::of(&fs[0]), TA::of(&fs[1]), TA::of(&fs[2]), TA::of(&fs[3]), TA::of(&fs[4]), TA::of(&fs[5]), TA::of(&fs[6]),), ()),
        (7, 2) => Ohkami::with((TF::of(&fs[0]), TA::of(&fs[1]), TF::of(&fs[2]), TA::of(&fs[3]), TF::of(&fs[4]), TA::of(&fs[5]), TF::of(&fs[6]),), ()),
        (7, 3) => Ohkami::with((TA::of(&fs[0]), TF::of(&fs[1]), TA::of(&fs[2]), TF::of(&fs[3]), TA::of(&fs[4]), TF::of(&fs[5]), TA::of(&fs[6]),), ()),
        (8, 0) => Ohkami::with((TF::of(&fs[0]), TF::of(&fs[1]), TF::of(&fs[2]), TF::of(&fs[3]), TF::of(&fs[4]), TF::of(&fs[5]), TF::of(&fs[6]), TF::of(&fs[7]),), ()),
        (8, 1) => Ohkami::with((TA::of(&fs[0]), TA::of(&fs[1]), TA::of(&fs[2]), TA::of(&fs[3]), TA::of(&fs[4]), TA::of(&fs[5]), TA::of(&fs[6]), TA::of(&fs[7]),), ()),
        (8, 2) => Ohkami::with((TF::of(&fs[0]), TA::of(&fs[1]), TF::of(&fs[2]), TA::of(&fs[3]), TF::of(&fs[4]), TA::of(&fs[5]), TF::of(&fs[6]), TA::of(&fs[7]),), ()),
        (8, 3) => Ohkami::with((TA::of(&fs[0]), TF::of(&fs[1]), TA::of(&fs[2]), TF::of(&fs[3]), TA::of(&fs[4]), TF::of(&fs[5]), TA::of(&fs[6]), TF::of(&fs[7]),), ()),
        _ => panic!("harness: more than 8 fangs"),
    }
}

// ---------------------------------------------------------------- handlers

fn reg<T>(acc: Option<HandlerSet>, path: &'static str, m: M, h: impl IntoHandler<T>) -> HandlerSet {
    match (acc, m) {
        (None, M::GET) => path.GET(h),
        (None, M::PUT) => path.PUT(h),
        (None, M::POST) => path.POST(h),
        (None, M::PATCH) => path.PATCH(h),
        (None, M::DELETE) => path.DELETE(h),
        (Some(s), M::GET) => s.GET(h),
        (Some(s), M::PUT) => s.PUT(h),
        (Some(s), M::POST) => s.POST(h),
        (Some(s), M::PATCH) => s.PATCH(h),
        (Some(s), M::DELETE) => s.DELETE(h),
        _ => panic!("harness: HEAD/OPTIONS cannot be registered"),
    }
}

fn reg_locals<T, H: IntoHandler<T>>(acc: Option<HandlerSet>, path: &'static str, m: M, fs: &[FangDesc], pat: u8, h: H) -> HandlerSet {
    match (fs.len(), pat % 4) {
        (0, _) => reg(acc, path, m, h),
        (1, 0) => reg(acc, path, m, (TF::of(&fs[0]), h)),
        (1, 1) => reg(acc, path, m, (TA::of(&fs[0]), h)),
        (1, 2) => reg(acc, path, m, (TF::of(&fs[0]), h)),
        (1, 3) => reg(acc, path, m, (TA::of(&fs[0]), h)),
        (2, 0) => reg(acc, path, m, (TF::of(&fs[0]), TF::of(&fs[1]), h)),
        (2, 1) => reg(acc, path, m, (TA::of(&fs[0]), TA::of(&fs[1]), h)),
        (2, 2) => reg(acc, path, m, (TF::of(&fs[0]), TA::of(&fs[1]), h)),
        (2, 3) => reg(acc, path, m, (TA::of(&fs[0]), TF::of(&fs[1]), h)),
        (3, 0) => reg(acc, path, m, (TF::of(&fs[0]), TF::of(&fs[1]), TF::of(&fs[2]), h)),
        (3, 1) => reg(acc, path, m, (TA::of(&fs[0]), TA::of(&fs[1]), TA::of(&fs[2]), h)),
        (3, 2) => reg(acc, path, m, (TF::of(&fs[0]), TA::of(&fs[1]), TF::of(&fs[2]), h)),
        (3, 3) => reg(acc, path, m, (TA::of(&fs[0]), TF::of(&fs[1]), TA::of(&fs[2]), h)),
        (4, 0) => reg(acc, path, m, (TF::of(&fs[0]), TF::of(&fs[1]), TF::of(&fs[2]), TF::of(&fs[3]), h)),
        (4, 1) => reg(acc, path, m, (TA::of(&fs[0]), TA::of(&fs[1]), TA::of(&fs[2]), TA::of(&fs[3]), h)),
        (4, 2) => reg(acc, path, m, (TF::of(&fs[0]), TA::of(&fs[1]), TF::of(&fs[2]), TA::of(&fs[3]), h)),
        (4, 3) => reg(acc, path, m, (TA::of(&fs[0]), TF::of(&fs[1]), TA::of(&fs[2]), TF::of(&fs[3]), h)),
        _ => panic!("harness: more than 4 local fangs"),
    }
}

fn reg_handler(acc: Option<HandlerSet>, path: &'static str, m: M, hd: &HandlerDesc) -> HandlerSet {
    let id = hd.id;
    match hd.arity {
        0 => reg_locals(acc, path, m, &hd.locals, hd.local_pat, move || async move {
            log(Ev::Handler(id, vec![]));
            handler_body(id, &[])
        }),
        1 => reg_locals(acc, path, m, &hd.locals, hd.local_pat, move |p: String| async move {
            let ps = vec![p];
            log(Ev::Handler(id, ps.clone()));
            handler_body(id, &ps)
        }),
        _ => reg_locals(acc, path, m, &hd.locals, hd.local_pat, move |(a, b): (String, String)| async move {
            let ps = vec![a, b];
            log(Ev::Handler(id, ps.clone()));
            handler_body(id, &ps)
        }),
    }
}

pub fn leak(s: String) -> &'static str {
    Box::leak(s.into_boxed_str())
}

/// deterministic permutation of 0..n from a seed carried by the case (not an RNG of our own choosing:
/// the seed is generated by the strategy and stored in the case)
pub fn permutation(n: usize, mut seed: u64) -> Vec<usize> {
    let mut v: Vec<usize> = (0..n).collect();
    for i in (1..n).rev() {
        seed = seed.wrapping_mul(6364136223846793005).wrapping_add(1442695040888963407);
        let j = ((seed >> 33) as usize) % (i + 1);
        v.swap(i, j);
    }
    v
}

/// Build the application. `order`: None = the generated order; Some(seed) = every item list shuffled.
pub fn build(app: &AppDesc, order: Option<u64>) -> Ohkami {
    let o = with_fangs(&app.fangs, app.fang_pat);
    build_into(app, order, o)
}

/// Like `build`, but the root application object (with whatever fangs) is supplied by the caller.
pub fn build_into(app: &AppDesc, order: Option<u64>, o: Ohkami) -> Ohkami {
    let mut o = o;
    let idx: Vec<usize> = match order {
        None => (0..app.items.len()).collect(),
        Some(s) => permutation(app.items.len(), s),
    };
    for i in idx {
        match &app.items[i] {
            Item::Route(r) => {
                let path = leak(lit(&r.segs));
                let mut acc: Option<HandlerSet> = None;
                for (m, hd) in &r.handlers {
                    acc = Some(reg_handler(acc, path, *m, hd));
                }
                if let Some(hs) = acc {
                    <HandlerSet as Routing<()>>::apply(hs, &mut o);
                }
            }
            Item::Mount { prefix, app: sub } => {
                let sub = build(sub, order.map(|s| s.wrapping_mul(31).wrapping_add(i as u64 + 1)));
                let by = leak(lit(prefix)).By(sub);
                Routing::<()>::apply(by, &mut o);
            }
        }
    }
    o
}

/// Messages with which the framework itself refuses a configuration at build time (§5.3).
pub fn is_refusal(msg: &str) -> bool {
    const REFUSALS: [&str; 8] = [
        "Conflicting route definition",
        "Conflicting handler registering",
        "Can't merge Ohkamis",
        "Failed to register handler",
        "invalid route",
        "path param(s)",
        "routes must",
        "found an empty route",
    ];
    REFUSALS.iter().any(|r| msg.contains(r))
}

// ---------------------------------------------------------------- flattening (for the models)

#[derive(Clone, Debug)]
pub struct FlatRoute {
    pub segs: Vec<Seg>,
    pub method: M,
    pub handler: HandlerDesc,
    /// index path of the applications containing the route, outermost first (0 = root)
    pub apps: Vec<usize>,
    /// how many distinct items registered methods on this full route (C14)
    pub item_no: usize,
}
#[derive(Clone, Debug)]
pub struct FlatApp {
    pub index: usize,
    pub prefix: Vec<Seg>,
    pub fangs: Vec<FangDesc>,
    pub parent: Option<usize>,
}
#[derive(Clone, Debug, Default)]
pub struct Flat {
    pub routes: Vec<FlatRoute>,
    pub apps: Vec<FlatApp>,
}

pub fn flatten(app: &AppDesc) -> Flat {
    fn go(app: &AppDesc, prefix: Vec<Seg>, chain: Vec<usize>, parent: Option<usize>, flat: &mut Flat, item_counter: &mut usize) {
        let index = flat.apps.len();
        flat.apps.push(FlatApp { index, prefix: prefix.clone(), fangs: app.fangs.clone(), parent });
        let mut chain = chain;
        chain.push(index);
        for it in &app.items {
            match it {
                Item::Route(r) => {
                    *item_counter += 1;
                    let mut segs = prefix.clone();
                    segs.extend(r.segs.iter().cloned());
                    for (m, hd) in &r.handlers {
                        flat.routes.push(FlatRoute { segs: segs.clone(), method: *m, handler: hd.clone(), apps: chain.clone(), item_no: *item_counter });
                    }
                }
                Item::Mount { prefix: p, app: sub } => {
                    let mut pre = prefix.clone();
                    pre.extend(p.iter().cloned());
                    go(sub, pre, chain.clone(), Some(index), flat, item_counter);
                }
            }
        }
    }
    let mut flat = Flat::default();
    let mut c = 0;
    go(app, vec![], vec![], None, &mut flat, &mut c);
    flat
}
