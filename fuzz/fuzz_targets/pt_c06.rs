#![no_main]
//! c06::C06: the fuzz bytes select (as a seed) a case of the property's proptest strategy; see engine::fuzzing::run_passthrough.
use engine::fuzzing::Fuzzer;
use engine::props::c06::C06;
use libfuzzer_sys::fuzz_target;

thread_local! { static F: Fuzzer<C06> = Fuzzer::new(); }

fuzz_target!(|data: &[u8]| {
    F.with(|f| f.run_passthrough(data));
});
