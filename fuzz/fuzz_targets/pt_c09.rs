#![no_main]
//! c09::C09: the fuzz bytes select (as a seed) a case of the property's proptest strategy; see engine::fuzzing::run_passthrough.
use engine::fuzzing::Fuzzer;
use engine::props::c09::C09;
use libfuzzer_sys::fuzz_target;

thread_local! { static F: Fuzzer<C09> = Fuzzer::new(); }

fuzz_target!(|data: &[u8]| {
    F.with(|f| f.run_passthrough(data));
});
