#![no_main]
//! c11::C11: the fuzz bytes select (as a seed) a case of the property's proptest strategy; see engine::fuzzing::run_passthrough.
use engine::fuzzing::Fuzzer;
use engine::props::c11::C11;
use libfuzzer_sys::fuzz_target;

thread_local! { static F: Fuzzer<C11> = Fuzzer::new(); }

fuzz_target!(|data: &[u8]| {
    F.with(|f| f.run_passthrough(data));
});
