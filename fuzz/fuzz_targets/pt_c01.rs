#![no_main]
//! c01::C01: the fuzz bytes select (as a seed) a case of the property's proptest strategy; see engine::fuzzing::run_passthrough.
use engine::fuzzing::Fuzzer;
use engine::props::c01::C01;
use libfuzzer_sys::fuzz_target;

thread_local! { static F: Fuzzer<C01> = Fuzzer::new(); }

fuzz_target!(|data: &[u8]| {
    F.with(|f| f.run_passthrough(data));
});
