#![no_main]
//! C08: byte 0 selects the decoder, bytes 1–2 the target type, the rest is the input.
use engine::fuzzing::Fuzzer;
use engine::harness::hex::HexBytes;
use engine::props::c08::{Case, C08};
use libfuzzer_sys::fuzz_target;

thread_local! { static F: Fuzzer<C08> = Fuzzer::new(); }

fuzz_target!(|data: &[u8]| {
    if data.len() < 3 {
        return;
    }
    let case = Case { dec: data[0] % 8, ty: u16::from_le_bytes([data[1], data[2]]), bytes: HexBytes(data[3..].to_vec()), origin: "fuzz".into(), run_excluded: false };
    F.with(|f| f.run_case(&case));
});
