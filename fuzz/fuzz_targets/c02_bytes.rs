#![no_main]
//! C02: the fuzz bytes are offered verbatim as the first read of a connection.
use engine::fuzzing::Fuzzer;
use engine::harness::hex::HexBytes;
use engine::props::c02::{Case, C02};
use libfuzzer_sys::fuzz_target;

thread_local! { static F: Fuzzer<C02> = Fuzzer::new(); }

fuzz_target!(|data: &[u8]| {
    F.with(|f| f.run_case(&Case { bytes: HexBytes(data.to_vec()), origin: "fuzz".into() }));
});
